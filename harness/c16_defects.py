"""C16 defect hunt (real code only, no model):
 P1  print an AGraph in sympy format, build AGraph(equation=that string): must evaluate identically
 P2  str(sympy_expr) -> AGraph(equation=...): must either be rejected or evaluate like the sympy expression
usage: c16_defects.py <n> <seed>
"""
import math, random, re, signal, sys, warnings
import numpy as np
warnings.filterwarnings("ignore")
import sympy
from bingo.symbolic_regression.agraph.agraph import AGraph
from harness import gen_stacks as G
from harness.c16_diff import wellformed_stack, rand_consts, n_consts, rand_expr, SYMS, Timeout

class V:
    """complex array + mask of points where every intermediate value was real, finite and of moderate size"""
    def __init__(self, v, ok=None):
        self.v = np.asarray(v, dtype=complex) * np.ones(N_PTS)
        good = np.isfinite(self.v.real) & (self.v.imag == 0) & (np.abs(self.v.real) < 1e6) & ((np.abs(self.v.real) > 1e-6) | (self.v.real == 0))
        self.ok = good if ok is None else (ok & good)
    @staticmethod
    def lift(o): return o if isinstance(o, V) else V(o)
    def _bin(self, o, f):
        o = V.lift(o)
        with np.errstate(all="ignore"):
            return V(f(self.v, o.v), self.ok & o.ok)
    def __add__(self, o): return self._bin(o, lambda a, b: a + b)
    def __radd__(self, o): return V.lift(o)._bin(self, lambda a, b: a + b)
    def __sub__(self, o): return self._bin(o, lambda a, b: a - b)
    def __rsub__(self, o): return V.lift(o)._bin(self, lambda a, b: a - b)
    def __mul__(self, o): return self._bin(o, lambda a, b: a * b)
    def __rmul__(self, o): return V.lift(o)._bin(self, lambda a, b: a * b)
    def __truediv__(self, o): return self._bin(o, lambda a, b: a / b)
    def __rtruediv__(self, o): return V.lift(o)._bin(self, lambda a, b: a / b)
    def __pow__(self, o): return self._bin(o, lambda a, b: a ** b)
    def __rpow__(self, o): return V.lift(o)._bin(self, lambda a, b: a ** b)
    def __neg__(self): return V(-self.v, self.ok)
    def __pos__(self): return self

N_PTS = 8

def _fn(f):
    def g(a):
        a = V.lift(a)
        with np.errstate(all="ignore"):
            return V(f(a.v), a.ok)
    return g

def py_reference(s, xs, cols):
    """value of the string under Python's own expression grammar (the grammar sympy's str printer targets)"""
    src = re.sub(r"(?<![\w.])(?<!e[+-])(\d+)(?![\w.]|e[+-]?\d)", r"\1.0", s)
    ns = {f"X_{c}": V(xs[:, c]) for c in cols}
    ns.update(sin=_fn(np.sin), cos=_fn(np.cos), sinh=_fn(np.sinh), cosh=_fn(np.cosh), exp=_fn(np.exp), log=_fn(np.log), sqrt=_fn(np.sqrt), Abs=_fn(np.abs))
    r = V.lift(eval(src, {"__builtins__": {}}, ns))
    return r.v, r.ok

def ev(ag, x):
    with np.errstate(all="ignore"):
        return np.asarray(ag.evaluate_equation_at(x)).ravel()

def same(a, b, rel=0.0):
    if a.shape != b.shape: return False
    for u, v in zip(a, b):
        if math.isnan(u) and math.isnan(v): continue
        if u == v: continue
        if rel and math.isfinite(u) and math.isfinite(v) and abs(u - v) <= rel * max(abs(u), abs(v)): continue
        return False
    return True

def p1(rng, n):
    cls = {}
    for t in range(n):
        st = wellformed_stack(rng)
        k = n_consts(st)
        consts = tuple(float(c) for c in rand_consts(rng, k))
        ag = AGraph(); ag.command_array = np.array(st, dtype=int); ag.set_local_optimization_params(consts)
        s = ag.get_formatted_string("sympy")
        if len(s) > 3000: continue
        D = max([r[1] for r in st if r[0] == 0] + [0]) + 1
        x = G.random_data(rng, 6, D)
        want = ev(ag, x)
        try:
            ag2 = AGraph(equation=s)
            got = ev(ag2, x)
            key = "ok" if same(want, got) else ("ok-1e-12" if same(want, got, 1e-12) else "VALUE-DIFFERS")
        except Exception as e:
            key = f"rejected {type(e).__name__}: {re.sub(r'token .*', 'token …', str(e))}"
        cls.setdefault(key, []).append((s, [str(c) for c in ag.constants]))
    return cls

def p2(rng, n):
    cls = {}
    xs = np.array([[G.nice_value(rng) for _ in range(11)] for _ in range(8)])
    for t in range(n):
        signal.setitimer(signal.ITIMER_REAL, 1.5)
        try:
            e = rand_expr(rng, rng.choice([1, 2, 2, 3, 3]), rng.random() < 0.6)
            s = str(e)
            if len(s) > 400: continue
            try:
                ag = AGraph(equation=s)
                got = ev(ag, xs)
            except Exception as ex:
                key = f"rejected {type(ex).__name__}: {re.sub(r'token .*', 'token …', str(ex))}"
                cls.setdefault(key, []).append(s); continue
            syms = list(SYMS)
            cols = [0, 1, 2, 10]
            ref, allreal = py_reference(s, xs, cols)
            bad = None
            for i, (r, g) in enumerate(zip(ref, got)):
                if not allreal[i]: continue
                if not math.isfinite(g) or abs(g - r.real) > 1e-7 * max(1.0, abs(r.real)):
                    bad = (xs[i, cols].tolist(), r.real, float(g)); break
            key = "ok" if bad is None else "VALUE-DIFFERS"
            cls.setdefault(key, []).append((s, bad, np.asarray(ag.command_array).tolist(), list(ag.constants)) if bad else s)
        except Timeout:
            continue
        except Exception as ex:
            cls.setdefault(f"harness {type(ex).__name__}", []).append(str(ex)[:100])
        finally:
            signal.setitimer(signal.ITIMER_REAL, 0)
    return cls

if __name__ == "__main__":
    n, seed = int(sys.argv[1]), int(sys.argv[2])
    rng = random.Random(seed)
    for name, fn in (("P1 print->parse", p1), ("P2 sympy str->parse", p2)):
        cls = fn(rng, n)
        print("==", name)
        for k, v in sorted(cls.items(), key=lambda kv: -len(kv[1])):
            print(f"  {len(v):6d}  {k}")
            if k != "ok":
                seen = 0
                for item in sorted(v, key=lambda it: len(str(it)))[:6]:
                    print("           ", str(item)[:300])
