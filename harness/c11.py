"""C11 -- migration conserves the population: nobody is lost or duplicated.

K: the real `SerialArchipelago._coordinate_migration_between_islands` with id-tagged individuals and logged
shuffles (np.random.shuffle wrapped from the harness) against `Migration.migrate`: resulting islands compared
exactly (who is where, in which order, which flags).
Oracle: multiset of individuals over all islands unchanged, equal sizes stay equal, every member of a paired
island unflagged, at most one island sits out and only for an odd number, `evolve(n)` advances the age by n.
The parallel (MPI) exchange is exercised under C12.
"""
import warnings

import numpy as np

from bingo.evolutionary_optimizers.serial_archipelago import SerialArchipelago

from harness.bingo_util import scripted_chromosome, simple_island
from harness.common import harness_main, run_driver


class ShuffleLog:
    def __init__(self):
        self.perms = []

    def __enter__(self):
        self.orig = np.random.shuffle
        me = self

        def wrapped(lst):
            before = list(lst)
            me.orig(lst)
            # perm[k] = old position of the element now at k (elements are distinct objects / ints)
            pos = {id(o) if not isinstance(o, (int, np.integer)) else ("i", int(o)): i for i, o in enumerate(before)}
            me.perms.append([pos[id(o) if not isinstance(o, (int, np.integer)) else ("i", int(o))] for o in lst])
        np.random.shuffle = wrapped
        return self

    def __exit__(self, *a):
        np.random.shuffle = self.orig
        return False


def snapshot(arch):
    return [[(c.values[0], c.fit_set) for c in isl.population] for isl in arch.islands]


def run(ctx, rep):
    rng = ctx.rng
    rep.rule = ("serial archipelagos of 1..9 islands with island sizes 0..11 (equal, and unequal to exercise the size law), id-tagged members, "
                "1..3 consecutive migrations with logged shuffles; the partner every rank of a parallel archipelago computes for every island order (1..9 ranks); distinct = distinct (sizes, shuffles); non-trivial = at least one pair exchanged members")
    rep.assumptions = ["np.random.shuffle permutes in place (the permutation is logged, any permutation is covered by the theorems)"]
    lines, meta = [], []
    template, _ = simple_island(2)
    for t in range(ctx.n(600, 8000)):
        ni = rng.randrange(1, 10)
        equal = rng.random() < 0.7
        size = rng.randrange(0, 12)
        with warnings.catch_warnings():
            warnings.simplefilter("ignore")
            arch = SerialArchipelago(template, num_islands=ni)
        nid = 0
        for isl in arch.islands:
            n = size if equal else rng.randrange(0, 12)
            isl.population = [scripted_chromosome(nid + k, float(k)) for k in range(n)]
            nid += 100
        np.random.seed(rng.randrange(2 ** 31))
        for rnd in range(rng.choice([1, 1, 2, 3])):
            before = snapshot(arch)
            with ShuffleLog() as log:
                arch._coordinate_migration_between_islands()
            after = snapshot(arch)
            order = log.perms[0]
            shuffles = log.perms[1:]
            case = {"before": before, "order": order, "shuffles": shuffles, "after": after}
            moved = any(set(i for i, _ in a) != set(i for i, _ in b) for a, b in zip(after, before))
            rep.case((str(before), str(order), str(shuffles)), moved)
            rep.count("islands", ni)
            rep.count("equal_sizes", equal)
            rep.sample({"sizes": [len(p) for p in before], "order": order, "sizes_after": [len(p) for p in after]})
            # ---------- oracle
            ids_b = sorted(i for p in before for i, _ in p)
            ids_a = sorted(i for p in after for i, _ in p)
            if ids_a != ids_b:
                rep.violate("the multiset of individuals over all islands changed during migration", "C11:multiset", case)
            if equal and [len(p) for p in after] != [len(p) for p in before]:
                rep.violate("equally sized islands changed size during migration", "C11:sizes", case)
            paired = order[:2 * (ni // 2)]
            for x in paired:
                if any(f for _, f in after[x]):
                    rep.violate(f"island {x} took part in migration but holds an individual still marked evaluated", "C11:flags", case)
            untouched = [x for x in range(ni) if x not in paired]
            if len(untouched) != ni % 2:
                rep.violate(f"{len(untouched)} islands sat out of migration for {ni} islands", "C11:pairing", case)
            for x in untouched:
                if after[x] != before[x]:
                    rep.violate(f"island {x} sat out but changed", "C11:pairing", case)
            if ctx.driver_ok:
                isl_s = [(" ".join(f"{i}:{1 if f else 0}" for i, f in p) or "-") for p in before]
                line = f"migrate ; {' '.join(map(str, order))} ; {len(shuffles)} ; " + " ; ".join(
                    [" ".join(map(str, s)) if s else "" for s in shuffles] + isl_s)
                # an empty shuffle (empty island) is an empty field: encode as a lone space-free token list
                lines.append(line)
                meta.append((case, [(" ".join(f"{i}:{1 if f else 0}" for i, f in p) or "-") for p in after]))
    # generational age: histories of evolve calls on archipelagos built from fresh and from pre-evolved templates, with an
    # island now and then evolved directly between the calls (seed C11-I: archipelago age tied to the islands' counters)
    for t in range(ctx.n(30, 150)):
        with warnings.catch_warnings():
            warnings.simplefilter("ignore")
            tmpl, _ = simple_island(4)
            k = rng.choice([0, 0, 1, 2, 3])
            if k:
                np.random.seed(rng.randrange(2 ** 31))
                tmpl.evolve(k)
            arch = SerialArchipelago(tmpl, num_islands=rng.randrange(1, 4))
            hist = []
            for call in range(rng.randrange(1, 4)):
                if rng.random() < 0.3:
                    j = rng.randrange(1, 3)
                    arch.islands[rng.randrange(len(arch.islands))].evolve(j)
                    hist.append(f"island.evolve({j})")
                a0 = arch.generational_age
                i0 = [isl.generational_age for isl in arch.islands]
                n = rng.randrange(1, 5)
                np.random.seed(rng.randrange(2 ** 31))
                arch.evolve(n)
                hist.append(f"evolve({n})")
                case = {"template_age": k, "history": list(hist), "n": n}
                rep.case(("age", t, call, k, tuple(hist)), True)
                if arch.generational_age != a0 + n:
                    rep.violate(f"evolve({n}) advanced the archipelago's generational age by {arch.generational_age - a0}", "C11:age", case)
                if any(isl.generational_age != b + n for isl, b in zip(arch.islands, i0)):
                    rep.violate(f"evolve({n}) did not advance every island by {n}", "C11:age", case)
    if ctx.driver_ok:
        outs = run_driver(lines)
        rep.corr_cases = len(lines)
        for line, o, (case, want) in zip(lines, outs, meta):
            got = [s.strip() for s in o[3:].split(" ; ")] if o.startswith("ok") else o
            if got != want:
                rep.disagree(f"islands after migration: model {got} vs code {want}", {"line": line, **case})
    parallel_partners(ctx, rep)


def parallel_partners(ctx, rep):
    """the partner every rank of a PARALLEL archipelago computes from the broadcast island order (`_get_migration_partner`, run
    on the real class with a stand-in communicator whose bcast hands every rank the same order): nobody is its own partner, the
    relation is symmetric, exactly R % 2 ranks sit out - and it is the model's `partner`"""
    import os
    import sys
    stub = os.path.join(os.path.dirname(os.path.abspath(__file__)), "mpi_stub")
    if stub not in sys.path:
        sys.path.insert(0, stub)
    try:
        from bingo.evolutionary_optimizers.parallel_archipelago import ParallelArchipelago
    except Exception as exc:
        rep.extra["parallel_partners"] = f"not run: {exc!r}"
        return
    rng = ctx.rng

    class FakeComm:
        def __init__(self, order):
            self.order = order

        def bcast(self, x, root=0):
            return list(self.order)
    lines, meta = [], []
    for t in range(ctx.n(300, 3000)):
        R = rng.choice([1, 2, 3, 3, 4, 5, 6, 7, 9])
        order = list(range(R))
        rng.shuffle(order)
        got = []
        try:
            for r in range(R):
                pa = ParallelArchipelago.__new__(ParallelArchipelago)
                pa.comm, pa.comm_rank, pa.comm_size, pa._num_islands = FakeComm(order), r, R, R
                pa._shuffle_island_indices = lambda o=order: list(o)
                p = pa._get_migration_partner()
                got.append(-1 if p is None else int(p))
        except Exception as exc:
            rep.violate(f"_get_migration_partner raised {type(exc).__name__}: {exc} for the island order {order}", "C11:parallel-partner", {"order": order})
            continue
        case = {"order": order, "partners": got}
        rep.case(("parpartner", tuple(order)), R > 1)
        rep.count("parallel_partner_ranks", R)
        bad = [r for r in range(R) if got[r] == r or (got[r] >= 0 and (got[r] >= R or got[got[r]] != r))]
        if bad or sum(1 for p in got if p < 0) != R % 2:
            rep.violate(f"parallel archipelago, broadcast island order {order}: the ranks compute the partners {got} (-1 = sits out): "
                        f"{'rank %d is its own partner or its partner does not agree' % bad[0] if bad else 'wrong number of ranks sit out'}; "
                        "the exchange then blocks or loses individuals", "C11:parallel-partner", case)
        lines.append("parpartner ; " + " ".join(map(str, order)))
        meta.append(case)
    # the whole migration phase of a parallel archipelago (every rank in its own thread, a stand-in communicator that only
    # provides bcast and a rendezvous sendrecv): conservation, sizes, who is marked for re-evaluation, nobody blocks
    import threading
    for t in range(ctx.n(60, 600)):
        R = rng.choice([1, 2, 3, 3, 4, 5, 7])
        order = list(range(R))
        rng.shuffle(order)
        size = rng.choice([1, 2, 3, 4, 6, 7])
        box, cond = {}, threading.Condition()

        class Comm:
            def __init__(self, me):
                self.me = me

            def bcast(self, x, root=0):
                return list(order)

            def sendrecv(self, obj, dest, sendtag=0, source=None, recvtag=0):
                with cond:
                    box[(self.me, dest)] = obj
                    cond.notify_all()
                    if not cond.wait_for(lambda: (source, self.me) in box, timeout=5.0):
                        raise TimeoutError(f"rank {self.me} waits for rank {source} forever")
                    return box.pop((source, self.me))
        islands, errors = [], {}
        for r in range(R):
            isl, _ = simple_island(0)
            isl.population = [scripted_chromosome(100 * r + i, float(i)) for i in range(size)]
            islands.append(isl)
        before = [[c.values[0] for c in isl.population] for isl in islands]

        def work(r):
            try:
                pa = ParallelArchipelago.__new__(ParallelArchipelago)
                pa.comm, pa.comm_rank, pa.comm_size, pa._num_islands, pa.island = Comm(r), r, R, R, islands[r]
                pa._shuffle_island_indices = lambda o=order: list(o)
                np.random.seed(1000 * t + r)
                pa._coordinate_migration_between_islands()
            except Exception as exc:
                errors[r] = f"{type(exc).__name__}: {exc}"
        threads = [threading.Thread(target=work, args=(r,)) for r in range(R)]
        for th in threads:
            th.start()
        for th in threads:
            th.join(20.0)
        after = [[c.values[0] for c in isl.population] for isl in islands]
        case = {"order": order, "island_size": size, "before": before, "after": after}
        rep.case(("parmigration", tuple(order), size), R > 1)
        rep.count("parallel_migration_ranks", R)
        if errors or any(th.is_alive() for th in threads):
            rep.violate(f"parallel migration, island order {order}: {errors or 'a rank never returned'}", "C11:parallel-migration", case)
            continue
        if sorted(v for p in after for v in p) != sorted(v for p in before for v in p):
            rep.violate(f"parallel migration, island order {order}: the individuals over all ranks changed from {before} to {after}",
                        "C11:parallel-migration", case)
        elif [len(p) for p in after] != [len(p) for p in before]:
            rep.violate(f"parallel migration, island order {order}: island sizes {[len(p) for p in before]} -> {[len(p) for p in after]}",
                        "C11:parallel-migration", case)
        else:
            part = set(order[: 2 * (R // 2)])
            for r in range(R):
                flags = [c.fit_set for c in islands[r].population]
                if r in part and any(flags):
                    rep.violate(f"parallel migration: rank {r} exchanged individuals but {sum(flags)} of its members stay marked evaluated",
                                "C11:parallel-migration", case)
                    break
                if r not in part and after[r] != before[r]:
                    rep.violate(f"parallel migration: rank {r} sits out but its population changed", "C11:parallel-migration", case)
                    break
    if ctx.driver_ok and lines:
        outs = run_driver(lines)
        rep.corr_cases = getattr(rep, "corr_cases", 0) + len(lines)
        for line, o, case in zip(lines, outs, meta):
            want = "partners=" + ",".join("-" if p < 0 else str(p) for p in case["partners"])
            if not o.startswith(want + " "):
                rep.disagree(f"parallel migration partners: model '{o}' vs code '{want}'", {"line": line, **case})


def replay(ctx, rep, rp):
    rep.case(("replay",), True)
    rep.case(("replay2",), True)
    case = rp.get("case", {})
    if "before" not in case:
        return
    template, _ = simple_island(2)
    arch = SerialArchipelago(template, num_islands=len(case["before"]))
    for isl, p in zip(arch.islands, case["before"]):
        isl.population = [scripted_chromosome(i, 0.0) for i, _ in p]
    arch._coordinate_migration_between_islands()
    after = snapshot(arch)
    print("replay:", after)
    if sorted(i for p in after for i, _ in p) != sorted(i for p in case["before"] for i, _ in p):
        rep.violate("multiset changed", rp.get("key"), case)


if __name__ == "__main__":
    harness_main("C11", run, replay)
