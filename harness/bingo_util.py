"""Helpers to build real bingo optimizers around simple integer-list chromosomes with a deterministic,
genome-determined (possibly NaN/inf) fitness."""
import math

import numpy as np

from bingo.chromosomes.multiple_values import (MultipleValueChromosome, MultipleValueChromosomeGenerator,
                                               SinglePointCrossover, SinglePointMutation)
from bingo.evaluation.evaluation import Evaluation
from bingo.evaluation.fitness_function import FitnessFunction
from bingo.evolutionary_algorithms.mu_plus_lambda import MuPlusLambda
from bingo.evolutionary_optimizers.island import Island
from bingo.selection.tournament import Tournament


class GenomeFitness(FitnessFunction):
    """deterministic function of the genome: sum of values mapped through a table; some genomes are NaN/inf"""

    def __init__(self, nan_mod=7, inf_mod=11):
        super().__init__()
        self.nan_mod = nan_mod
        self.inf_mod = inf_mod
        self.calls = 0

    def value(self, values):
        s = int(sum(values))
        if self.nan_mod and s % self.nan_mod == 3:
            return float("nan")
        if self.inf_mod and s % self.inf_mod == 5:
            return float("inf")
        return float((s * 37) % 23) / 2.0

    def __call__(self, individual):
        self.eval_count += 1
        self.calls += 1
        return self.value(individual.values)


def scripted_chromosome(ident, fitness, age=0):
    c = MultipleValueChromosome([ident])
    c.fitness = fitness
    c.genetic_age = age
    return c


def simple_island(pop_size=0, nan_mod=7, inf_mod=11, values=4, rng_state=None):
    fit = GenomeFitness(nan_mod, inf_mod)
    evaluation = Evaluation(fit)
    value_fn = lambda: int(np.random.randint(0, 10))
    gen = MultipleValueChromosomeGenerator(value_fn, values)
    ea = MuPlusLambda(evaluation, Tournament(2), SinglePointCrossover(), SinglePointMutation(value_fn), 0.4, 0.4, max(pop_size, 2))
    return Island(ea, gen, pop_size), fit


def nan_eq(a, b):
    if isinstance(a, float) and isinstance(b, float) and math.isnan(a) and math.isnan(b):
        return True
    return a == b
