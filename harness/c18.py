"""C18 -- an equation object always behaves as its current stack and constants dictate.

K: random operation sequences (assign / edit the command array, set constants, observe, set fitness) on real
AGraph objects with and without algebraic simplification against `AG.step` instantiated with the models of
reduce_stack and of the CAS: after every operation the cached simplified stack, the constants, and the
needs-opt / modified / fit_set flags are compared.
Oracle: after every operation every observation (constant count, complexity, the four string formats, value,
both gradients, constants, command array, utilized commands, distance) equals that of a freshly constructed
AGraph with the same command array, setting and constants; writes clear the fitness; copies are equal and
independent (array aliasing checked by mutating one side).
"""
import copy
import math
import warnings

import numpy as np

from bingo.symbolic_regression.agraph.agraph import AGraph

from harness import gen_stacks as G
from harness.common import harness_main, run_driver, stack_str, f2b, watchdog, Timeout

FORMATS = ["console", "latex", "stack", "sympy"]


def observations(ag, x):
    with warnings.catch_warnings():
        warnings.simplefilter("ignore")
        with np.errstate(all="ignore"):
            out = {}
            out["nparams"] = ag.get_number_local_optimization_params()
            out["complexity"] = ag.get_complexity()
            for f in FORMATS:
                try:
                    out["str_" + f] = ag.get_formatted_string(f)
                except Exception as exc:
                    out["str_" + f] = "raise:" + type(exc).__name__
            v = ag.evaluate_equation_at(x)
            out["value"] = [f2b(a) if not math.isnan(a) else "nan" for a in v.ravel()]
            vx, dx = ag.evaluate_equation_with_x_gradient_at(x)
            out["dx"] = [f2b(a) if not math.isnan(a) else "nan" for a in np.asarray(dx).ravel()]
            vc, dc = ag.evaluate_equation_with_local_opt_gradient_at(x)
            out["dc"] = [f2b(a) if not math.isnan(a) else "nan" for a in np.asarray(dc).ravel()]
            out["constants"] = [f2b(float(c)) for c in ag.constants]
            out["cmd"] = np.asarray(ag.command_array).tolist()
            out["utilized"] = list(map(bool, ag.get_utilized_commands()))
            return out


def _enc(a):
    return [f2b(v) if not math.isnan(v) else "nan" for v in np.asarray(a, dtype=float).ravel()]


# every read entry point, each usable as the FIRST read after a write (the one that has to refresh the cache);
# needs_local_optimization() is not among them: whether constants still await optimization legitimately depends on the history
READERS = [
    ("nparams", lambda ag, x: ag.get_number_local_optimization_params()),
    ("complexity", lambda ag, x: ag.get_complexity()),
    ("str", lambda ag, x: str(ag)),
    ("sympy", lambda ag, x: ag.get_formatted_string("sympy")),
    ("value", lambda ag, x: _enc(ag.evaluate_equation_at(x))),
    ("x-gradient", lambda ag, x: [_enc(p) for p in ag.evaluate_equation_with_x_gradient_at(x)]),
    ("c-gradient", lambda ag, x: [_enc(p) for p in ag.evaluate_equation_with_local_opt_gradient_at(x)]),
    ("constants", lambda ag, x: [f2b(float(c)) for c in ag.constants]),
    ("utilized", lambda ag, x: list(map(bool, ag.get_utilized_commands()))),
]


def first_reads(ag, x):
    """name -> what each reader returns when it is the first read on (a copy of) the object; exceptions by class name"""
    out = {}
    with warnings.catch_warnings():
        warnings.simplefilter("ignore")
        with np.errstate(all="ignore"):
            for name, fn in READERS:
                probe = copy.deepcopy(ag)
                try:
                    out[name] = fn(probe, x)
                except (MemoryError, OverflowError, RecursionError, Timeout):
                    raise
                except Exception as exc:
                    out[name] = "raise:" + type(exc).__name__
    return out


def fresh_like(ag):
    f = AGraph(use_simplification=ag._use_simplification)
    f.command_array = np.array(ag.command_array, copy=True)
    f.set_local_optimization_params(tuple(ag.constants))
    return f


def string_built(ctx, rep):
    """an equation built from a STRING is an object like any other from its first moment: it can be copied (what variation, halls of
    fame and checkpoints do) before anything has read it, and the copy behaves as a freshly built equation"""
    rng = ctx.rng
    x = np.array([[0.7], [-1.3], [2.0]])
    for t in range(ctx.n(20, 200)):
        e = rng.choice(["2.5*X_0 + 1.25", "sin(1.5*X_0) + 3.0", "X_0*X_0 - 0.75*X_0", "X_0 + X_0", "(X_0 + 2.0)*(X_0 - 0.5)", "3*X_0"])
        simp = rng.random() < 0.3
        case = {"equation": e, "use_simplification": simp}
        rep.case(("string-built", e, simp, t), True)
        rep.count("string_built_first_operation", "copy")
        try:
            with warnings.catch_warnings():
                warnings.simplefilter("ignore")
                a = AGraph(equation=e, use_simplification=simp)
                c = a.copy() if rng.random() < 0.5 else copy.deepcopy(a)
                o_c, o_f = observations(c, x), observations(AGraph(equation=e, use_simplification=simp), x)
        except Exception as exc:
            rep.violate(f"AGraph(equation={e!r}).copy() as the first operation raised {type(exc).__name__}: {exc}", "C18:observation-raised", case)
            continue
        if o_c != o_f:
            diff = [k_ for k_ in o_c if o_c[k_] != o_f[k_]]
            rep.violate(f"a copy taken right after AGraph(equation={e!r}) differs from a freshly built equation in {diff}", "C18:copy-differs", case)


def run(ctx, rep):
    string_built(ctx, rep)
    rng = ctx.rng
    rep.rule = ("random operation sequences of length 3..25 (assign command array, edit a row through mutable_command_array, set constants of the "
                "right length, observe through any reader, set fitness) on AGraphs with reduce / CAS simplification; after every operation: observations vs a fresh object, every reader as the first read, parameter count vs the stack; copies in both directions; distinct = distinct (setting, sequence); "
                "non-trivial = at least one write after the first observation")
    rep.assumptions = ["constants are compared as opaque values (the model uses integers)"]
    lines, meta = [], []
    for t in range(ctx.n(250, 3000)):
        use_simp = rng.random() < 0.4
        D = 2
        ops_pool = rng.choice(G.OP_SUBSETS[:8])
        size = rng.choice([3, 5, 8, 12])
        x = np.array([[G.nice_value(rng) for _ in range(D)] for _ in range(3)])
        ag = AGraph(use_simplification=use_simp)
        ops = []          # model ops
        nconst_id = 10
        writes_after_obs = 0
        seen_obs = False
        ok = True
        states = []
        nops = rng.randrange(3, 26)
        for k in range(nops):
          try:
            with watchdog(20.0):
                r = rng.random()
                if k == 0 or r < 0.2:
                    st = G.random_stack(rng, size, D, ops_pool, term_prob=0.35, const_prob=rng.choice([0.2, 0.5]), int_prob=0.1)
                    how = rng.random()
                    held = ag._command_array
                    if k > 0 and how < 0.25 and held.shape == (size, 3):
                        # the caller re-uses its work buffer: edits the array the equation already holds IN PLACE (after a read
                        # refreshed the cache) and assigns the very same object again
                        ag.get_complexity()
                        ops.append("o")
                        states.append(None)
                        held.flags.writeable = True
                        held[:] = np.array(st, dtype=int).reshape(-1, 3)
                        ag.command_array = held
                        rep.count("assign", "same object after in-place edit")
                    elif k > 0 and how < 0.5 and held.shape == (size, 3):
                        # view, read, edit the view, commit the view through the setter
                        v = ag.mutable_command_array
                        i0 = rng.randrange(size)
                        ops.append("e %d %d %d %d" % (i0, *[int(t) for t in v[i0]]))      # obtaining the view notifies
                        states.append(None)
                        ag.get_complexity()
                        ops.append("o")
                        states.append(None)
                        v[:] = np.array(st, dtype=int).reshape(-1, 3)
                        ag.command_array = v
                        rep.count("assign", "view, read, edit, commit")
                    else:
                        ag.command_array = np.array(st, dtype=int).reshape(-1, 3)
                        rep.count("assign", "new array")
                    ops.append("c " + stack_str(st))
                    writes_after_obs += seen_obs
                elif r < 0.4:
                    i = rng.randrange(size)
                    if i == 0 or rng.random() < 0.4:
                        row = rng.choice([[G.VARIABLE, rng.randrange(D), 0], [G.CONSTANT, -1, -1], [G.INTEGER, rng.randrange(0, 4), 0]])
                        row[2] = row[1]
                    else:
                        row = [rng.choice(ops_pool), rng.randrange(i), rng.randrange(i)]
                    ag.mutable_command_array[i] = row
                    ops.append(f"e {i} {row[0]} {row[1]} {row[2]}")
                    writes_after_obs += seen_obs
                elif r < 0.6:
                    n = ag.get_number_local_optimization_params()     # callers ask first (this refreshes the cache)
                    ops.append("o")
                    states.append(None)
                    vals = list(range(nconst_id, nconst_id + n))
                    nconst_id += n
                    ag.set_local_optimization_params([float(v) for v in vals])
                    ops.append("p " + " ".join(map(str, vals)))
                elif r < 0.9:
                    # a read on the object itself (any entry point: whatever a reader caches must not survive the next write)
                    name, fn = rng.choice(READERS)
                    with warnings.catch_warnings():
                        warnings.simplefilter("ignore")
                        with np.errstate(all="ignore"):
                            try:
                                fn(ag, x)
                            except (MemoryError, OverflowError, RecursionError, Timeout):
                                raise
                            except Exception:
                                pass
                    ag.get_complexity()
                    rep.count("read_on_object", name)
                    ops.append("o")
                    seen_obs = True
                elif r < 0.96:
                    ag.fitness = 3.0
                    ops.append("f 6")
                else:
                    ag.fit_set = False        # what Island.reset_fitness does: the stored value stays
                    ops.append("z")
                # ---------- oracle after every operation
                case = {"use_simplification": use_simp, "ops": list(ops), "x": x.tolist()}
                if ops[-1][0] in "ce" and (ag.fit_set or ag.fitness is not None):
                    rep.violate("a write to the command array did not clear the stored fitness", "C18:write-keeps-fitness", case)
                    ok = False
                    break
                probe = copy.deepcopy(ag)              # observe on a copy so that the observation itself does not perturb the history
                try:
                    o1 = observations(probe, x)
                    o2 = observations(fresh_like(ag), x)
                except Exception as exc:
                    rep.violate(f"observation raised {type(exc).__name__}: {exc}", "C18:observation-raised", case)
                    ok = False
                    break
                if o1 != o2:
                    diff = [k_ for k_ in o1 if o1[k_] != o2[k_]]
                    rep.violate(f"observations {diff} differ from those of a freshly constructed equation", "C18:differs-from-fresh", case)
                    ok = False
                    break
                # independent of any equation object: the number of parameters is the number of constant rows the expression uses
                # (counted here from the command array), and after a read exactly that many constants are stored
                cmd_now = np.asarray(ag.command_array).tolist()
                if not use_simp:
                    n_expected = sum(1 for u, r_ in zip(G.utilized(cmd_now), cmd_now) if u and r_[0] == G.CONSTANT)
                else:
                    probe.get_complexity()
                    n_expected = sum(1 for r_ in np.asarray(probe._simplified_command_array).tolist() if r_[0] == G.CONSTANT)
                if o1["nparams"] != n_expected or len(o1["constants"]) != n_expected:
                    rep.violate(f"the equation reports {o1['nparams']} parameters and stores {len(o1['constants'])} constants after a read, but its "
                                f"expression uses {n_expected} constant rows", "C18:parameter-count", case)
                    ok = False
                    break
                if ag._modified:
                    # the cache is stale right now: EVERY read entry point must refresh it when it comes first
                    f1, f2 = first_reads(ag, x), first_reads(fresh_like(ag), x)
                    rep.count("first_read_checks")
                    if f1 != f2:
                        diff = [k_ for k_ in f1 if f1[k_] != f2[k_]]
                        rep.violate(f"as the FIRST read after the last write, {diff} differ from those of a freshly constructed equation "
                                    f"({ {k_: (f1[k_], f2[k_]) for k_ in diff[:2]} })", "C18:differs-from-fresh", case)
                        ok = False
                        break
                # the same on the OBJECT itself (a copy starts with fresh derived state; a reader's private cache lives on the object)
                if rng.random() < 0.35:
                    with warnings.catch_warnings():
                        warnings.simplefilter("ignore")
                        own = {f: ag.get_formatted_string(f) for f in ("console", "sympy", "stack")}
                    ops.append("o")
                    states.append(None)
                    rep.count("strings_read_on_object")
                    want_s = {f: o2["str_" + f] for f in own}
                    if own != want_s:
                        bad_f = [f for f in own if own[f] != want_s[f]][0]
                        rep.violate(f"the object prints {own[bad_f]!r} in {bad_f} format, a freshly constructed equation with the same stack and "
                                    f"constants prints {want_s[bad_f]!r}", "C18:differs-from-fresh", case)
                        ok = False
                        break
                # copy: equal and independent
                if rng.random() < 0.3:
                    cp = ag.copy()
                    if (cp.fitness, cp.fit_set, cp.genetic_age) != (ag.fitness, ag.fit_set, ag.genetic_age):
                        rep.violate("copy differs in fitness / flag / age", "C18:copy-differs", case)
                    before = observations(copy.deepcopy(ag), x)
                    cp.mutable_command_array[0] = [G.INTEGER, 9, 9]
                    cp.set_local_optimization_params([123.0] * cp.get_number_local_optimization_params())
                    if observations(copy.deepcopy(ag), x) != before:
                        rep.violate("changing a copy changed the original", "C18:copy-aliased", case)
                states.append((np.asarray(ag._simplified_command_array).tolist() if not ag._modified else None,
                               [float(c) for c in ag.constants], ag._needs_opt, ag._modified, ag.fit_set))
          except (MemoryError, OverflowError, RecursionError, Timeout):
            # the algebraic simplifier ran out of resources on huge integer powers (recorded under C03: F3b family); abandon this history
            rep.count("cas_resource_error")
            ok = False
            break
        if not ok:
            continue
        # copies are independent in BOTH directions: after copying, edits of the ORIGINAL (in place, through the mutable view, and
        # of its constants) must not reach the copy or a copy of the copy
        try:
            with watchdog(20.0):
                cp = ag.copy()
                cp2 = cp.copy()
                fresh_first = rng.random() < 0.5
                b1 = observations(cp, x) if fresh_first else None
                cmd_before = np.asarray(cp.command_array).tolist()
                ag.mutable_command_array[0] = [G.INTEGER, 9, 9]
                ag.mutable_command_array[len(cmd_before) - 1] = [G.VARIABLE, 0, 0]
                ag.set_local_optimization_params([321.0] * ag.get_number_local_optimization_params())
                rep.count("copy_then_edit_original")
                case = {"use_simplification": use_simp, "ops": list(ops), "then": "copy, copy of the copy, edit the original in place"}
                for name, c in (("the copy", cp), ("the copy of the copy", cp2)):
                    if np.asarray(c.command_array).tolist() != cmd_before:
                        rep.violate(f"editing the original in place changed the command array of {name}", "C18:copy-aliased", case)
                        break
                    o_c, o_f = observations(c, x), observations(fresh_like(c), x)
                    if o_c != o_f or (b1 is not None and c is cp and o_c != b1):
                        rep.violate(f"after the original was edited, {name} no longer behaves as its own stack and constants dictate", "C18:copy-aliased", case)
                        break
        except (MemoryError, OverflowError, RecursionError, Timeout):
            rep.count("cas_resource_error")
        except Exception as exc:
            rep.violate(f"copy / edit of the original raised {type(exc).__name__}: {exc}", "C18:observation-raised", {"ops": list(ops)})
        rep.case((use_simp, tuple(ops)), writes_after_obs > 0)
        rep.count("use_simplification", use_simp)
        rep.count("n_ops", min(len(ops), 30) // 5 * 5)
        rep.sample({"use_simplification": use_simp, "ops": ops[:8]})
        if ctx.driver_ok:
            lines.append(f"agraph ; {1 if use_simp else 0} ; " + " ; ".join(ops))
            meta.append(({"use_simplification": use_simp, "ops": ops}, states))
    if ctx.driver_ok:
        outs = run_driver(lines, timeout=1800)
        rep.corr_cases = len(lines)
        for line, o, (case, states) in zip(lines, outs, meta):
            if not o.startswith("ok"):
                rep.disagree(f"model error: {o[:80]}", case)
                continue
            ms = o[3:].split(" | ")
            if len(ms) != len(states):
                rep.disagree(f"{len(ms)} model states for {len(states)} operations", case)
                continue
            for idx, (m, s) in enumerate(zip(ms, states)):
                if s is None:
                    continue
                simp, consts, needs, modified, fitset = s
                parts = m.split(" ; ")
                mflags = parts[2].split()
                mconsts = [float(v) for v in parts[1].split()]
                msimp = [int(v) for v in parts[0].split()]
                msimp = [msimp[i:i + 3] for i in range(0, len(msimp), 3)]
                bad = None
                if mflags != [str(int(needs)), str(int(modified)), str(int(fitset))]:
                    bad = f"flags (needs_opt, modified, fit_set): model {mflags} vs code {[int(needs), int(modified), int(fitset)]}"
                elif not modified and simp != msimp:
                    bad = f"simplified command array: model {msimp} vs code {simp}"
                elif mconsts != consts:
                    bad = f"constants: model {mconsts} vs code {consts}"
                if bad:
                    rep.disagree(f"after operation {idx} ({case['ops'][idx]}): {bad}", {"line": line, **case})
                    break


def replay(ctx, rep, rp):
    rep.case(("replay",), True)
    rep.case(("replay2",), True)
    case = rp.get("case", {})
    if "ops" not in case:
        return
    ag = AGraph(use_simplification=case["use_simplification"])
    x = np.array(case["x"])
    for op in case["ops"]:
        w = op.split()
        if w[0] == "c":
            v = [int(t) for t in w[1:]]
            ag.command_array = np.array(v, dtype=int).reshape(-1, 3)
        elif w[0] == "e":
            ag.mutable_command_array[int(w[1])] = [int(w[2]), int(w[3]), int(w[4])]
        elif w[0] == "p":
            ag.set_local_optimization_params([float(t) for t in w[1:]])
        elif w[0] == "o":
            ag.get_complexity()
        elif w[0] == "z":
            ag.fit_set = False
        else:
            ag.fitness = 3.0
    o1 = observations(copy.deepcopy(ag), x)
    o2 = observations(fresh_like(ag), x)
    print("replay: equal to fresh:", o1 == o2)
    if o1 != o2:
        rep.violate("differs from fresh", rp.get("key"), case)


if __name__ == "__main__":
    harness_main("C18", run, replay)
