"""C15 -- the best individual reported is a true minimum and carries its true fitness.

K: `Island.get_best_individual` and `SerialArchipelago.get_best_individual/get_best_fitness` on scripted
populations (ties, NaN, +-inf, every position) against the Lean scans.
Oracle: independent minimum over non-NaN members; NaN only if all are NaN; for FitnessPredictorIsland the
fitness attached to the reported best and to every hall-of-fame entry is recomputed on the full data.
"""
import itertools
import math
import warnings

import numpy as np

from bingo.evolutionary_optimizers.serial_archipelago import SerialArchipelago

from harness.bingo_util import scripted_chromosome, simple_island
from harness.common import harness_main, run_driver
from harness.keys import key_to_float, float_to_key, random_key, kstr


def set_pop(island, keys, base_id, rng):
    island.population = [scripted_chromosome(base_id + i, key_to_float(k, rng)) for i, k in enumerate(keys)]
    island.generational_age = 1


def oracle_best(rep, keys, got_key, what, case):
    finite = [k for k in keys if k != "nan"]
    if finite:
        if got_key == "nan":
            rep.violate(f"{what}: reported NaN although a member has a non-NaN fitness", "C15:nan-reported", case)
        elif got_key != min(finite):
            rep.violate(f"{what}: reported {got_key}, minimum is {min(finite)}", "C15:not-minimal", case)
    else:
        if got_key != "nan":
            rep.violate(f"{what}: all members NaN but reported {got_key}", "C15:not-member", case)


def run(ctx, rep):
    rng = ctx.rng
    rep.rule = ("scripted populations of 1..9 individuals per island with ties, NaN, +-inf in every position; archipelagos of 1..5 islands; every flag state x age x evaluation mode for the query; predictor islands (plain / delegating fitness, hall of fame attached three ways, queries around a population change); "
                "distinct = distinct key arrangements; non-trivial = at least two different keys")
    rep.assumptions = ["fitness values are Python floats compared with < (NaN comparisons false)"]
    island, _ = simple_island(0)
    lines, meta = [], []
    arrangements = []
    for _ in range(ctx.n(2500, 20000)):
        n = rng.randrange(1, 10)
        arrangements.append([random_key(rng, nan_prob=rng.choice([0.1, 0.4, 0.9])) for _ in range(n)])
    if ctx.thorough():
        base = ["nan", -10 ** 6, 0, 0, 1, 10 ** 6]
        seen = set()
        for r in range(1, 7):
            for perm in itertools.permutations(base, r):
                if perm not in seen:
                    seen.add(perm)
                    arrangements.append(list(perm))
        rep.extra["exhaustive_permutations"] = len(seen)
    for keys in arrangements:
        set_pop(island, keys, 0, rng)
        best = island.get_best_individual()
        gk = float_to_key(best.fitness)
        case = {"keys": [kstr(k) for k in keys]}
        rep.case(("island", tuple(case["keys"])), len(set(case["keys"])) > 1)
        rep.count("island_len", len(keys))
        if not any(best is p for p in island.population):
            rep.violate("Island.get_best_individual returned a non-member", "C15:not-member", case)
        oracle_best(rep, keys, gk, "island", case)
        if not (math.isnan(island.get_best_fitness()) and gk == "nan") and float_to_key(island.get_best_fitness()) != gk:
            rep.violate("get_best_fitness differs from get_best_individual().fitness", "C15:fitness-mismatch", case)
        if ctx.driver_ok:
            lines.append("iscan ; " + " ".join(f"{kstr(k)}:{i}" for i, k in enumerate(keys)))
            meta.append(("island", case, (gk, best.values[0])))
    # archipelagos
    template, _ = simple_island(2)
    for _ in range(ctx.n(800, 8000)):
        ni = rng.randrange(1, 6)
        with warnings.catch_warnings():
            warnings.simplefilter("ignore")
            arch = SerialArchipelago(template, num_islands=ni)
        allkeys = []
        nan_island = rng.random() < 0.4
        for j, isl in enumerate(arch.islands):
            n = rng.randrange(1, 6)
            p = 0.95 if (nan_island and j == 0) else rng.choice([0.1, 0.5])
            keys = [random_key(rng, nan_prob=p) for _ in range(n)]
            set_pop(isl, keys, 100 * j, rng)
            allkeys.append(keys)
        best = arch.get_best_individual()
        gk = float_to_key(best.fitness)
        flat = [k for ks in allkeys for k in ks]
        case = {"islands": [[kstr(k) for k in ks] for ks in allkeys]}
        rep.case(("arch", str(case)), len(set(map(kstr, flat))) > 1)
        rep.count("arch_islands", ni)
        rep.sample(case)
        if not any(best is p for isl in arch.islands for p in isl.population):
            rep.violate("SerialArchipelago.get_best_individual returned a non-member", "C15:not-member", case)
        oracle_best(rep, flat, gk, "archipelago", case)
        bf = arch.get_best_fitness()
        if float_to_key(bf) != gk:
            rep.violate("archipelago get_best_fitness differs from get_best_individual().fitness", "C15:fitness-mismatch", case)
        if ctx.driver_ok:
            lines.append("archbest ; " + " ; ".join(" ".join(f"{kstr(k)}:{100 * j + i}" for i, k in enumerate(ks)) for j, ks in enumerate(allkeys)))
            meta.append(("arch", case, (gk, best.values[0])))
    if ctx.driver_ok:
        outs = run_driver(lines)
        rep.corr_cases = len(lines)
        for line, o, (kind, case, (gk, gid)) in zip(lines, outs, meta):
            want = f"ok {kstr(gk)}:{gid}"
            if o != want:
                rep.disagree(f"{kind} best: model '{o}' vs code '{want}'", {"line": line, **case})
    query_correspondence(ctx, rep)
    convergence_report(ctx, rep)
    predictor_oracle(ctx, rep)


def convergence_report(ctx, rep):
    """the best fitness REPORTED by evolve_until_convergence (OptimizeResult.fitness) is the fitness of a current member that is
    minimal among the non-NaN ones - also when the best got worse since the last check (a non-elitist algorithm) or was NaN at first"""
    from bingo.chromosomes.multiple_values import MultipleValueChromosomeGenerator, SinglePointCrossover, SinglePointMutation
    from bingo.evaluation.evaluation import Evaluation
    from bingo.evolutionary_algorithms.mu_comma_lambda import MuCommaLambda
    from bingo.evolutionary_optimizers.island import Island
    from bingo.selection.tournament import Tournament
    from harness.bingo_util import GenomeFitness
    rng = ctx.rng
    for t in range(ctx.n(40, 400)):
        np.random.seed(rng.randrange(2 ** 31))
        fit = GenomeFitness(nan_mod=rng.choice([0, 5, 2]), inf_mod=0)
        value_fn = lambda: int(np.random.randint(0, 10))
        gen = MultipleValueChromosomeGenerator(value_fn, 3)
        n = rng.choice([3, 4, 6])
        ea = MuCommaLambda(Evaluation(fit), Tournament(2), SinglePointCrossover(), SinglePointMutation(value_fn), 0.4, 0.5, n)
        isl = Island(ea, gen, n)
        case = {"population_size": n, "nan_mod": fit.nan_mod, "trial": t}
        rep.case(("convergence-report", t, n, fit.nan_mod), True)
        rep.count("convergence_report_runs")
        with warnings.catch_warnings():
            warnings.simplefilter("ignore")
            try:
                isl.evaluate_population()
                for call in range(2):
                    res = isl.evolve_until_convergence(max_generations=rng.randrange(2, 7), fitness_threshold=-1.0, convergence_check_frequency=1)
                    vals = [fit.value(c.values) for c in isl.population]
                    finite = [v for v in vals if not math.isnan(v)]
                    want = min(finite) if finite else float("nan")
                    got = float(res.fitness)
                    if not (got == want or (math.isnan(got) and math.isnan(want))):
                        rep.violate(f"evolve_until_convergence (call {call + 1}) reports best fitness {got}; the population it returns with has "
                                    f"fitness values {vals} (minimum over non-NaN: {want})", "C15:reported-result", {**case, "call": call + 1})
                        break
            except Exception as exc:
                if "NoneType" in str(exc):
                    continue          # MuCommaLambda diagnostics on unevaluated parents: known finding F5 (C05)
                rep.violate(f"run raised {type(exc).__name__}: {exc}", "C15:query-raised", case)


def query_correspondence(ctx, rep):
    """`Island.get_best_individual` on populations in EVERY state of the flags (never evaluated, partly evaluated after a
    migration, replaced at a later age) against `BestQuery.islandBest`; oracle: the reported individual is a member, is marked
    evaluated and carries f(genome), which is minimal among the non-NaN values of all genomes"""
    from bingo.chromosomes.multiple_values import MultipleValueChromosome
    from bingo.evaluation.evaluation import Evaluation
    from bingo.evaluation.fitness_function import FitnessFunction
    from bingo.evolutionary_optimizers.island import Island
    rng = ctx.rng

    class ModFitness(FitnessFunction):
        def __init__(self, nanmod):
            super().__init__()
            self.nanmod = nanmod

        def value(self, g):
            if self.nanmod and g % self.nanmod == 3:
                return float("nan")
            return float((37 * g) % 23)

        def __call__(self, individual):
            self.eval_count += 1
            return self.value(int(individual.values[0]))

    def show(c):
        f = c._fitness
        fs = "-" if f is None else ("nan" if math.isnan(f) else str(int(f)))
        return f"{int(c.values[0])}:{fs}:{1 if c._fit_set else 0}"
    template, _ = simple_island(0)
    lines, meta = [], []
    for t in range(ctx.n(600, 6000)):
        nanmod = rng.choice([0, 7, 7, 5])
        redundant = rng.random() < 0.2
        age = rng.choice([0, 0, 1, 3, 12])
        fit = ModFitness(nanmod)
        island = Island(template._ea, template._generator, 0)
        island._ea = type(template._ea).__new__(type(template._ea))
        island._ea.__dict__.update(template._ea.__dict__)
        island._ea.evaluation = Evaluation(fit, redundant=redundant)
        n = rng.randrange(1, 8)
        state = rng.choice(["fresh", "all-evaluated", "mixed", "mixed", "stale-unflagged"])
        pop = []
        for _ in range(n):
            g = rng.randrange(40)
            c = MultipleValueChromosome([g])
            mode = {"fresh": "none", "all-evaluated": "ev"}.get(state) or rng.choice(["none", "ev", "stale"])
            if state == "stale-unflagged":
                mode = rng.choice(["stale", "ev"])
            if mode == "ev":
                c.fitness = fit.value(g)
            elif mode == "stale":
                c.fitness = float(rng.randrange(23))
                c.fit_set = False
            pop.append(c)
        island.population = pop
        island.generational_age = age
        before = [show(c) for c in pop]
        case = {"age": age, "redundant": redundant, "nanmod": nanmod, "population": before}
        rep.case(("query", age, redundant, nanmod, tuple(before)), n > 1)
        rep.count("query_state", state)
        rep.count("query_age", age)
        try:
            best = island.get_best_individual()
            got = show(best)
        except TypeError as exc:
            best, got = None, "raise"
            rep.violate(f"Island.get_best_individual raised {type(exc).__name__}: {exc} on a non-empty population (age {age}, members {before})",
                        "C15:query-raised", case)
        after = [show(c) for c in island.population]
        if best is not None:
            g = int(best.values[0])
            vals = [fit.value(int(c.values[0])) for c in island.population]
            finite = [v for v in vals if not math.isnan(v)]
            w = fit.value(g)
            if not any(best is c for c in island.population):
                rep.violate("Island.get_best_individual returned a non-member", "C15:not-member", case)
            elif not best.fit_set or best._fitness is None or not (best._fitness == w or (math.isnan(best._fitness) and math.isnan(w))):
                rep.violate(f"the reported best individual (genome {g}) carries fitness {best._fitness} (marked evaluated: {best.fit_set}); "
                            f"the fitness function's value for it is {w}", "C15:not-its-true-fitness", case)
            elif finite and (math.isnan(w) or w != min(finite)):
                rep.violate(f"the reported best individual has fitness {w}; the minimum over the population is {min(finite)}", "C15:not-minimal", case)
        lines.append(f"bestquery ; {age} ; {int(redundant)} ; {nanmod} ; {' '.join(before)}")
        meta.append((case, got, after))
    if ctx.driver_ok and lines:
        outs = run_driver(lines)
        rep.corr_cases = getattr(rep, "corr_cases", 0) + len(lines)
        for line, o, (case, got, after) in zip(lines, outs, meta):
            want = f"ok {got} ; {' '.join(after)}"
            if o != want:
                rep.disagree(f"best-individual query: model '{o}' vs code '{want}'", {"line": line, **case})


def predictor_oracle(ctx, rep):
    """FitnessPredictorIsland: reported best and hall-of-fame entries carry the full-data fitness"""
    from bingo.evolutionary_optimizers.fitness_predictor_island import FitnessPredictorIsland
    from bingo.stats.hall_of_fame import HallOfFame
    from bingo.symbolic_regression.agraph.component_generator import ComponentGenerator
    from bingo.symbolic_regression.agraph.crossover import AGraphCrossover
    from bingo.symbolic_regression.agraph.generator import AGraphGenerator
    from bingo.symbolic_regression.agraph.mutation import AGraphMutation
    from bingo.symbolic_regression.explicit_regression import ExplicitRegression, ExplicitTrainingData
    from bingo.evaluation.evaluation import Evaluation
    from bingo.evolutionary_algorithms.age_fitness import AgeFitnessEA
    rng = ctx.rng
    for trial in range(ctx.n(12, 40)):
        np.random.seed(rng.randrange(2 ** 31))
        # small data sets (<= 10 points) and ratio 1.0 make the predictor as long as the data: it is still a resample WITH
        # replacement, not the full data
        n = [8, 10, 30, 60][trial % 4] if trial < 8 else rng.choice([8, 10, 30, 60])
        ratio = 1.0 if trial % 5 == 4 else 0.3
        x = np.linspace(-2, 2, n).reshape(-1, 1)
        y = x ** 2 + 0.5 * x
        full = ExplicitTrainingData(x, y)
        cg = ComponentGenerator(1)
        for op in ("+", "-", "*"):
            cg.add_operator(op)
        gen = AGraphGenerator(8, cg)
        fitness = ExplicitRegression(training_data=ExplicitTrainingData(x.copy(), y.copy()))
        wrapped = trial % 4 == 3
        if wrapped:
            # what SymbolicRegressor builds: a locally optimizing wrapper whose `training_data` is the inner function's
            from bingo.local_optimizers.local_opt_fitness import LocalOptFitnessFunction
            from bingo.local_optimizers.scipy_optimizer import ScipyOptimizer
            cg = ComponentGenerator(1, constant_probability=0.4)
            for op in ("+", "*"):
                cg.add_operator(op)
            gen = AGraphGenerator(6, cg)
            fitness = LocalOptFitnessFunction(fitness, ScipyOptimizer(fitness, method="lm"))
        rep.count("predictor_fitness_function", "local-optimization wrapper" if wrapped else "plain")
        ea = AgeFitnessEA(Evaluation(fitness), gen, AGraphCrossover(), AGraphMutation(cg), 0.4, 0.4, 12)
        hof = HallOfFame(4)
        with warnings.catch_warnings():
            warnings.simplefilter("ignore")
            attach = ["constructor", "assigned later", "via SerialArchipelago"][trial % 3]
            isl = FitnessPredictorIsland(ea, gen, 12, predictor_population_size=4, predictor_update_frequency=rng.choice([2, 3]),
                                         predictor_size_ratio=ratio, predictor_computation_ratio=rng.choice([0.2, 0.8]), trainer_population_size=3,
                                         trainer_update_frequency=rng.choice([2, 4]), hall_of_fame=hof if attach == "constructor" else None)
            arch = None
            if attach == "assigned later":
                isl.hall_of_fame = hof
            elif attach == "via SerialArchipelago":
                arch = SerialArchipelago(isl, num_islands=2, hall_of_fame=hof)
            rep.count("predictor_hof_attached", attach)
            rep.count("predictor_data", f"points={n} ratio={ratio}")
            truth = ExplicitRegression(training_data=full)
            for g in range(ctx.n(5, 10)):
                (arch or isl).evolve(1)
                if arch is not None:
                    for entry in arch.hall_of_fame:
                        w = truth(entry.copy())
                        if not (entry.fitness == w or abs(entry.fitness - w) <= 1e-12 * max(1, abs(w))):
                            rep.violate(f"archipelago of predictor islands: hall-of-fame entry carries {entry.fitness}, full-data fitness is {w}",
                                        "C15:predicted-fitness-in-hof", {"trial": trial, "generation": g, "attach": attach})
                    isl = arch.islands[0]
                best = isl.get_best_individual()
                want = truth(best.copy())
                rep.case(("predictor", trial, g), True)
                rep.count("predictor_checks")
                if not (best.fitness == want or (math.isnan(best.fitness) and math.isnan(want)) or abs(best.fitness - want) <= 1e-12 * max(1, abs(want))):
                    rep.violate(f"predictor island: best individual carries fitness {best.fitness}, full-data fitness is {want}",
                                "C15:predicted-fitness-reported", {"trial": trial, "generation": g, "equation": str(best)})
                for entry in isl.hall_of_fame:
                    w = truth(entry.copy())
                    if not (entry.fitness == w or abs(entry.fitness - w) <= 1e-12 * max(1, abs(w))):
                        rep.violate(f"predictor island: hall-of-fame entry carries {entry.fitness}, full-data fitness is {w}",
                                    "C15:predicted-fitness-in-hof", {"trial": trial, "generation": g, "equation": str(entry)})

            # queries at the SAME generational age with a population change in between (regenerate_population; an archipelago built
            # from an island that was already queried): the reported best is a member of the CURRENT population(s)
            def same(a, b):
                return np.array_equal(a.command_array, b.command_array) and list(a.get_local_optimization_params()) == list(b.get_local_optimization_params())

            def member_check(best, populations, what):
                rep.count("predictor_membership_checks")
                if not any(same(best, m) for pop in populations for m in pop):
                    rep.violate(f"predictor island, {what}: the reported best individual ({best}) is not a member of the current population(s)",
                                "C15:not-a-member", {"trial": trial, "history": what})
                    return
                want = truth(best.copy())
                if not (best.fitness == want or (math.isnan(best.fitness) and math.isnan(want)) or abs(best.fitness - want) <= 1e-12 * max(1, abs(want))):
                    rep.violate(f"predictor island, {what}: best individual carries fitness {best.fitness}, full-data fitness is {want}",
                                "C15:predicted-fitness-reported", {"trial": trial, "history": what})
            isl.get_best_individual()
            isl.get_best_fitness()
            isl.regenerate_population()
            member_check(isl.get_best_individual(), [isl.population], "query, regenerate_population, query")
            arch2 = SerialArchipelago(isl, num_islands=2)
            member_check(arch2.get_best_individual(), [i.population for i in arch2.islands], "archipelago built from a queried island")


def replay(ctx, rep, rp):
    case = rp.get("case", {})
    rep.case(("replay",), True)
    rep.case(("replay2",), True)
    conv = lambda s: "nan" if s == "nan" else int(s)
    if "keys" in case:
        island, _ = simple_island(0)
        keys = [conv(k) for k in case["keys"]]
        set_pop(island, keys, 0, ctx.rng)
        best = island.get_best_individual()
        print("replay: best", best.fitness)
        oracle_best(rep, keys, float_to_key(best.fitness), "island", case)
    elif "islands" in case:
        template, _ = simple_island(2)
        arch = SerialArchipelago(template, num_islands=len(case["islands"]))
        flat = []
        for j, (isl, ks) in enumerate(zip(arch.islands, case["islands"])):
            keys = [conv(k) for k in ks]
            set_pop(isl, keys, 100 * j, ctx.rng)
            flat += keys
        best = arch.get_best_individual()
        print("replay: best", best.fitness)
        oracle_best(rep, flat, float_to_key(best.fitness), "archipelago", case)


if __name__ == "__main__":
    harness_main("C15", run, replay)
