"""C15 -- the best individual reported is a true minimum and carries its true fitness.

K: `Island.get_best_individual` and `SerialArchipelago.get_best_individual/get_best_fitness` on scripted
populations (ties, NaN, +-inf, every position) against the Lean scans.
Oracle: independent minimum over non-NaN members; NaN only if all are NaN; for FitnessPredictorIsland the
fitness attached to the reported best and to every hall-of-fame entry is recomputed on the full data.
"""
import itertools
import math
import warnings

import numpy as np

from bingo.evolutionary_optimizers.serial_archipelago import SerialArchipelago

from harness.bingo_util import scripted_chromosome, simple_island
from harness.common import harness_main, run_driver
from harness.keys import key_to_float, float_to_key, random_key, kstr


def set_pop(island, keys, base_id, rng):
    island.population = [scripted_chromosome(base_id + i, key_to_float(k, rng)) for i, k in enumerate(keys)]
    island.generational_age = 1


def oracle_best(rep, keys, got_key, what, case):
    finite = [k for k in keys if k != "nan"]
    if finite:
        if got_key == "nan":
            rep.violate(f"{what}: reported NaN although a member has a non-NaN fitness", "C15:nan-reported", case)
        elif got_key != min(finite):
            rep.violate(f"{what}: reported {got_key}, minimum is {min(finite)}", "C15:not-minimal", case)
    else:
        if got_key != "nan":
            rep.violate(f"{what}: all members NaN but reported {got_key}", "C15:not-member", case)


def run(ctx, rep):
    rng = ctx.rng
    rep.rule = ("scripted populations of 1..9 individuals per island with ties, NaN, +-inf in every position; archipelagos of 1..5 islands; "
                "distinct = distinct key arrangements; non-trivial = at least two different keys")
    rep.assumptions = ["fitness values are Python floats compared with < (NaN comparisons false)"]
    island, _ = simple_island(0)
    lines, meta = [], []
    arrangements = []
    for _ in range(ctx.n(2500, 20000)):
        n = rng.randrange(1, 10)
        arrangements.append([random_key(rng, nan_prob=rng.choice([0.1, 0.4, 0.9])) for _ in range(n)])
    if ctx.thorough():
        base = ["nan", -10 ** 6, 0, 0, 1, 10 ** 6]
        seen = set()
        for r in range(1, 7):
            for perm in itertools.permutations(base, r):
                if perm not in seen:
                    seen.add(perm)
                    arrangements.append(list(perm))
        rep.extra["exhaustive_permutations"] = len(seen)
    for keys in arrangements:
        set_pop(island, keys, 0, rng)
        best = island.get_best_individual()
        gk = float_to_key(best.fitness)
        case = {"keys": [kstr(k) for k in keys]}
        rep.case(("island", tuple(case["keys"])), len(set(case["keys"])) > 1)
        rep.count("island_len", len(keys))
        if not any(best is p for p in island.population):
            rep.violate("Island.get_best_individual returned a non-member", "C15:not-member", case)
        oracle_best(rep, keys, gk, "island", case)
        if not (math.isnan(island.get_best_fitness()) and gk == "nan") and float_to_key(island.get_best_fitness()) != gk:
            rep.violate("get_best_fitness differs from get_best_individual().fitness", "C15:fitness-mismatch", case)
        if ctx.driver_ok:
            lines.append("iscan ; " + " ".join(f"{kstr(k)}:{i}" for i, k in enumerate(keys)))
            meta.append(("island", case, (gk, best.values[0])))
    # archipelagos
    template, _ = simple_island(2)
    for _ in range(ctx.n(800, 8000)):
        ni = rng.randrange(1, 6)
        with warnings.catch_warnings():
            warnings.simplefilter("ignore")
            arch = SerialArchipelago(template, num_islands=ni)
        allkeys = []
        nan_island = rng.random() < 0.4
        for j, isl in enumerate(arch.islands):
            n = rng.randrange(1, 6)
            p = 0.95 if (nan_island and j == 0) else rng.choice([0.1, 0.5])
            keys = [random_key(rng, nan_prob=p) for _ in range(n)]
            set_pop(isl, keys, 100 * j, rng)
            allkeys.append(keys)
        best = arch.get_best_individual()
        gk = float_to_key(best.fitness)
        flat = [k for ks in allkeys for k in ks]
        case = {"islands": [[kstr(k) for k in ks] for ks in allkeys]}
        rep.case(("arch", str(case)), len(set(map(kstr, flat))) > 1)
        rep.count("arch_islands", ni)
        rep.sample(case)
        if not any(best is p for isl in arch.islands for p in isl.population):
            rep.violate("SerialArchipelago.get_best_individual returned a non-member", "C15:not-member", case)
        oracle_best(rep, flat, gk, "archipelago", case)
        bf = arch.get_best_fitness()
        if float_to_key(bf) != gk:
            rep.violate("archipelago get_best_fitness differs from get_best_individual().fitness", "C15:fitness-mismatch", case)
        if ctx.driver_ok:
            lines.append("archbest ; " + " ; ".join(" ".join(f"{kstr(k)}:{100 * j + i}" for i, k in enumerate(ks)) for j, ks in enumerate(allkeys)))
            meta.append(("arch", case, (gk, best.values[0])))
    if ctx.driver_ok:
        outs = run_driver(lines)
        rep.corr_cases = len(lines)
        for line, o, (kind, case, (gk, gid)) in zip(lines, outs, meta):
            want = f"ok {kstr(gk)}:{gid}"
            if o != want:
                rep.disagree(f"{kind} best: model '{o}' vs code '{want}'", {"line": line, **case})
    predictor_oracle(ctx, rep)


def predictor_oracle(ctx, rep):
    """FitnessPredictorIsland: reported best and hall-of-fame entries carry the full-data fitness"""
    from bingo.evolutionary_optimizers.fitness_predictor_island import FitnessPredictorIsland
    from bingo.stats.hall_of_fame import HallOfFame
    from bingo.symbolic_regression.agraph.component_generator import ComponentGenerator
    from bingo.symbolic_regression.agraph.crossover import AGraphCrossover
    from bingo.symbolic_regression.agraph.generator import AGraphGenerator
    from bingo.symbolic_regression.agraph.mutation import AGraphMutation
    from bingo.symbolic_regression.explicit_regression import ExplicitRegression, ExplicitTrainingData
    from bingo.evaluation.evaluation import Evaluation
    from bingo.evolutionary_algorithms.age_fitness import AgeFitnessEA
    rng = ctx.rng
    for trial in range(ctx.n(12, 40)):
        np.random.seed(rng.randrange(2 ** 31))
        # small data sets (<= 10 points) and ratio 1.0 make the predictor as long as the data: it is still a resample WITH
        # replacement, not the full data
        n = [8, 10, 30, 60][trial % 4] if trial < 8 else rng.choice([8, 10, 30, 60])
        ratio = 1.0 if trial % 5 == 4 else 0.3
        x = np.linspace(-2, 2, n).reshape(-1, 1)
        y = x ** 2 + 0.5 * x
        full = ExplicitTrainingData(x, y)
        cg = ComponentGenerator(1)
        for op in ("+", "-", "*"):
            cg.add_operator(op)
        gen = AGraphGenerator(8, cg)
        fitness = ExplicitRegression(training_data=ExplicitTrainingData(x.copy(), y.copy()))
        ea = AgeFitnessEA(Evaluation(fitness), gen, AGraphCrossover(), AGraphMutation(cg), 0.4, 0.4, 12)
        hof = HallOfFame(4)
        with warnings.catch_warnings():
            warnings.simplefilter("ignore")
            attach = ["constructor", "assigned later", "via SerialArchipelago"][trial % 3]
            isl = FitnessPredictorIsland(ea, gen, 12, predictor_population_size=4, predictor_update_frequency=rng.choice([2, 3]),
                                         predictor_size_ratio=ratio, predictor_computation_ratio=rng.choice([0.2, 0.8]), trainer_population_size=3,
                                         trainer_update_frequency=rng.choice([2, 4]), hall_of_fame=hof if attach == "constructor" else None)
            arch = None
            if attach == "assigned later":
                isl.hall_of_fame = hof
            elif attach == "via SerialArchipelago":
                arch = SerialArchipelago(isl, num_islands=2, hall_of_fame=hof)
            rep.count("predictor_hof_attached", attach)
            rep.count("predictor_data", f"points={n} ratio={ratio}")
            truth = ExplicitRegression(training_data=full)
            for g in range(ctx.n(5, 10)):
                (arch or isl).evolve(1)
                if arch is not None:
                    for entry in arch.hall_of_fame:
                        w = truth(entry.copy())
                        if not (entry.fitness == w or abs(entry.fitness - w) <= 1e-12 * max(1, abs(w))):
                            rep.violate(f"archipelago of predictor islands: hall-of-fame entry carries {entry.fitness}, full-data fitness is {w}",
                                        "C15:predicted-fitness-in-hof", {"trial": trial, "generation": g, "attach": attach})
                    isl = arch.islands[0]
                best = isl.get_best_individual()
                want = truth(best.copy())
                rep.case(("predictor", trial, g), True)
                rep.count("predictor_checks")
                if not (best.fitness == want or (math.isnan(best.fitness) and math.isnan(want)) or abs(best.fitness - want) <= 1e-12 * max(1, abs(want))):
                    rep.violate(f"predictor island: best individual carries fitness {best.fitness}, full-data fitness is {want}",
                                "C15:predicted-fitness-reported", {"trial": trial, "generation": g, "equation": str(best)})
                for entry in isl.hall_of_fame:
                    w = truth(entry.copy())
                    if not (entry.fitness == w or abs(entry.fitness - w) <= 1e-12 * max(1, abs(w))):
                        rep.violate(f"predictor island: hall-of-fame entry carries {entry.fitness}, full-data fitness is {w}",
                                    "C15:predicted-fitness-in-hof", {"trial": trial, "generation": g, "equation": str(entry)})


def replay(ctx, rep, rp):
    case = rp.get("case", {})
    rep.case(("replay",), True)
    rep.case(("replay2",), True)
    conv = lambda s: "nan" if s == "nan" else int(s)
    if "keys" in case:
        island, _ = simple_island(0)
        keys = [conv(k) for k in case["keys"]]
        set_pop(island, keys, 0, ctx.rng)
        best = island.get_best_individual()
        print("replay: best", best.fitness)
        oracle_best(rep, keys, float_to_key(best.fitness), "island", case)
    elif "islands" in case:
        template, _ = simple_island(2)
        arch = SerialArchipelago(template, num_islands=len(case["islands"]))
        flat = []
        for j, (isl, ks) in enumerate(zip(arch.islands, case["islands"])):
            keys = [conv(k) for k in ks]
            set_pop(isl, keys, 100 * j, ctx.rng)
            flat += keys
        best = arch.get_best_individual()
        print("replay: best", best.fitness)
        oracle_best(rep, flat, float_to_key(best.fitness), "archipelago", case)


if __name__ == "__main__":
    harness_main("C15", run, replay)
