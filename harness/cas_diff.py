"""Differential tester: bingo's Python CAS simplifier  vs  the Lean model (bvdriver ops `simplify`, `simplifyr`).

usage:  PYTHONPATH=/repo:/tmp/pa_cas /venv/bin/python /tmp/pa_cas/harness/cas_diff.py <n_cases> <seed> [--jobs N] [--malformed P]
exit code 0 iff zero mismatches.
"""
import os
import random
import resource
import signal
import subprocess
import sys
import time
import warnings
from collections import Counter
from multiprocessing import Pool

import numpy as np

HERE = os.path.dirname(os.path.abspath(__file__))
sys.path.insert(0, os.path.dirname(HERE))
from harness import gen_stacks as G  # noqa: E402

DRIVER = os.path.join(os.path.dirname(HERE), "lean", ".lake", "build", "bin", "bvdriver")
WATCHDOG = 5
INTEGER, VARIABLE, CONSTANT = -1, 0, 1
ADD, SUB, MUL, DIV, SIN, COS, EXP, LOG, POW, ABS, SQRT, SPOW, SINH, COSH = range(2, 16)

warnings.filterwarnings("ignore")


# ----------------------------------------------------------------------------- python side

class _Timeout(BaseException):
    pass


def _alarm(signum, frame):
    raise _Timeout()


def run_python(stack):
    """('ok', rows) | ('exc', ClassName) | ('timeout', None)"""
    from bingo.symbolic_regression.agraph.simplification_backend import simplification_backend as sb
    arr = np.array(stack, dtype=int).reshape(-1, 3)
    old = signal.signal(signal.SIGALRM, _alarm)
    signal.alarm(WATCHDOG)
    try:
        out = sb.simplify_stack(arr)
        signal.alarm(0)
        return ("ok", [[int(v) for v in row] for row in out])
    except _Timeout:
        return ("timeout", None)
    except BaseException as e:  # noqa: BLE001  (RecursionError, MemoryError, ...)
        signal.alarm(0)
        if isinstance(e, KeyboardInterrupt):
            raise
        return ("exc", type(e).__name__)
    finally:
        signal.alarm(0)
        signal.signal(signal.SIGALRM, old)


def python_overflow_warning(stack):
    """does numpy report an int64 overflow (scalar add / multiply) during simplify_stack?
    (numpy does NOT report overflow of integer `**`, so this is a lower bound of the model's `ovf`)"""
    from bingo.symbolic_regression.agraph.simplification_backend import simplification_backend as sb
    arr = np.array(stack, dtype=int).reshape(-1, 3)
    old = signal.signal(signal.SIGALRM, _alarm)
    signal.alarm(WATCHDOG)
    try:
        with np.errstate(over="raise"):
            sb.simplify_stack(arr)
        return False
    except FloatingPointError:
        return True
    except BaseException as e:  # noqa: BLE001
        if isinstance(e, KeyboardInterrupt):
            raise
        return False
    finally:
        signal.alarm(0)
        signal.signal(signal.SIGALRM, old)


def _py_worker(stacks):
    warnings.filterwarnings("ignore")
    try:
        resource.setrlimit(resource.RLIMIT_AS, (8 << 30, 8 << 30))   # MemoryError instead of swapping
    except Exception:
        pass
    out = []
    for s in stacks:
        r = run_python(s)
        w = python_overflow_warning(s) if r[0] != "timeout" else False
        out.append(r + (w,))
    return out


# ----------------------------------------------------------------------------- lean side

def _big_stack():
    try:
        resource.setrlimit(resource.RLIMIT_STACK, (1 << 30, 1 << 30))
    except Exception:
        pass


def stack_str(stack):
    return " ".join(str(int(v)) for row in stack for v in row)


def _driver(lines, timeout):
    data = ("\n".join(lines) + "\n").encode()
    p = subprocess.run([DRIVER], input=data, stdout=subprocess.PIPE, stderr=subprocess.PIPE, timeout=timeout,
                       preexec_fn=_big_stack)
    out = p.stdout.decode().split("\n")
    if out and out[-1] == "":
        out.pop()
    if p.returncode != 0 or len(out) != len(lines):
        raise RuntimeError(f"driver rc={p.returncode} in={len(lines)} out={len(out)} {p.stderr.decode()[:200]}")
    return out


def run_lean(stacks, per_case_timeout=20):
    """for each stack: (raw_line, renumbered_line); a crashing / hanging case yields ('crash', 'crash')"""
    res = [None] * len(stacks)

    def go(idx):
        if not idx:
            return
        lines = []
        for i in idx:
            s = stack_str(stacks[i])
            lines += ["simplify ; " + s, "simplifyr ; " + s]
        try:
            out = _driver(lines, timeout=per_case_timeout + 0.01 * len(idx))
            for k, i in enumerate(idx):
                res[i] = (out[2 * k], out[2 * k + 1])
        except (RuntimeError, subprocess.TimeoutExpired):
            if len(idx) == 1:
                res[idx[0]] = ("crash", "crash")
            else:
                h = len(idx) // 2
                go(idx[:h])
                go(idx[h:])

    CH = 2000
    order = list(range(len(stacks)))
    for a in range(0, len(order), CH):
        go(order[a:a + CH])
    return res


# ----------------------------------------------------------------------------- comparison

# python exception class -> lean error reasons accepted as "the same"
EXC_MAP = {
    "IndexError": {"IndexError"},
    "KeyError": {"KeyError"},
    "OverflowError": {"OverflowError"},
    "MemoryError": {"MemoryError", "OverflowError"},
    "ValueError": {"ValueError"},
}


def parse_lean(line):
    """-> ('ok', rows, ovf) | ('err', reason, ovf) | ('crash', None, None)"""
    if line == "crash":
        return ("crash", None, None)
    ovf = None
    if " ; ovf=" in line:
        line, o = line.split(" ; ovf=")
        ovf = o.strip() == "1"
    if line.startswith("ok"):
        v = [int(t) for t in line[2:].split()]
        return ("ok", [v[i:i + 3] for i in range(0, len(v), 3)], ovf)
    if line.startswith("err"):
        return ("err", line[3:].strip(), ovf)
    return ("crash", line, None)


def classify(py, lean):
    """-> (verdict, detail);  verdict in identical / same-exception / recursion-limit / MISMATCH"""
    raw = parse_lean(lean[0])
    ren = parse_lean(lean[1])
    if py[2] and ren[2] is not True:
        return "MISMATCH", {"numpy_reported_overflow": True, "lean_renumbered": lean[1]}
    if py[0] == "ok":
        want_raw = py[1]
        want_ren = G.renumber(py[1])[0]
        if raw[0] == "ok" and ren[0] == "ok" and raw[1] == want_raw and ren[1] == want_ren:
            return "identical", None
        return "MISMATCH", {"python": want_raw, "lean_raw": lean[0], "lean_renumbered": lean[1]}
    if py[0] == "exc":
        cls = py[1]
        if cls == "RecursionError":
            # Python's interpreter frame limit (1000) is not modelled: cyclic stacks give `err fuel`,
            # deep-but-finite expressions may succeed in Lean
            return "recursion-limit", None
        if raw[0] == "err" and ren[0] == "err" and raw[1] in EXC_MAP.get(cls, {cls}) and ren[1] == raw[1]:
            return "same-exception", None
        return "MISMATCH", {"python_exception": cls, "lean_raw": lean[0], "lean_renumbered": lean[1]}
    return "skipped", None


# ----------------------------------------------------------------------------- generation

def rint(rng):
    return rng.randint(-3, 10)


def with_int_range(rng, st):
    """integer rows drawn from [-3, 10] (random_stack itself uses a fixed palette)"""
    for row in st:
        if row[0] == INTEGER and rng.random() < 0.7:
            v = rint(rng)
            row[1] = row[2] = v
    return st


class B:
    """tiny stack builder"""

    def __init__(self):
        self.s = []

    def add(self, node, a=0, b=None):
        self.s.append([node, a, a if b is None else b])
        return len(self.s) - 1

    def x(self, i=0):
        return self.add(VARIABLE, i)

    def c(self):
        return self.add(CONSTANT, -1, -1)

    def i(self, v):
        return self.add(INTEGER, v)


def targeted(rng):
    """one targeted shape, randomly parameterised"""
    b = B()
    kind = rng.randrange(25)
    x = b.x(0)
    y = b.x(1) if rng.random() < 0.5 else b.c()
    c = b.c()
    un = [SIN, COS, EXP, LOG, ABS, SQRT, SINH, COSH]

    def atom():
        r = rng.random()
        if r < 0.3:
            return x
        if r < 0.5:
            return y
        if r < 0.65:
            return c
        if r < 0.8:
            return b.i(rint(rng))
        if r < 0.9:
            return b.c()
        return b.add(rng.choice(un), rng.choice([x, y, c]))

    if kind == 0:      # like-term collection across nesting
        t = [b.add(MUL, b.i(rint(rng)), x), b.add(MUL, atom(), x), x, b.add(MUL, x, y)]
        acc = t[0]
        for _ in range(rng.randint(2, 8)):
            nxt = rng.choice(t + [atom()])
            acc = b.add(rng.choice([ADD, ADD, SUB]), *rng.sample([acc, nxt], 2))
    elif kind == 1:    # x/x, x-x and friends
        e = atom()
        f = b.add(rng.choice([ADD, MUL]), e, atom())
        g = b.add(rng.choice([DIV, SUB]), f, f)
        b.add(rng.choice([ADD, MUL, DIV, SUB, POW]), g, atom())
    elif kind == 2:    # (x^a)^b
        e = b.add(POW, atom(), atom())
        for _ in range(rng.randint(1, 4)):
            e = b.add(rng.choice([POW, POW, SPOW]), e, atom())
    elif kind == 3:    # products of powers of one base
        base = atom()
        acc = b.add(POW, base, atom())
        for _ in range(rng.randint(1, 6)):
            p = b.add(POW, base, atom()) if rng.random() < 0.7 else base
            acc = b.add(rng.choice([MUL, MUL, DIV]), *rng.sample([acc, p], 2))
    elif kind == 4:    # sums needing reordering
        ts = [b.add(rng.choice(un), atom()) for _ in range(rng.randint(2, 6))] + [atom() for _ in range(3)]
        rng.shuffle(ts)
        acc = ts[0]
        for t in ts[1:]:
            acc = b.add(ADD, *rng.sample([acc, t], 2))
    elif kind == 5:    # integer-only sub-expressions
        acc = b.i(rint(rng))
        for _ in range(rng.randint(1, 8)):
            acc = b.add(rng.choice([ADD, SUB, MUL, DIV, POW, SPOW]), *rng.sample([acc, b.i(rint(rng))], 2))
        b.add(rng.choice([ADD, MUL, POW, DIV]), *rng.sample([acc, x], 2))
    elif kind == 6:    # constants folding at one / several / no insertion points
        cs = [b.c() for _ in range(rng.randint(1, 5))]
        acc = x
        for _ in range(rng.randint(2, 9)):
            k = rng.choice(cs)
            if rng.random() < 0.3:
                k = b.add(rng.choice(un + [ADD, MUL, POW]), k, rng.choice(cs + [b.i(rint(rng))]))
            other = rng.choice([acc, x, y])
            acc = b.add(rng.choice([ADD, MUL, SUB, DIV, POW]), *rng.sample([rng.choice([acc, other]), k], 2))
            if rng.random() < 0.3:
                acc = b.add(rng.choice(un), acc)
    elif kind == 7:    # nested SAFE_POWER / ABS / SQRT
        e = atom()
        for _ in range(rng.randint(2, 7)):
            op = rng.choice([SPOW, ABS, SQRT, SPOW, POW])
            e = b.add(op, *rng.sample([e, atom()], 2)) if op in (SPOW, POW) else b.add(op, e)
    elif kind == 8:    # x+x, (x+x)/x
        e = atom()
        d = b.add(ADD, e, e)
        for _ in range(rng.randint(0, 3)):
            d = b.add(ADD, d, rng.choice([e, d]))
        b.add(rng.choice([DIV, MUL, SUB]), *rng.sample([d, e], 2))
    elif kind == 9:    # deep unary / binary chains
        e = atom()
        for _ in range(rng.randint(8, 40)):
            op = rng.choice(G.ALL_OPS)
            e = b.add(op, *rng.sample([e, atom()], 2)) if op in G.ARITY2 else b.add(op, e)
    elif kind == 10:   # doubling chains (maximal sharing) of bounded depth
        op = rng.choice([ADD, MUL, SUB, DIV, POW, SPOW])
        e = atom()
        for _ in range(rng.randint(1, 9)):
            e = b.add(op, e, e)
        b.add(rng.choice(G.ALL_OPS), e, atom())
    elif kind == 11:   # distribution of powers over products
        p = b.add(MUL, atom(), atom())
        p = b.add(MUL, p, atom())
        e = b.add(POW, p, rng.choice([b.i(rint(rng)), c, b.c()]))
        b.add(rng.choice([MUL, DIV, POW]), *rng.sample([e, atom()], 2))
    elif kind == 12:   # differences of sums
        s1 = b.add(ADD, atom(), atom())
        s1 = b.add(ADD, s1, atom())
        s2 = b.add(ADD, atom(), atom())
        s2 = b.add(rng.choice([ADD, SUB]), s2, atom())
        e = b.add(SUB, s1, s2)
        b.add(rng.choice([SUB, ADD, MUL]), *rng.sample([e, atom()], 2))
    elif kind == 13:   # int64 overflow: powers / products of large integers
        big = b.i(rng.choice([10, 7, 3, -3, 2, -2, 2 ** 31, 2 ** 62, -2 ** 63, 2 ** 63 - 1, 10 ** 9, 3037000500]))
        e = big
        for _ in range(rng.randint(1, 5)):
            e = b.add(rng.choice([POW, MUL, ADD, SUB]), e, rng.choice([big, e, b.i(rint(rng))]))
        b.add(rng.choice([MUL, ADD, POW, DIV]), *rng.sample([e, atom()], 2))
    elif kind == 14:   # python-int integers made by the simplifier (x/x, x-x, cos 0) then arithmetic
        one = b.add(DIV, x, x)
        two = b.add(ADD, one, one)
        e = two
        for _ in range(rng.randint(1, 7)):
            e = b.add(rng.choice([MUL, ADD, POW, SUB]), e, rng.choice([e, two, one, b.i(rint(rng))]))
        b.add(rng.choice([MUL, ADD, POW, DIV]), *rng.sample([e, atom()], 2))
    elif kind == 15:   # log/exp, trig at 0 / 1
        z = b.add(SUB, x, x) if rng.random() < 0.5 else b.i(rng.choice([0, 1]))
        e = b.add(rng.choice(un), z)
        e = b.add(LOG, b.add(EXP, atom()))
        b.add(rng.choice(G.ALL_OPS), e, atom())
    elif kind == 16:   # several constants multiplied / added with one variable
        terms = [b.c() for _ in range(rng.randint(2, 6))] + [x, y]
        rng.shuffle(terms)
        op = rng.choice([ADD, MUL])
        acc = terms[0]
        for t in terms[1:]:
            acc = b.add(op if rng.random() < 0.8 else rng.choice([ADD, MUL, SUB, DIV]), *rng.sample([acc, t], 2))
    elif kind == 17:   # negative coefficients (insert_subtraction paths)
        ts = []
        for _ in range(rng.randint(2, 6)):
            t = atom()
            if rng.random() < 0.6:
                t = b.add(MUL, b.i(rng.choice([-1, -1, -2, 1])), t)
            ts.append(t)
        acc = ts[0]
        for t in ts[1:]:
            acc = b.add(rng.choice([ADD, SUB]), acc, t)
    elif kind == 18:   # integer powers (replace_integer_powers), incl. nested
        e = b.add(POW, atom(), b.i(rng.randint(-3, 10)))
        e = b.add(rng.choice([MUL, ADD, POW]), e, rng.choice([e, atom(), b.i(rint(rng))]))
        b.add(rng.choice(G.ALL_OPS), e, atom())
    elif kind == 19:   # constant to constant powers / quotients
        c2 = b.c()
        e = b.add(rng.choice([POW, DIV, SPOW]), *rng.sample([c, c2], 2))
        e = b.add(rng.choice([MUL, ADD, POW, DIV]), *rng.sample([e, atom()], 2))
        b.add(rng.choice([MUL, ADD, POW, DIV, SUB]), *rng.sample([e, atom()], 2))
    elif kind == 20:   # same constant at several places
        e1 = b.add(rng.choice([MUL, ADD]), c, x)
        e2 = b.add(rng.choice(un), c)
        e3 = b.add(rng.choice([MUL, ADD, SUB, DIV]), e2, y)
        e = b.add(rng.choice([MUL, ADD, SUB, DIV]), e1, e3)
        b.add(rng.choice([MUL, ADD, SUB, DIV, POW]), *rng.sample([e, atom()], 2))
    elif kind == 21:   # product of sums / sums of products
        s1 = b.add(ADD, atom(), atom())
        s2 = b.add(ADD, atom(), atom())
        p = b.add(MUL, s1, s2)
        q = b.add(MUL, s2, s1)
        b.add(rng.choice([ADD, SUB, DIV, MUL]), p, q)
    elif kind == 22:   # random tree over few atoms with many repeated sub-expressions
        pool = [x, y, c]
        for _ in range(rng.randint(3, 25)):
            op = rng.choice([ADD, SUB, MUL, DIV, POW])
            pool.append(b.add(op, rng.choice(pool[-4:]), rng.choice(pool)))
    elif kind == 23:   # s_k = s_{k-1} (+|*) f(s_{k-1}): k+1 operands but an expression TREE of size 2^k
        op = rng.choice([ADD, MUL])
        e = atom()
        for _ in range(rng.randint(2, 11)):
            e = b.add(op, *rng.sample([e, b.add(rng.choice(un), e)], 2))
    else:              # tiny exhaustive-ish
        a1, a2 = atom(), atom()
        e = b.add(rng.choice(G.ALL_OPS), a1, a2)
        b.add(rng.choice(G.ALL_OPS), *rng.sample([e, rng.choice([a1, a2, e])], 2))
    return b.s


def random_tree(rng, n_rows, ops, n_vars, n_consts, int_prob, fresh_const_prob):
    """a stack whose rows are ALL utilised: terminal pool first, then a random expression tree over it"""
    b = B()
    pool = [b.x(i) for i in range(n_vars)] + [b.c() for _ in range(n_consts)]
    budget = max(1, (n_rows - len(pool)) // 2)   # leaves may add rows: keeps the stack within n_rows

    def leaf():
        r = rng.random()
        if r < int_prob:
            return b.i(rint(rng))
        if r < int_prob + fresh_const_prob:
            return b.c()
        return rng.choice(pool)

    def build(k):
        # k operator rows available for this sub-tree
        if k <= 0:
            return leaf()
        op = rng.choice(ops)
        if op in G.ARITY2:
            left = rng.randint(0, k - 1)
            a1 = build(left)
            a2 = build(k - 1 - left)
            if rng.random() < 0.5:
                a1, a2 = a2, a1
            return b.add(op, a1, a2)
        return b.add(op, build(k - 1))

    build(budget)
    return b.s


def malformed(rng, st):
    """break a well-formed stack: unknown operator, out-of-range / forward / negative parameter"""
    st = [list(r) for r in st]
    n = len(st)
    i = rng.randrange(n)
    k = rng.randrange(5)
    if k == 0:
        st[i][0] = rng.choice([16, 17, -2, 99])
    elif k == 1:
        st[i][rng.choice([1, 2])] = rng.choice([n, n + 3, -n - 1, 1000])
    elif k == 2:
        st[i][rng.choice([1, 2])] = rng.randrange(n)          # possibly forward / self reference
    elif k == 3:
        st[i][rng.choice([1, 2])] = -rng.randint(1, n)        # negative index (wraps)
    else:
        st[-1] = [rng.choice(G.ALL_OPS), rng.randrange(n), rng.randrange(n)]
    return st


def gen_cases(n, seed, malformed_prob=0.03):
    rng = random.Random(seed)
    cases = [[list(r) for r in s] for s in G.hand_shapes(2)]
    while len(cases) < n:
        r = rng.random()
        if r < 0.30:
            ops = rng.choice(G.OP_SUBSETS)
            st = random_tree(rng, rng.randint(1, 64) if rng.random() < 0.5 else rng.randint(1, 24), ops,
                             rng.choice([1, 1, 2, 3]), rng.choice([0, 1, 2, 3, 5]),
                             rng.choice([0.0, 0.1, 0.3, 0.6]), rng.choice([0.0, 0.1, 0.3]))
        elif r < 0.62:
            ops = rng.choice(G.OP_SUBSETS)
            size = rng.randint(1, 64) if rng.random() < 0.6 else rng.randint(1, 16)
            st = G.random_stack(rng, size, rng.choice([1, 1, 2, 3]), ops,
                                term_prob=rng.choice([0.1, 0.2, 0.35, 0.5]),
                                const_prob=rng.choice([0.1, 0.4, 0.7]),
                                int_prob=rng.choice([0.0, 0.15, 0.4]),
                                n_load=rng.choice([1, 1, 2, 3]),
                                share_bias=rng.choice([0.0, 0.0, 0.3, 0.7]))
            st = with_int_range(rng, st)
        else:
            st = targeted(rng)
        if rng.random() < malformed_prob:
            st = malformed(rng, st)
        cases.append(st)
    return cases[:n]


# ----------------------------------------------------------------------------- shrinking

def still_mismatch(st):
    if not st:
        return False
    py = run_python(st)
    if py[0] == "timeout":
        return False
    py = py + (python_overflow_warning(st),)
    lean = run_lean([st])[0]
    return classify(py, lean)[0] == "MISMATCH"


def shrink(st):
    """delete rows (re-pointing parameters), then replace rows by simple terminals"""
    st = [list(r) for r in st]
    progress = True
    steps = 0
    while progress and steps < 400:
        progress = False
        for i in range(len(st) - 1, -1, -1):
            if len(st) <= 1:
                break
            cand = []
            for j, (node, a, b) in enumerate(st):
                if j == i:
                    continue
                if node >= 2:
                    a2 = a - 1 if a > i else (max(i - 1, 0) if a == i else a)
                    b2 = b - 1 if b > i else (max(i - 1, 0) if b == i else b)
                    cand.append([node, a2, b2])
                else:
                    cand.append([node, a, b])
            steps += 1
            if still_mismatch(cand):
                st = cand
                progress = True
                break
        if progress:
            continue
        for i in range(len(st)):
            for rep in ([VARIABLE, 0, 0], [INTEGER, 1, 1], [CONSTANT, -1, -1]):
                if st[i][0] >= 2 or (st[i][0] != rep[0] and rep[0] == VARIABLE):
                    cand = [list(r) for r in st]
                    cand[i] = list(rep)
                    steps += 1
                    if cand != st and still_mismatch(cand):
                        st = cand
                        progress = True
                        break
            if progress:
                break
    return st


# ----------------------------------------------------------------------------- main

def main():
    args = [a for a in sys.argv[1:] if not a.startswith("--")]
    n, seed = int(args[0]), int(args[1])
    jobs = 12
    mal = 0.03
    for k, a in enumerate(sys.argv):
        if a == "--jobs":
            jobs = int(sys.argv[k + 1])
        if a == "--malformed":
            mal = float(sys.argv[k + 1])
    args = args[:2]
    t0 = time.time()
    cases = gen_cases(n, seed, mal)
    chunk = 50
    chunks = [cases[i:i + chunk] for i in range(0, len(cases), chunk)]
    with Pool(jobs) as pool:
        py = [r for part in pool.map(_py_worker, chunks, chunksize=1) for r in part]
    t1 = time.time()
    send = [i for i, r in enumerate(py) if r[0] != "timeout"]
    lean = run_lean([cases[i] for i in send])
    t2 = time.time()

    verdicts = Counter()
    exc = Counter()
    lean_err = Counter()
    sizes = Counter()
    out_sizes = Counter()
    ops_seen = Counter()
    ovf = 0
    ovf_pow_only = 0
    mism = []
    rec_lean = Counter()
    used_sizes = Counter()
    for st in cases:
        sizes[(len(st) - 1) // 8] += 1
        try:
            used_sizes[(sum(G.utilized(st)) - 1) // 8] += 1
        except Exception:
            used_sizes[-1] += 1
    for k, i in enumerate(send):
        v, detail = classify(py[i], lean[k])
        verdicts[v] += 1
        ren = parse_lean(lean[k][1])
        if ren[2]:
            ovf += 1
            if not py[i][2]:
                ovf_pow_only += 1
        if ren[0] == "err":
            lean_err[ren[1]] += 1
        if ren[0] == "crash":
            lean_err["crash/timeout"] += 1
        if py[i][0] == "exc":
            exc[py[i][1]] += 1
            if py[i][1] == "RecursionError":
                rec_lean[ren[0] + ("" if ren[0] != "err" else ":" + ren[1])] += 1
        if py[i][0] == "ok":
            out_sizes[min(len(py[i][1]) // 8, 12)] += 1
        if v == "MISMATCH":
            mism.append((i, detail))
    n_timeout = len(cases) - len(send)

    print(f"cases={len(cases)} seed={seed} python_time={t1 - t0:.1f}s lean_time={t2 - t1:.1f}s")
    print(f"identical={verdicts['identical']} same_exception={verdicts['same-exception']} "
          f"recursion_limit_only={verdicts['recursion-limit']} python_timeouts_skipped={n_timeout} "
          f"MISMATCHES={verdicts['MISMATCH']}")
    print(f"python_exception_cases={sum(exc.values())} {dict(exc)}")
    print(f"lean_error_cases={sum(lean_err.values())} {dict(lean_err)}")
    print(f"lean_on_python_RecursionError={dict(rec_lean)}")
    print(f"overflow_flagged_cases={ovf} (numpy warned too: {ovf - ovf_pow_only}; integer-power wrap only, which numpy "
          f"does not report: {ovf_pow_only}); every numpy-reported overflow must be flagged by the model")
    print("input_size_histogram  " + " ".join(f"{8 * k + 1}-{8 * k + 8}:{sizes[k]}" for k in sorted(sizes)))
    print("utilised_rows_histogram " + " ".join(("malformed" if k < 0 else f"{8 * k + 1}-{8 * k + 8}") + f":{used_sizes[k]}" for k in sorted(used_sizes)))
    print("output_size_histogram " + " ".join(f"{8 * k}-{8 * k + 7}{'+' if k == 12 else ''}:{out_sizes[k]}" for k in sorted(out_sizes)))
    if mism:
        mism.sort(key=lambda m: len(cases[m[0]]))
        print(f"--- {len(mism)} mismatches; shrinking the {min(3, len(mism))} smallest")
        for i, detail in mism[:3]:
            small = shrink(cases[i])
            pyr = run_python(small) + (python_overflow_warning(small),)
            lr = run_lean([small])[0]
            print("original:", cases[i])
            print("shrunk  :", small, "  ", G.describe(small))
            print("  python:", pyr)
            print("  lean  :", lr)
        for i, detail in mism[3:10]:
            print("also:", cases[i], detail)
    sys.exit(1 if mism else 0)


if __name__ == "__main__":
    main()
