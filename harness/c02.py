"""C02 -- gradients are the true partial derivatives of the evaluated function.

K: `evaluate_with_derivative` against the Lean model: exception class, value kind, pattern of exact zeros
(`EvalPy.evalWithDeriv`), and every non-accumulating iteration of `_reverse_eval` replayed by the model from
the implementation's own state (trace validation through a wrapper around `reverse_eval_function`), plus the
column accumulation recomputed from the final adjoints.
Oracle (independent of the Lean model and of reverse mode): forward-mode AD in 80-digit mpmath with textbook
partials, at points where every utilized row is smooth; exact zeros for unused inputs/constants; value
returned with the gradient == plain evaluation; AGraph-level entry points and their exception path.
"""
import math
import warnings

import mpmath
import numpy as np

from bingo.symbolic_regression.agraph.agraph import AGraph
from bingo.symbolic_regression.agraph.evaluation_backend import evaluation_backend as eb

from harness import gen_stacks as G
from harness.c01 import kconst_str, row_val, kind_of, mk_consts, K_ULPS
from harness.common import harness_main, run_driver, stack_str, floats_str, f2b, b2f, same_float

mpmath.mp.dps = 60


# ---------------------------------------------------------------- oracle: forward-mode AD in mpmath

class NotSmooth(Exception):
    pass


def mp_forward_ad(stack, x, c, wrt, j):
    """(value, d value / d leaf_j, T_abs) with textbook partials; raises NotSmooth when a utilized row is not
    comfortably inside its domain of differentiability or magnitudes explode"""
    mp = mpmath
    n = len(stack)
    used = G.utilized(stack)
    val = [None] * n
    tan = [None] * n
    tabs = [None] * n
    for i, (node, p1, p2) in enumerate(stack):
        if not used[i]:
            continue
        if node == G.INTEGER:
            v, t = mp.mpf(int(p1)), mp.mpf(0)
            ta = mp.mpf(0)
        elif node == G.VARIABLE:
            v = mp.mpf(float(x[p1]))
            t = mp.mpf(1 if (wrt == "x" and p1 == j) else 0)
            ta = abs(t)
        elif node == G.CONSTANT:
            v = mp.mpf(float(c[p1]))
            t = mp.mpf(1 if (wrt == "c" and p1 == j) else 0)
            ta = abs(t)
        else:
            a, da, aa = val[p1], tan[p1], tabs[p1]
            b, db, ab = (val[p2], tan[p2], tabs[p2]) if node in G.ARITY2 else (mp.mpf(0), mp.mpf(0), mp.mpf(0))
            eps = mp.mpf("1e-3")
            if node == G.ADD:
                v, ga, gb = a + b, mp.mpf(1), mp.mpf(1)
            elif node == G.SUB:
                v, ga, gb = a - b, mp.mpf(1), mp.mpf(-1)
            elif node == G.MUL:
                v, ga, gb = a * b, b, a
            elif node == G.DIV:
                if abs(b) < eps:
                    raise NotSmooth()
                v, ga, gb = a / b, 1 / b, -a / (b * b)
            elif node == G.SIN:
                v, ga, gb = mp.sin(a), mp.cos(a), 0
            elif node == G.COS:
                v, ga, gb = mp.cos(a), -mp.sin(a), 0
            elif node == G.EXP:
                if a > 30:
                    raise NotSmooth()
                v = mp.exp(a)
                ga, gb = v, 0
            elif node == G.LOG:
                if abs(a) < eps:
                    raise NotSmooth()
                v, ga, gb = mp.log(abs(a)), 1 / a, 0
            elif node == G.POW:
                if a < eps:
                    raise NotSmooth()
                if abs(b * mp.log(a)) > 30:
                    raise NotSmooth()
                v = mp.power(a, b)
                ga, gb = b * mp.power(a, b - 1), v * mp.log(a)
            elif node == G.SPOW:
                if abs(a) < eps:
                    raise NotSmooth()
                if abs(b * mp.log(abs(a))) > 30:
                    raise NotSmooth()
                v = mp.power(abs(a), b)
                ga, gb = b * mp.power(abs(a), b - 1) * mp.sign(a), v * mp.log(abs(a))
            elif node == G.ABS:
                if abs(a) < eps:
                    raise NotSmooth()
                v, ga, gb = abs(a), mp.sign(a), 0
            elif node == G.SQRT:
                if abs(a) < eps:
                    raise NotSmooth()
                v = mp.sqrt(abs(a))
                ga, gb = mp.sign(a) / (2 * v), 0
            elif node == G.SINH:
                if abs(a) > 30:
                    raise NotSmooth()
                v, ga, gb = mp.sinh(a), mp.cosh(a), 0
            elif node == G.COSH:
                if abs(a) > 30:
                    raise NotSmooth()
                v, ga, gb = mp.cosh(a), mp.sinh(a), 0
            else:
                raise NotSmooth()
            t = ga * da + gb * db
            ta = abs(ga) * aa + abs(gb) * ab
            if abs(v) > 1e8 or abs(ga) > 1e8 or abs(gb) > 1e8:
                raise NotSmooth()
        val[i], tan[i], tabs[i] = v, t, ta
    return val[n - 1], tan[n - 1], tabs[n - 1]


# ---------------------------------------------------------------- instrumented run of the real backend

class RevTrace:
    """wraps evaluation_backend.reverse_eval_function to record (row, adjoints before, adjoints after)"""

    def __init__(self):
        self.steps = []

    def __enter__(self):
        self.orig = eb.reverse_eval_function
        me = self

        def wrapped(node, i, p1, p2, forward_eval, reverse_eval):
            snap = lambda l: [np.array(v, copy=True) if isinstance(v, np.ndarray) else v for v in l]
            before = snap(reverse_eval)   # entries are updated in place by `+=`: deep snapshots
            me.orig(node, i, p1, p2, forward_eval, reverse_eval)
            me.steps.append((int(i), before, snap(reverse_eval)))
        eb.reverse_eval_function = wrapped
        return self

    def __exit__(self, *a):
        eb.reverse_eval_function = self.orig
        return False


def py_grad(stack, x, consts, wrt_x):
    try:
        fw = eb._forward_eval(stack, x, consts)
        with RevTrace() as tr:
            val, d = eb.evaluate_with_derivative(stack, x, consts, wrt_x)
        # the tracer copies adjoint arrays when it records a step, which can hide aliasing between them: what the oracle
        # judges is an UNINSTRUMENTED call (and the two must agree)
        val_u, d_u = eb.evaluate_with_derivative(stack, x, consts, wrt_x)
        if not (np.array_equal(np.asarray(d), np.asarray(d_u), equal_nan=True) and np.array_equal(np.asarray(val), np.asarray(val_u), equal_nan=True)):
            return "ok-untraced-differs", fw, val_u, d_u, None
        return "ok", fw, val, d, tr.steps
    except ArithmeticError:
        return "zerodiv", None, None, None, None
    except Exception:
        return "other", None, None, None, None


def gen_cases(ctx):
    rng = ctx.rng
    cases = [("hand", st, 2) for st in G.hand_shapes(D=2)] * 3        # each hand shape at nice and at special points
    for k in range(ctx.n(1200, 30000)):
        D = rng.choice([1, 2, 3])
        ops = rng.choice(G.OP_SUBSETS)
        size = rng.choice([1, 2, 3, 4, 6, 8, 12, 16, 24, 40])
        st = G.random_stack(rng, size, D, ops, term_prob=rng.choice([0.15, 0.3, 0.5]),
                            const_prob=rng.choice([0.0, 0.3, 0.6]), int_prob=rng.choice([0.0, 0.15, 0.3]),
                            n_load=rng.choice([1, 2, 3]), share_bias=rng.choice([0.0, 0.5]))
        cases.append(("random", st, D))
    return cases


def reduce_indep(genome):
    used = G.utilized(genome)
    m, red = {}, []
    for i, (node, p1, p2) in enumerate(genome):
        if used[i]:
            if node < 2:
                red.append([node, p1, p2])
            else:
                red.append([node, m[p1], m[p2] if node in G.ARITY2 else m[p1]])
            m[i] = len(red) - 1
    return red


def run(ctx, rep):
    rng = ctx.rng
    rep.rule = ("reduced+renumbered stacks from the structured generator (12 operator subsets, sizes 1..40, sharing bias, fan-out, "
                "several load rows of one variable) and hand shapes; both wrt-x and wrt-c; nice points for the analytic oracle and "
                "special values for exception/non-finite behaviour; distinct = distinct (stack, wrt, data); non-trivial = has an operator row")
    rep.assumptions = ["floating-point reverse sweep approximates the real one (oracle tolerance 1e-6 relative to the sum of absolute path contributions)"]
    rep.validated_only = ["floating-point accuracy of the gradient"]
    lines, meta = [], []
    for origin, genome, D in gen_cases(ctx):
        stack_l = reduce_indep(genome) if rng.random() < 0.8 else genome
        stack_l, L = G.renumber(stack_l)
        stack = np.array(stack_l, dtype=int).reshape(-1, 3)
        nice = rng.random() < 0.6
        if origin == "hand":
            hand_seen = getattr(ctx, "_hand_seen", 0)
            ctx._hand_seen = hand_seen + 1
            nice = (hand_seen // len(G.hand_shapes(D=2))) != 1         # passes 0 and 2 at nice points, pass 1 at special ones
        M = rng.choice([1, 2, 3])
        if nice:
            x = np.array([[G.nice_value(rng) for _ in range(D)] for _ in range(M)], dtype=float)
            vals = [G.nice_value(rng) for _ in range(L)]
            consts = tuple(float(v) for v in vals) if rng.random() < 0.5 else tuple(np.array(vals, dtype=float))
            cmode = "nice"
        else:
            x = G.random_data(rng, M, D)
            consts, cmode = mk_consts(rng, L)
        for wrt in ("x", "c"):
            wrt_x = wrt == "x"
            ncols = D if wrt_x else L
            status, fw, val, d, steps = py_grad(stack, x, consts, wrt_x)
            rep.case((stack_l, wrt, x.tobytes(), cmode), any(r[0] >= 2 for r in stack_l))
            rep.count("status", status)
            rep.count("wrt", wrt)
            rep.count("origin", origin)
            case = {"stack": stack_l, "x": x.tolist(), "consts": [float(v) for v in consts], "wrt": wrt,
                    "const_kinds": ["py" if type(v) is float else "np" for v in consts]}
            if status == "other":
                rep.violate("well-formed stack raised a non-arithmetic exception in evaluate_with_derivative", "C02:backend-exception", case)
                continue
            if status == "ok-untraced-differs":
                rep.disagree("the gradient of an untraced call differs from the traced call (adjoint arrays aliased / state carried over)", case)
                status = "ok"
            if status == "ok":
                rep.sample({"stack": G.describe(stack_l), "wrt": wrt, "x": x.tolist(), "consts": case["consts"], "grad": np.asarray(d).tolist()})
                # ---- oracle: shapes, value == plain evaluation, exact zeros, analytic derivative
                try:
                    plain = eb.evaluate(stack, x, consts)
                except Exception:
                    plain = None
                if not (isinstance(d, np.ndarray) and d.shape == (M, ncols)):
                    rep.violate(f"gradient shape {getattr(d, 'shape', None)} != ({M},{ncols})", "C02:grad-shape", case)
                    continue
                if plain is None or val.shape != plain.shape or any(f2b(a) != f2b(b) and not (math.isnan(a) and math.isnan(b))
                                                                    for a, b in zip(val.ravel(), plain.ravel())):
                    rep.violate("value returned with the gradient differs from plain evaluation", "C02:value-differs", case)
                if not wrt_x and rng.random() < 0.3:
                    # constants the stack never loads, supplied AFTER the ones it does: one exact-zero column each
                    k = rng.randrange(1, 3)
                    more = tuple(consts) + tuple(float(rng.randrange(1, 5)) for _ in range(k))
                    rep.count("trailing_unused_constants")
                    try:
                        _, d2 = eb.evaluate_with_derivative(stack, x, more, False)
                        ok2 = isinstance(d2, np.ndarray) and d2.shape == (M, L + k) and np.array_equal(d2[:, :L], d, equal_nan=True) \
                            and all(f2b(v) in (0, 1 << 63) for v in d2[:, L:].ravel())
                    except Exception as exc:
                        ok2, d2 = False, exc
                    if not ok2:
                        rep.violate(f"with {k} further constants the stack does not load, the gradient is {getattr(d2, 'shape', d2)} "
                                    f"(expected ({M},{L + k}) with the first {L} columns unchanged and exact zeros after them)", "C02:grad-shape",
                                    {**case, "constants_supplied": [float(v) for v in more]})
                loaded = {r[1] for r in stack_l if r[0] == (G.VARIABLE if wrt_x else G.CONSTANT)}
                for jcol in range(ncols):
                    if jcol not in loaded and not all(f2b(v) in (0, 1 << 63) for v in d[:, jcol]):
                        rep.violate(f"column {jcol} is not loaded by the stack but its derivative is {d[:, jcol].tolist()}", "C02:unused-nonzero", case)
                if nice and all(G.utilized(stack_l)):
                    for r in range(M):
                        for jcol in sorted(loaded):
                            try:
                                v_, g_, tabs = mp_forward_ad(stack_l, x[r], consts, wrt, jcol)
                            except NotSmooth:
                                rep.count("oracle_point", "not smooth / skipped")
                                continue
                            got = float(d[r, jcol])
                            tol = 1e-6 * float(tabs) + 1e-9
                            if not math.isfinite(got) or abs(got - float(g_)) > tol:
                                rep.violate(f"d/d{wrt}{jcol} at data row {r}: returned {got!r}, exact {mpmath.nstr(g_, 15)} (tolerance {tol:.2e})",
                                            "C02:grad-value", {**case, "row": r, "col": jcol})
                            else:
                                rep.count("oracle_point", "agree")
                # ---- accumulation check from the final adjoints (exact)
                if steps is not None:
                    final = steps[-1][2] if steps else ([0] * (len(stack_l) - 1) + [1.0])
                    for r in range(M):
                        acc = [0.0] * ncols
                        for i in range(len(stack_l) - 1, -1, -1):
                            if stack_l[i][0] == (G.VARIABLE if wrt_x else G.CONSTANT):
                                acc[stack_l[i][1]] += row_val(final[i], r)
                        if any(f2b(a) != f2b(float(b)) and not (math.isnan(a) and math.isnan(b)) for a, b in zip(acc, d[r])):
                            rep.violate("gradient columns are not the sums of the adjoints of their load rows", "C02:accumulation", {**case, "row": r})
            # ---- correspondence lines
            if ctx.driver_ok:
                ss, cs = stack_str(stack_l), kconst_str(consts)
                lines.append(f"grad ; {wrt} ; {ss} ; {cs} ; {floats_str(x[0])}")
                meta.append(("grad", case, status, fw, d))
                if status == "ok":
                    for (i, before, after) in steps:
                        for r in range(M if len(steps) < 30 else 1):
                            fwv = [row_val(v, r) for v in fw]
                            bv = [row_val(v, r) for v in before]
                            av = [row_val(v, r) for v in after]
                            lines.append(f"revstep ; {ss} ; {i} ; {floats_str(fwv)} ; {floats_str(bv)}")
                            meta.append(("revstep", case, i, av, None))
    if ctx.driver_ok:
        outs = run_driver(lines)
        rep.corr_cases = len(lines)
        for line, o, (kind, case, a, b, c_) in zip(lines, outs, meta):
            toks = o.split()
            if kind == "grad":
                status, fw, d = a, b, c_
                mstatus = "ok" if toks[0] == "ok" else toks[1] if toks[0] == "err" else o
                if mstatus != status:
                    rep.disagree(f"exception class: model {mstatus}, code {status}", {"line": line, **case})
                    continue
                if status == "ok":
                    mk = toks[1]
                    if mk != kind_of(fw[-1]):
                        rep.disagree(f"kind of the value: model {mk}, code {kind_of(fw[-1])}", {"line": line, **case})
                    md = [b2f(t) for t in o.split(";")[1].split()]
                    pd = [float(v) for v in d[0]]
                    if len(md) != len(pd):
                        rep.disagree("gradient length differs", {"line": line, **case})
                    else:
                        for m_, p_ in zip(md, pd):
                            if (m_ == 0.0) != (p_ == 0.0) and math.isfinite(m_) and math.isfinite(p_) and max(abs(m_), abs(p_)) > 1e-200:
                                rep.disagree(f"zero pattern of the gradient differs: model {md} vs code {pd}", {"line": line, **case})
                                break
            else:
                i, av = a, b
                if toks[0] != "ok":
                    rep.disagree(f"model cannot replay reverse step at row {i}", {"line": line, **case})
                    continue
                mv = [b2f(t) for t in toks[1:]]
                for k, (m_, p_) in enumerate(zip(mv, av)):
                    if not same_float(m_, p_, K_ULPS):
                        if math.isfinite(m_) and math.isfinite(p_) and abs(m_ - p_) <= 1e-9 * max(abs(m_), abs(p_)):
                            rep.count("ulp_excused")
                            continue
                        rep.disagree(f"reverse step at row {i} ({G.NAMES.get(case['stack'][i][0])}): adjoint {k}: model {m_!r} vs code {p_!r}",
                                     {"line": line, **case})
                        break
    agraph_level(ctx, rep)


def agraph_level(ctx, rep):
    rng = ctx.rng
    shapes = G.hand_shapes(D=2)
    for k in range(ctx.n(300, 4000) + len(shapes)):
        D = 2 if k < len(shapes) else rng.choice([1, 2, 3])
        genome = shapes[k] if k < len(shapes) else G.random_stack(rng, rng.choice([1, 2, 3, 5, 8, 13]), D, rng.choice(G.OP_SUBSETS),
                                                                   term_prob=0.3, const_prob=rng.choice([0.0, 0.4]), int_prob=rng.choice([0.0, 0.3]))
        M = rng.choice([1, 3])
        x = G.random_data(rng, M, D)
        ag = AGraph()
        ag.command_array = np.array(genome, dtype=int).reshape(-1, 3)
        L = ag.get_number_local_optimization_params()
        case = {"genome": genome, "x": x.tolist()}
        rep.case(("agraph", genome, x.tobytes()), any(r[0] >= 2 for r in genome))
        with warnings.catch_warnings():
            warnings.simplefilter("ignore")
            try:
                plain = ag.evaluate_equation_at(x)
                vx, dx = ag.evaluate_equation_with_x_gradient_at(x)
                vc, dc = ag.evaluate_equation_with_local_opt_gradient_at(x)
            except Exception as exc:
                rep.violate(f"AGraph gradient entry point raised {type(exc).__name__}: {exc}", "C02:agraph-exception", case)
                continue
        rep.count("agraph_cases")

        def same(a, b):
            return a.shape == b.shape and all(f2b(p) == f2b(q) or (math.isnan(p) and math.isnan(q)) for p, q in zip(a.ravel(), b.ravel()))
        def error_path(v, g):
            # signature of the `except` branch: everything NaN
            return np.isnan(np.asarray(v)).all() and (np.asarray(g).size == 0 or np.isnan(np.asarray(g)).all())
        if not same(np.asarray(vx), plain):
            key = "C02:F1c-gradient-error-path" if (error_path(vx, dx) and not np.isfinite(plain).any()) else "C02:agraph-value"
            rep.violate(f"value returned with the x-gradient (shape {np.asarray(vx).shape}) differs from evaluate_equation_at (shape {plain.shape})", key, case)
        if not same(np.asarray(vc), plain):
            key = "C02:F1c-gradient-error-path" if (error_path(vc, dc) and not np.isfinite(plain).any()) else "C02:agraph-value-c"
            rep.violate(f"value returned with the constant-gradient differs from evaluate_equation_at: {np.asarray(vc).ravel().tolist()} vs {plain.ravel().tolist()}",
                        key, case)
        if np.asarray(dx).shape != (M, D):
            rep.violate(f"x-gradient shape {np.asarray(dx).shape} != ({M},{D})", "C02:agraph-grad-shape", case)
        if np.asarray(dc).shape != (M, L):
            rep.violate(f"constant-gradient shape {np.asarray(dc).shape} != ({M},{L})", "C02:agraph-grad-shape", case)


def replay(ctx, rep, rp):
    case = rp.get("case", {})
    rep.case(("replay",), True)
    rep.case(("replay2",), True)
    if "genome" in case:
        ag = AGraph()
        ag.command_array = np.array(case["genome"], dtype=int).reshape(-1, 3)
        x = np.array(case["x"], dtype=float)
        plain = ag.evaluate_equation_at(x)
        vx, dx = ag.evaluate_equation_with_x_gradient_at(x)
        print("replay: plain", plain.shape, "value with x-gradient", np.asarray(vx).shape)
        if np.asarray(vx).shape != plain.shape:
            rep.violate("value shapes differ", rp.get("key"), case)
    elif "stack" in case:
        stack = np.array(case["stack"], dtype=int).reshape(-1, 3)
        x = np.array(case["x"], dtype=float)
        kinds = case.get("const_kinds") or ["py"] * len(case["consts"])
        consts = tuple(float(c) if k == "py" else np.float64(c) for c, k in zip(case["consts"], kinds))
        status, fw, val, d, steps = py_grad(stack, x, consts, case.get("wrt", "x") == "x")
        print("replay:", status, None if d is None else d.tolist())
        if status == "ok" and "col" in case:
            v_, g_, tabs = mp_forward_ad(case["stack"], x[case["row"]], consts, case["wrt"], case["col"])
            got = float(d[case["row"], case["col"]])
            print("replay: exact", mpmath.nstr(g_, 15), "returned", got)
            if abs(got - float(g_)) > 1e-6 * float(tabs) + 1e-9:
                rep.violate("gradient differs from exact derivative", rp.get("key"), case)


if __name__ == "__main__":
    harness_main("C02", run, replay)
