"""C01 -- evaluation returns the value of the expression the stack encodes.

Correspondence (K): the real `evaluation_backend.evaluate/_forward_eval` against the Lean model
(`EvalPy.evaluate` for exception class / kind / value, `Eval.fwdRow` row by row from the implementation's
own operand values -- trace validation, so ulp differences between numpy and C libm do not compound).
Oracle (independent of the Lean model): a 40-digit mpmath reading of every row, shape, irrelevance of
unused rows, and the AGraph-level entry point including its exception path.
"""
import math

import mpmath
import numpy as np

from bingo.symbolic_regression.agraph.agraph import AGraph
from bingo.symbolic_regression.agraph.evaluation_backend import evaluation_backend as eb

from harness import gen_stacks as G
from harness.common import harness_main, run_driver, stack_str, floats_str, f2b, b2f, same_float

mpmath.mp.dps = 40
MAXD = 1.7976931348623157e308
K_ULPS = 64          # model (C libm) vs numpy, one operation from identical operands
O_REL = 1e-12        # numpy vs exact real value of one operation from numpy's own operands


def kconst_str(consts):
    return " ".join(f"{0 if type(c) is float else 1} {f2b(c)}" for c in consts)


def py_forward(stack, x, consts):
    try:
        fw = eb._forward_eval(stack, x, consts)
        return "ok", fw
    except ArithmeticError:
        return "zerodiv", None
    except Exception:
        return "other", None


def kind_of(v):
    if isinstance(v, np.ndarray) and v.ndim == 2:
        return "col"
    if type(v) in (float, int):
        return "py"
    return "np"


def row_val(v, r):
    if isinstance(v, np.ndarray) and v.ndim == 2:
        return float(v[r, 0])
    return float(v)


# ---------------------------------------------------------------- independent oracle: one row in exact arithmetic

def exact_op(node, a, b):
    """('val', mpf) | ('undef',) for finite operands a, b (python floats), with textbook domains"""
    A, B = mpmath.mpf(a), mpmath.mpf(b)
    try:
        if node == G.ADD:
            return ("val", A + B)
        if node == G.SUB:
            return ("val", A - B)
        if node == G.MUL:
            return ("val", A * B)
        if node == G.DIV:
            return ("undef",) if B == 0 else ("val", A / B)
        if node == G.SIN:
            return ("val", mpmath.sin(A))
        if node == G.COS:
            return ("val", mpmath.cos(A))
        if node == G.EXP:
            return ("val", mpmath.exp(A)) if A < 800 else ("big",)
        if node == G.LOG:
            return ("undef",) if A == 0 else ("val", mpmath.log(abs(A)))
        if node in (G.POW, G.SPOW):
            if node == G.SPOW:
                A = abs(A)
            if A == 0:
                if B > 0:
                    return ("val", mpmath.mpf(0))
                if B == 0:
                    return ("val", mpmath.mpf(1))
                return ("undef",)
            if A < 0:
                if B != int(B):
                    return ("undef",)
                if abs(B) > 1e6:
                    return ("skip",)
                return ("val", mpmath.power(A, int(B)))
            e = B * mpmath.log(A)
            if e > 800:
                return ("big",)
            if e < -800:
                return ("val", mpmath.mpf(0))
            return ("val", mpmath.exp(e))
        if node == G.ABS:
            return ("val", abs(A))
        if node == G.SQRT:
            return ("val", mpmath.sqrt(abs(A)))
        if node == G.SINH:
            return ("val", mpmath.sinh(A)) if abs(A) < 800 else ("big",)
        if node == G.COSH:
            return ("val", mpmath.cosh(A)) if abs(A) < 800 else ("big",)
    except Exception:
        return ("skip",)
    return ("skip",)


def check_row_exact(node, a, b, got):
    """None if fine, else a description.  Only called with finite a, b."""
    r = exact_op(node, a, b)
    if r[0] == "skip":
        return None
    if r[0] == "undef":
        return None if not math.isfinite(got) else f"undefined operation gave finite {got!r}"
    if r[0] == "big":
        # far beyond the binary64 range: the correctly rounded result is an infinity, not a large finite number
        return None if math.isinf(got) else f"overflowing operation gave the finite number {got!r} (the value of the expression is beyond the binary64 range: inf)"
    v = r[1]
    if abs(v) > mpmath.mpf(MAXD):
        if abs(v) > mpmath.mpf(MAXD) * (1 + mpmath.mpf("1e-9")):
            return None if math.isinf(got) else f"overflow expected (exact value {mpmath.nstr(v, 8)}), got the finite number {got!r}"
        return None if (math.isinf(got) or abs(got) >= 1e308) else f"overflow expected, got {got!r}"
    if math.isnan(got) or math.isinf(got):
        if abs(v) > mpmath.mpf("1e307"):
            return None
        return f"defined finite value {mpmath.nstr(v, 17)} but got {got!r}"
    err = abs(mpmath.mpf(got) - v)
    if err <= mpmath.mpf(O_REL) * abs(v) + mpmath.mpf("1e-300"):
        return None
    return f"value {got!r} differs from exact {mpmath.nstr(v, 20)}"


def oracle_backend(stack, x, consts, fw, out):
    """independent statement of C01 on one backend evaluation; returns list of problems"""
    probs = []
    M = x.shape[0]
    if not (isinstance(out, np.ndarray) and out.shape == (M, 1)):
        probs.append(f"output shape {getattr(out, 'shape', None)} != ({M},1)")
        return probs
    n = len(stack)
    if out.dtype.kind != "f":
        probs.append(f"output has dtype {out.dtype} (not real floating point): {out.ravel().tolist()[:3]!r}")
        return probs
    for i, v in enumerate(fw):
        if isinstance(v, complex) or np.iscomplexobj(v):
            probs.append(f"stack row {i} ({G.NAMES[stack[i][0]]}) evaluated to a complex value {v!r}")
            return probs
    for r in range(M):
        vals = [row_val(v, r) for v in fw]
        for i, (node, p1, p2) in enumerate(stack):
            got = vals[i]
            if node == G.INTEGER:
                ok = got == float(p1)
            elif node == G.VARIABLE:
                ok = f2b(got) == f2b(x[r, p1])
            elif node == G.CONSTANT:
                ok = f2b(got) == f2b(consts[p1])
            else:
                a, b = vals[p1], vals[p2]
                if not (math.isfinite(a) and (math.isfinite(b) or node not in G.ARITY2)):
                    continue
                why = check_row_exact(node, a, b if math.isfinite(b) else 0.0, got)
                ok = why is None
                if not ok:
                    probs.append(f"data row {r}, stack row {i} ({G.NAMES[node]}): {why} (operands {a!r}, {b!r})")
                    continue
            if not ok:
                probs.append(f"data row {r}, stack row {i} ({G.NAMES[node]}): loaded {got!r}")
        if f2b(float(out[r, 0])) != f2b(vals[n - 1]) and not (math.isnan(out[r, 0]) and math.isnan(vals[n - 1])):
            probs.append(f"output row {r} is {out[r, 0]!r}, last stack row is {vals[n - 1]!r}")
    return probs


# ---------------------------------------------------------------- case generation

def gen_cases(ctx):
    rng = ctx.rng
    n_rand = ctx.n(1500, 40000)
    cases = []
    for st in G.hand_shapes(D=2):
        cases.append(("hand", st, 2))
    for k in range(n_rand):
        D = rng.choice([1, 1, 2, 3])
        ops = rng.choice(G.OP_SUBSETS)
        size = rng.choice([1, 2, 3, 4, 6, 8, 12, 16, 24, 40]) if k % 7 else rng.randrange(1, 65)
        st = G.random_stack(rng, size, D, ops, term_prob=rng.choice([0.1, 0.3, 0.5]),
                            const_prob=rng.choice([0.0, 0.3, 0.6]), int_prob=rng.choice([0.0, 0.15, 0.4]),
                            n_load=rng.choice([1, 1, 2]), share_bias=rng.choice([0.0, 0.0, 0.5]))
        cases.append(("random", st, D))
    return cases


def mk_consts(rng, L):
    vals = G.random_consts(rng, L)
    mode = rng.choice(["py", "np", "mixed", "default"])
    if mode == "default":
        return tuple([1.0] * L), mode
    if mode == "py":
        return tuple(float(v) for v in vals), mode
    if mode == "np":
        return tuple(np.array(vals, dtype=float)), mode
    return tuple(float(v) if rng.random() < 0.5 else np.float64(v) for v in vals), mode


def run(ctx, rep):
    rng = ctx.rng
    rep.rule = ("stacks from a structured generator over 12 operator subsets x sizes 1..64 (+ hand shapes: maximal sharing, "
                "chains, unused rows, constant/integer-only, singular and overflowing sub-expressions), reduced and unreduced, "
                "constants as python floats / numpy scalars, data with special values; AGraph level: every row evaluated alone vs with the other rows, unused rows varied; distinct = distinct (stack, constants kind, data) "
                "canonical forms; non-trivial = at least one operator row")
    rep.assumptions = ["IEEE-754 binary64 and numpy/libm elementary functions approximate the real functions (validated per row against 40-digit mpmath, not proved)",
                       "array-valued constants (c_dim > 1) are not modelled"]
    rep.validated_only = ["floating-point accuracy of each operation (oracle: |numpy - exact| <= 1e-12 relative, per row from numpy's own operands)"]
    cases = gen_cases(ctx)
    lines = []
    meta = []
    for origin, genome, D in cases:
        for variant in ("full", "reduced"):
            if variant == "reduced":
                used = G.utilized(genome)
                if all(used):
                    continue
                # independent reduction
                m, red = {}, []
                for i, (node, p1, p2) in enumerate(genome):
                    if used[i]:
                        if node < 2:
                            red.append([node, p1, p2])
                        else:
                            red.append([node, m[p1], m[p2] if node in G.ARITY2 else m[p1]])
                        m[i] = len(red) - 1
                stack_l = red
            else:
                stack_l = genome
            stack_l, L = G.renumber(stack_l)
            consts, cmode = mk_consts(rng, L)
            M = rng.choice([1, 2, 3, 7])
            x = G.random_data(rng, M, D)
            stack = np.array(stack_l, dtype=int).reshape(-1, 3)
            status, fw = py_forward(stack, x, consts)
            out = None
            if status == "ok":
                try:
                    out = eb.evaluate(stack, x, consts)
                except Exception as exc:  # evaluate = _forward_eval + reshape: must not differ
                    rep.violate(f"evaluate raised {type(exc).__name__} although _forward_eval succeeded",
                                "C01:evaluate-raise", {"stack": stack_l, "x": x.tolist(), "consts": [float(c) for c in consts]})
            nontrivial = any(r[0] >= 2 for r in stack_l)
            rep.case((stack_l, cmode, x.tobytes()), nontrivial)
            rep.count("origin", origin)
            rep.count("variant", variant)
            rep.count("size", min(len(stack_l), 64) // 8 * 8)
            rep.count("status", status)
            rep.count("consts", cmode)
            for r_ in stack_l:
                rep.count("node", G.NAMES[r_[0]])
            case = {"stack": stack_l, "x": x.tolist(), "consts": [float(c) for c in consts],
                    "const_kinds": ["py" if type(c) is float else "np" for c in consts]}
            rep.sample({"stack": G.describe(stack_l), "x": x.tolist(), "consts": case["consts"], "status": status,
                        "out": None if out is None else out.ravel().tolist()})
            # ---- oracle on the real code
            if status == "ok" and out is not None:
                for p in oracle_backend(stack_l, x, consts, fw, out)[:3]:
                    rep.violate(p, "C01:" + p.split(":")[0].split("(")[-1].rstrip(")") if False else "C01:backend-value", case)
                if np.isfinite(out).all():
                    rep.count("finite_output")
            if status == "other":
                rep.violate("well-formed stack raised a non-arithmetic exception in the backend", "C01:backend-exception", case)
            # ---- correspondence lines (rows that are not real numbers have no counterpart in the model: already reported above)
            if status == "ok" and any(isinstance(v, complex) or np.iscomplexobj(v) for v in fw):
                continue
            if ctx.driver_ok:
                ss, cs = stack_str(stack_l), kconst_str(consts)
                for r in range(M):
                    lines.append(f"eval ; {ss} ; {cs} ; {floats_str(x[r])}")
                    meta.append(("eval", case, r, status, fw, out))
                    if status == "ok":
                        pv = [row_val(v, r) for v in fw]
                        lines.append(f"fwdtrace ; {ss} ; {floats_str(consts)} ; {floats_str(x[r])} ; {floats_str(pv)}")
                        meta.append(("trace", case, r, pv, None, None))
    # malformed stream: error / no error only
    for k in range(ctx.n(300, 3000)):
        D = rng.choice([1, 2])
        st = G.random_stack(rng, rng.randrange(1, 8), D, G.ALL_OPS)
        st, L = G.renumber(st)
        i = rng.randrange(len(st))
        st[i] = list(st[i])
        st[i][rng.choice([1, 2]) if st[i][0] != G.INTEGER else 0] = rng.choice([-5, -2, -1, len(st), len(st) + 3, 99, i])
        if rng.random() < 0.2:
            st[i][0] = rng.choice([16, 17, -2, 100])
        consts = tuple([1.0] * L)
        x = G.random_data(rng, 1, D)
        stack = np.array(st, dtype=int).reshape(-1, 3)
        status, fw = py_forward(stack, x, consts)
        rep.count("malformed_status", status)
        rep.case(("malformed", st, x.tobytes()), False)
        if ctx.driver_ok:
            lines.append(f"eval ; {stack_str(st)} ; {kconst_str(consts)} ; {floats_str(x[0])}")
            meta.append(("malformed", {"stack": st, "x": x.tolist(), "consts": list(consts)}, 0, status, fw, None))

    if ctx.driver_ok:
        outs = run_driver(lines)
        rep.corr_cases = len(lines)
        for line, o, (kind, case, r, a, fw, out) in zip(lines, outs, meta):
            if kind == "eval" or kind == "malformed":
                status = a
                toks = o.split()
                if toks[0] == "err":
                    mstatus = toks[1]
                elif toks[0] == "ok":
                    mstatus = "ok"
                else:
                    mstatus = o
                if mstatus != status:
                    rep.disagree(f"exception class: model {mstatus}, code {status}", {"line": line, **case})
                    continue
                if status == "ok" and kind == "eval":
                    mk, mv = toks[1], b2f(toks[2])
                    pk = kind_of(fw[-1])
                    if mk != pk:
                        rep.disagree(f"kind of forward_eval[-1]: model {mk}, code {pk}", {"line": line, **case})
            else:
                pv = a
                toks = o.split()
                if toks[0] != "ok":
                    rep.disagree("model cannot recompute a row the code computed", {"line": line, **case})
                    continue
                mv = [b2f(t) for t in toks[1:]]
                for i, (m_, p_) in enumerate(zip(mv, pv)):
                    if not same_float(m_, p_, K_ULPS):
                        node = case["stack"][i][0]
                        # tiny-argument / huge-argument libm differences are not structural: accept if relatively close
                        if math.isfinite(m_) and math.isfinite(p_) and abs(m_ - p_) <= 1e-9 * max(abs(m_), abs(p_)):
                            rep.count("ulp_excused")
                            continue
                        if node in (G.POW, G.SPOW) and pv[case["stack"][i][2]] == 0.5:
                            # numpy evaluates x ** 0.5 as sqrt(x): sqrt(-inf) = nan and sqrt(-0.0) = -0.0 where C's pow (the model)
                            # gives +inf and +0.0; the real-valued expression is undefined / zero there, so neither is a wrong value
                            base = pv[case["stack"][i][1]]
                            base = abs(base) if node == G.SPOW else base
                            alt = math.sqrt(base) if base >= 0 else float("nan")
                            if base == 0:
                                alt = base
                            if same_float(alt, p_, K_ULPS) or (math.isnan(alt) and math.isnan(p_)):
                                rep.count("numpy_sqrt_fast_path_excused")
                                continue
                        rep.disagree(f"row {i} ({G.NAMES.get(node, node)}): model {m_!r} vs code {p_!r} from the code's own operands",
                                     {"line": line, "data_row": r, **case})
                        break

    agraph_level(ctx, rep)


# ---------------------------------------------------------------- AGraph-level entry point (incl. exception path, unused rows)

def deep_stacks(ctx, rep):
    """well-formed stacks of any size evaluate: long dependency CHAINS (depth = size), not only wide stacks"""
    import warnings
    for n, kind in ((1500, "sum"), (5000, "sum"), (3000, "sincos"), (6000, "wide")):
        if kind == "sum":
            genome = [[G.VARIABLE, 0, 0]] + [[G.ADD, i, 0] for i in range(n - 1)]
            want = lambda x0: n * x0
        elif kind == "sincos":
            genome = [[G.VARIABLE, 0, 0]] + [[G.SIN if i % 2 else G.COS, i, i] for i in range(n - 1)]
            want = None
        else:
            genome = [[G.VARIABLE, 0, 0]] + [[G.ADD, 0, 0] for _ in range(n - 2)] + [[G.ADD, 1, n - 2]]
            want = lambda x0: 4 * x0
        x = np.array([[0.5], [-1.25], [3.0]])
        case = {"shape": f"{kind} chain of {n} commands", "x": x.tolist()}
        rep.case(("deep", kind, n), True)
        rep.count("deep_stack", f"{kind} {n}")
        ag = AGraph()
        ag.command_array = np.array(genome, dtype=int).reshape(-1, 3)
        try:
            with warnings.catch_warnings():
                warnings.simplefilter("ignore")
                out = ag.evaluate_equation_at(x)
        except BaseException as exc:      # RecursionError included
            if isinstance(exc, (KeyboardInterrupt, SystemExit)):
                raise
            rep.violate(f"a well-formed stack ({case['shape']}) raised {type(exc).__name__} instead of returning its value", "C01:agraph-exception", case)
            continue
        if not (isinstance(out, np.ndarray) and out.shape == (3, 1)):
            rep.violate(f"{case['shape']}: result of shape {getattr(out, 'shape', None)}", "C01:agraph-shape", case)
        elif want is not None and not np.allclose(out.ravel(), [want(v) for v in x.ravel()], rtol=1e-9):
            rep.violate(f"{case['shape']}: value {out.ravel().tolist()} differs from {[want(v) for v in x.ravel()]}", "C01:backend-value", case)
        elif want is None:
            v = x.ravel().copy()
            for i in range(n - 1):
                v = np.sin(v) if i % 2 else np.cos(v)
            if not np.allclose(out.ravel(), v, rtol=1e-9):
                rep.violate(f"{case['shape']}: value differs from the direct numpy evaluation", "C01:backend-value", case)


def agraph_level(ctx, rep):
    rng = ctx.rng
    import warnings
    deep_stacks(ctx, rep)
    shapes = G.hand_shapes(D=2)
    n = ctx.n(400, 6000)
    for k in range(n + len(shapes)):
        D = 2 if k < len(shapes) else rng.choice([1, 2, 3])
        if k < len(shapes):
            genome = shapes[k]
        else:
            genome = G.random_stack(rng, rng.choice([1, 2, 3, 5, 8, 13, 20]), D, rng.choice(G.OP_SUBSETS),
                                    term_prob=0.3, const_prob=rng.choice([0.0, 0.4]), int_prob=rng.choice([0.0, 0.3]))
        M = rng.choice([1, 3, 4])
        x = G.random_data(rng, M, D)
        ag = AGraph()
        ag.command_array = np.array(genome, dtype=int).reshape(-1, 3)
        L = ag.get_number_local_optimization_params()
        cmode = "default"
        if L and rng.random() < 0.6:
            vals = G.random_consts(rng, L)
            if rng.random() < 0.5:
                ag.set_local_optimization_params(np.array(vals))
                cmode = "np"
            else:
                ag.set_local_optimization_params([float(v) for v in vals])
                cmode = "py"
        case = {"genome": genome, "x": x.tolist(), "consts": [float(c) for c in ag.constants], "const_mode": cmode}
        rep.case(("agraph", genome, cmode, x.tobytes()), any(r[0] >= 2 for r in genome))
        rep.count("agraph_cases")
        try:
            with warnings.catch_warnings():
                warnings.simplefilter("ignore")
                out = ag.evaluate_equation_at(x)
        except Exception as exc:
            rep.violate(f"AGraph.evaluate_equation_at raised {type(exc).__name__}: {exc}", "C01:agraph-exception", case)
            continue
        if not (isinstance(out, np.ndarray) and out.shape == (M, 1)):
            key = "C01:F1-error-path-shape" if (isinstance(out, np.ndarray) and np.isnan(out).all()) else "C01:agraph-shape"
            rep.violate(f"evaluate_equation_at returned shape {getattr(out, 'shape', None)}, expected ({M}, 1)", key, case)
            continue
        # every data row is evaluated on its own: row i of the result is what the equation gives for row i alone, whatever the
        # other rows contain (an overflow or a division by zero elsewhere must not leak)
        if M > 1:
            with warnings.catch_warnings():
                warnings.simplefilter("ignore")
                single = [ag.evaluate_equation_at(x[i:i + 1]) for i in range(M)]
            rep.count("row_independence_checks")
            bad_rows = [i for i in range(M) if not (single[i].shape == (1, 1) and (f2b(float(single[i][0, 0])) == f2b(float(out[i, 0]))
                                                    or (math.isnan(single[i][0, 0]) and math.isnan(out[i, 0]))))]
            if bad_rows:
                i = bad_rows[0]
                rep.violate(f"row {i} of the result is {out[i, 0]!r} when evaluated with the other rows but {float(single[i][0, 0])!r} on its own "
                            f"(x[{i}] = {x[i].tolist()})", "C01:rows-not-independent", case)
                continue
        # the second parameter of a one-operand command is not an operand: pointing it at any earlier row (one that raises, one
        # that loads another constant, ...) changes nothing
        unary_rows = [i for i, r in enumerate(genome) if r[0] >= 2 and r[0] not in G.ARITY2 and i > 0]
        if unary_rows:
            g3 = [list(r) for r in genome]
            extra = [[G.INTEGER, 1, 1], [G.INTEGER, 0, 0], [G.DIV, 0, 1], [G.CONSTANT, -1, -1]]      # 1/0 on integer loads; a constant
            g3 = extra + [[r[0], r[1] + 4, r[2] + 4] if r[0] >= 2 else r for r in g3]
            for i in unary_rows:
                g3[i + 4][2] = rng.choice([2, 3, rng.randrange(i + 4)])
            ag3 = AGraph()
            ag3.command_array = np.array(g3, dtype=int).reshape(-1, 3)
            if ag3.get_number_local_optimization_params() == L:
                ag3.set_local_optimization_params(ag.constants)
                with warnings.catch_warnings():
                    warnings.simplefilter("ignore")
                    out3 = ag3.evaluate_equation_at(x)
                rep.count("stray_second_parameter_checks")
                if not (out3.shape == out.shape and all(f2b(a) == f2b(b) or (math.isnan(a) and math.isnan(b)) for a, b in zip(out.ravel(), out3.ravel()))):
                    rep.violate("giving the one-operand commands a stray second parameter (rows the expression does not depend on) changed the result "
                                f"from {out.ravel().tolist()[:3]} to {out3.ravel().tolist()[:3]}", "C01:unused-rows", {**case, "genome_with_stray_parameters": g3})
                    continue
            elif ag3.get_number_local_optimization_params() != L:
                rep.violate(f"a stray second parameter of a one-operand command changed the number of constants from {L} to "
                            f"{ag3.get_number_local_optimization_params()}", "C01:unused-rows", {**case, "genome_with_stray_parameters": g3})
                continue
        # agreement with an independent reduction + backend evaluation, and irrelevance of unused rows
        used = G.utilized(genome)
        if not all(used):
            g2 = [list(r) for r in genome]
            for i, u in enumerate(used):
                if not u:
                    if g2[i][0] >= 2:
                        g2[i] = [rng.choice(G.ALL_OPS), rng.randrange(i), rng.randrange(i)]
                    else:
                        g2[i] = rng.choice([[G.VARIABLE, 0, 0], [G.INTEGER, rng.randrange(-3, 4), 0]]) if g2[i][0] != G.CONSTANT else g2[i]
            ag2 = AGraph()
            ag2.command_array = np.array(g2, dtype=int).reshape(-1, 3)
            if ag2.get_number_local_optimization_params() == L:
                ag2.set_local_optimization_params(ag.constants)
                with warnings.catch_warnings():
                    warnings.simplefilter("ignore")
                    out2 = ag2.evaluate_equation_at(x)
                rep.count("unused_rows_varied")
                if not (out2.shape == out.shape and all(f2b(a) == f2b(b) or (math.isnan(a) and math.isnan(b))
                                                       for a, b in zip(out.ravel(), out2.ravel()))):
                    rep.violate("changing rows the last command does not depend on changed the result", "C01:unused-rows",
                                {**case, "genome2": g2})


def replay(ctx, rep, rp):
    case = rp.get("case", {})
    if "genome" in case:
        ag = AGraph()
        ag.command_array = np.array(case["genome"], dtype=int).reshape(-1, 3)
        x = np.array(case["x"], dtype=float)
        if case.get("const_mode") == "np":
            ag.set_local_optimization_params(np.array(case["consts"]))
        elif case.get("const_mode") == "py":
            ag.set_local_optimization_params(case["consts"])
        out = ag.evaluate_equation_at(x)
        print("replay:", out.shape, out.ravel().tolist())
        if out.shape != (x.shape[0], 1):
            rep.violate(f"shape {out.shape}", rp.get("key"), case)
    elif "stack" in case:
        stack = np.array(case["stack"], dtype=int).reshape(-1, 3)
        x = np.array(case["x"], dtype=float)
        kinds = case.get("const_kinds") or ["py"] * len(case["consts"])
        consts = tuple(float(c) if k == "py" else np.float64(c) for c, k in zip(case["consts"], kinds))
        status, fw = py_forward(stack, x, consts)
        print("replay status:", status)
        if status == "ok":
            out = eb.evaluate(stack, x, consts)
            print("replay out:", out.ravel().tolist())
            for p in oracle_backend(case["stack"], x, consts, fw, out):
                rep.violate(p, rp.get("key"), case)
    rep.case(("replay",), True)
    rep.case(("replay2",), True)


if __name__ == "__main__":
    harness_main("C01", run, replay)
