"""C07 -- regression fitness values and gradients match their mathematical definitions.

K: the four metric functions and the four derivative functions of the real code against the model's
interpretation of the REGENERATED formulas (`VFun.eval`), on random residual vectors / Jacobian rows.
Oracle (independent): on real `ExplicitRegression` objects with random equations -- fitness == the metric's
definition applied to the residual computed by the 80-digit tree evaluator (absolute and relative mode);
gradient == the derivative of that definition (forward-mode AD in mpmath); an exact reproduction of the data
has fitness 0 (mae/mse/rmse); every entry point increments `eval_count` by exactly 1.
"""
import math
import warnings

import mpmath
import numpy as np

from bingo.evaluation import fitness_function as ff
from bingo.evaluation.gradient_mixin import VectorGradientMixin as VG
from bingo.symbolic_regression.agraph.agraph import AGraph
from bingo.symbolic_regression.explicit_regression import ExplicitRegression, ExplicitTrainingData

from harness import gen_stacks as G
from harness.c02 import mp_forward_ad, NotSmooth, reduce_indep
from harness.common import harness_main, run_driver, floats_str, b2f

METRICS = {"mae": "mae", "mse": "mse", "rmse": "rmse", "nmll": "negative nmll laplace"}


class FakeInd:
    def __init__(self, L):
        self.L = L

    def get_number_local_optimization_params(self):
        return self.L


def py_metric(name, vec, L):
    f = {"mae": ff.mean_absolute_error, "mse": ff.mean_squared_error, "rmse": ff.root_mean_squared_error,
         "nmll": ff.negative_nmll_laplace}[name]
    return float(f(np.array(vec), FakeInd(L)))


def py_dmetric(name, vec, rows):
    f = {"mae": VG._mean_absolute_error_derivative, "mse": VG._mean_squared_error_derivative,
         "rmse": VG._root_mean_squared_error_derivative, "nmll": VG._negative_nmll_laplace_derivative}[name]
    return [float(v) for v in f(np.array(vec), np.array(rows))]


def mp_metric(name, r, L):
    mp = mpmath
    M = len(r)
    if name == "mae":
        return sum(abs(v) for v in r) / M
    mse = sum(v * v for v in r) / M
    if name == "mse":
        return mse
    if name == "rmse":
        return mp.sqrt(mse)
    b = 1 / mp.sqrt(M)
    ll = -mp.mpf(M) / 2 * mp.log(mse) - mp.mpf(M) / 2 - mp.mpf(M) / 2 * mp.log(2 * mp.pi)
    return -((1 - b) * ll + mp.log(b) / 2 * (L + 1))


def mp_dmetric(name, r, J, L):
    """derivative of the metric definition along a residual tangent J (chain rule on the definition)"""
    mp = mpmath
    M = len(r)
    if name == "mae":
        return sum(mp.sign(v) * j for v, j in zip(r, J)) / M
    mse = sum(v * v for v in r) / M
    dmse = 2 * sum(v * j for v, j in zip(r, J)) / M
    if name == "mse":
        return dmse
    if name == "rmse":
        return dmse / (2 * mp.sqrt(mse))
    b = 1 / mp.sqrt(M)
    return (1 - b) * (mp.mpf(M) / 2) * dmse / mse


def close(a, b, rel=1e-10, abs_=1e-300):
    if math.isnan(a) or math.isnan(b):
        return math.isnan(a) and math.isnan(b)
    if math.isinf(a) or math.isinf(b):
        return a == b
    return abs(a - b) <= rel * max(abs(a), abs(b)) + abs_


def run(ctx, rep):
    rng = ctx.rng
    rep.rule = ("(1) random residual vectors (M in 1..12, zeros/ties/large values, every magnitude 1e-200..1e150) and Jacobian rows for the 4 metrics and 4 derivatives, model and 50-digit definition; "
                "(2) ExplicitRegression on random reduced equations x constants x data (M in {1,2,3,10}, D in {1,3}, y away from 0), "
                "4 metrics x absolute/relative; distinct = distinct inputs; non-trivial = equation with an operator / vector with >= 2 distinct entries")
    rep.assumptions = ["float summation order of np.mean vs left fold: compared to 1e-10 relative"]
    rep.validated_only = ["floating-point accuracy of fitness and gradient (oracle tolerances 1e-8 / 1e-6)"]
    lines, meta = [], []
    # ---------- K on the formulas
    for t in range(ctx.n(1500, 20000)):
        M = rng.choice([1, 2, 3, 5, 12])
        vec = [rng.choice([0.0, 1.0, -1.0, 2.5, -0.5, 1e6, 1e-9]) if rng.random() < 0.3 else rng.uniform(-3, 3) for _ in range(M)]
        if rng.random() < 0.05:
            vec = [0.0] * M
        elif rng.random() < 0.2:
            # residuals of every magnitude (a fit that is almost exact, data in small or large units): the definitions are scale-free
            sc = 10.0 ** rng.choice([-200, -60, -12, -9, -8, -7, -3, 5, 60, 150])
            vec = [v * sc for v in vec]
            rep.count("formula_residual_scale", f"{sc:.0e}")
        L = rng.randrange(0, 5)
        row = [rng.uniform(-2, 2) for _ in range(M)]
        rep.case(("formula", tuple(vec), tuple(row), L), len(set(vec)) > 1)
        for name in METRICS:
            with warnings.catch_warnings():
                warnings.simplefilter("ignore")
                with np.errstate(all="ignore"):
                    pv = py_metric(name, vec, L)
                    pdv = py_dmetric(name, vec, [row])[0]
            # oracle on the real functions: the definition and its derivative in 50-digit arithmetic
            mvec, mrow = [mpmath.mpf(v) for v in vec], [mpmath.mpf(v) for v in row]
            ss = sum(v * v for v in mvec)
            if not (name in ("rmse", "nmll") and ss == 0) and not (name == "mae" and any(v == 0 for v in vec)) \
                    and all(1e-150 < abs(v) < 1e150 for v in vec if v != 0):
                wv, wd = mp_metric(name, mvec, L), mp_dmetric(name, mvec, mrow, L)
                case = {"metric": name, "residual": vec, "jacobian_row": row, "L": L}
                if not (math.isfinite(pv) and abs(pv - float(wv)) <= 1e-9 * max(abs(float(wv)), 1e-300)):
                    rep.violate(f"{name} of the residual vector is {pv!r}, its definition gives {mpmath.nstr(wv, 15)}", "C07:fitness-value", case)
                cond = sum(abs(v * j) for v, j in zip(mvec, mrow)) if name != "mae" else sum(abs(j) for j in mrow)
                tol = 1e-9 * (abs(float(wd)) + (float(abs(wd) * cond / abs(sum(v * j for v, j in zip(mvec, mrow)))) if name != "mae" and sum(v * j for v, j in zip(mvec, mrow)) != 0 else float(cond)))
                if not (math.isfinite(pdv) and abs(pdv - float(wd)) <= tol + 1e-300):
                    rep.violate(f"derivative function of {name} gives {pdv!r}, the derivative of the definition is {mpmath.nstr(wd, 15)}",
                                "C07:gradient-value", case)
                else:
                    rep.count("oracle", "formula derivative agree")
            if ctx.driver_ok:
                lines.append(f"metric ; {name} ; {L} ; {floats_str(vec)} ; ")
                meta.append((name, vec, row, L, pv))
                lines.append(f"metric ; d{name} ; {L} ; {floats_str(vec)} ; {floats_str(row)}")
                meta.append(("d" + name, vec, row, L, pdv))
    if ctx.driver_ok:
        outs = run_driver(lines)
        rep.corr_cases = len(lines)
        for line, o, (name, vec, row, L, pv) in zip(lines, outs, meta):
            if not o.startswith("ok"):
                rep.disagree(f"model cannot evaluate {name}", {"line": line})
                continue
            mv = b2f(o.split()[1])
            if not close(mv, pv):
                rep.disagree(f"{name}: model {mv!r} vs code {pv!r}", {"vec": vec, "row": row, "L": L, "line": line})
    # ---------- oracle on ExplicitRegression
    for t in range(ctx.n(500, 8000)):
        D = rng.choice([1, 3])
        M = rng.choice([1, 2, 3, 10])
        genome = G.random_stack(rng, rng.choice([2, 3, 5, 8, 12]), D, rng.choice(G.OP_SUBSETS[:8]), term_prob=0.3,
                                const_prob=0.5, int_prob=0.1, n_load=2)
        stack_l, L = G.renumber(reduce_indep(genome))
        x = np.array([[G.nice_value(rng) for _ in range(D)] for _ in range(M)])
        y = np.array([[rng.choice([-1, 1]) * rng.uniform(0.5, 3.0)] for _ in range(M)])
        cvals = [G.nice_value(rng) for _ in range(L)]
        ag = AGraph()
        ag.command_array = np.array(genome, dtype=int).reshape(-1, 3)
        if ag.get_number_local_optimization_params() != L:
            continue
        ag.set_local_optimization_params(np.array(cvals))
        rel = rng.random() < 0.4
        mname = rng.choice(list(METRICS))
        case = {"genome": genome, "x": x.tolist(), "y": y.ravel().tolist(), "consts": cvals, "metric": mname, "relative": rel}
        rep.case(("er", str(case)), any(r[0] >= 2 for r in stack_l))
        rep.count("metric", mname)
        rep.count("relative", rel)
        rep.count("M", M)
        rep.sample({k: case[k] for k in ("metric", "relative", "consts")} | {"equation": G.describe(stack_l)})
        if rng.random() < 0.3:
            # the fitness object is built on OTHER data of the same shape and the data under test is swapped in afterwards
            # (what RandomSubsetEvaluation and the fitness-predictor island do): the definitions refer to the current data
            y_other = y * rng.choice([-2.0, 0.5, 3.0]) + rng.choice([0.0, 1.0])
            y_other[np.abs(y_other) < 0.05] = 0.7
            fit = ExplicitRegression(ExplicitTrainingData(x + 0.25, y_other), metric=METRICS[mname], relative=rel)
            fit.training_data = ExplicitTrainingData(x, y)
            rep.count("training_data", "swapped in after construction")
        else:
            fit = ExplicitRegression(ExplicitTrainingData(x, y), metric=METRICS[mname], relative=rel)
            rep.count("training_data", "given to the constructor")
        with warnings.catch_warnings():
            warnings.simplefilter("ignore")
            try:
                c0 = fit.eval_count
                f1 = float(fit(ag))
                c1 = fit.eval_count
                fv = fit.evaluate_fitness_vector(ag)
                c2 = fit.eval_count
                fj = fit.get_fitness_vector_and_jacobian(ag)
                c3 = fit.eval_count
                f2, g = fit.get_fitness_and_gradient(ag)
                c4 = fit.eval_count
            except Exception as exc:
                key = "C07:raised"
                rep.violate(f"ExplicitRegression raised {type(exc).__name__}: {exc}", key, case)
                continue
        if (c1 - c0, c2 - c1, c3 - c2, c4 - c3) != (1, 1, 1, 1):
            rep.violate(f"eval_count increments {(c1 - c0, c2 - c1, c3 - c2, c4 - c3)} != (1,1,1,1)", "C07:eval-count", case)
        # both entry points must report the same fitness wherever it is finite (where the equation is non-finite the
        # gradient entry point of AGraph takes its NaN exception path: known finding F1c of C02, not a C07 matter)
        if (math.isfinite(f1) or math.isfinite(float(f2))) and not (f1 == float(f2)):
            rep.violate(f"fitness from __call__ ({f1}) differs from get_fitness_and_gradient ({f2})", "C07:fitness-paths-differ", case)
        # exact residuals and tangents
        try:
            r, Jrows, ok = [], [[] for _ in range(L)], True
            tabs_max = 0
            for i in range(M):
                if L == 0:
                    val, _, _ = mp_forward_ad(stack_l, x[i], cvals, "x", 0)
                for k in range(L):
                    val, tan, tabs = mp_forward_ad(stack_l, x[i], cvals, "c", k)
                    scale = mpmath.mpf(float(y[i, 0])) if rel else 1
                    Jrows[k].append(tan / scale)
                    tabs_max = max(tabs_max, float(tabs))
                res = val - mpmath.mpf(float(y[i, 0]))
                if rel:
                    res = res / mpmath.mpf(float(y[i, 0]))
                r.append(res)
        except NotSmooth:
            rep.count("oracle", "not smooth / skipped")
            continue
        if mname in ("rmse", "nmll") and sum(v * v for v in r) < 1e-12:
            continue
        if mname == "mae" and any(abs(v) < 1e-6 for v in r):
            grad_ok = False
        else:
            grad_ok = True
        want = mp_metric(mname, r, L)
        if not math.isfinite(f1) or abs(f1 - float(want)) > 1e-8 * max(1.0, abs(float(want))):
            rep.violate(f"fitness {f1!r} differs from the definition of {mname} on the residual ({mpmath.nstr(want, 15)})", "C07:fitness-value", case)
        else:
            rep.count("oracle", "fitness agree")
        if grad_ok and L > 0:
            for k in range(L):
                wd = float(mp_dmetric(mname, r, Jrows[k], L))
                got = float(g[k])
                scale = sum(abs(float(j)) for j in Jrows[k]) / M + abs(wd)
                if mname == "nmll":
                    scale = scale * max(1.0, M / float(sum(v * v for v in r) / M) ** 0.5)
                if not math.isfinite(got) or abs(got - wd) > 1e-6 * (scale + tabs_max * 1e-3) + 1e-9:
                    rep.violate(f"d fitness / d c{k} = {got!r}, derivative of the definition = {wd!r}", "C07:gradient-value", {**case, "k": k})
                else:
                    rep.count("oracle", "gradient agree")
    # an exact reproduction of the data has the minimal fitness
    for t in range(ctx.n(60, 600)):
        D = 2
        genome = G.random_stack(rng, rng.choice([3, 5, 8]), D, [G.ADD, G.SUB, G.MUL, G.SIN, G.COS], term_prob=0.3, const_prob=0.0, int_prob=0.2)
        ag = AGraph()
        ag.command_array = np.array(genome, dtype=int).reshape(-1, 3)
        x = np.array([[G.nice_value(rng) for _ in range(D)] for _ in range(6)])
        with warnings.catch_warnings():
            warnings.simplefilter("ignore")
            y = ag.evaluate_equation_at(x)
            if not np.isfinite(y).all():
                continue
            for mname in ("mae", "mse", "rmse"):
                v = float(ExplicitRegression(ExplicitTrainingData(x, y), metric=mname)(ag))
                rep.case(("exact", str(genome), mname), True)
                if v != 0.0:
                    rep.violate(f"an equation reproducing the data exactly has {mname} fitness {v}", "C07:not-minimal", {"genome": genome, "metric": mname})


def replay(ctx, rep, rp):
    rep.case(("replay",), True)
    rep.case(("replay2",), True)
    case = rp.get("case", {})
    if "genome" not in case or "metric" not in case:
        return
    ag = AGraph()
    ag.command_array = np.array(case["genome"], dtype=int).reshape(-1, 3)
    if "consts" in case:
        ag.set_local_optimization_params(np.array(case["consts"]))
    x = np.array(case["x"])
    y = np.array(case["y"]).reshape(-1, 1)
    fit = ExplicitRegression(ExplicitTrainingData(x, y), metric=METRICS[case["metric"]], relative=case.get("relative", False))
    f, g = fit.get_fitness_and_gradient(ag)
    print("replay: fitness", f, "gradient", g, "eval_count", fit.eval_count)
    c = np.array(case["consts"], dtype=float)
    num = []
    for k in range(len(c)):
        h = 1e-6
        cp, cm = c.copy(), c.copy()
        cp[k] += h
        cm[k] -= h
        ag.set_local_optimization_params(cp)
        fp = fit(ag)
        ag.set_local_optimization_params(cm)
        fm = fit(ag)
        num.append((fp - fm) / (2 * h))
    print("replay: finite differences", num)
    for a, b in zip(g, num):
        if abs(a - b) > 1e-3 * max(1, abs(b)):
            rep.violate("gradient differs from finite differences", rp.get("key"), case)


if __name__ == "__main__":
    harness_main("C07", run, replay)
