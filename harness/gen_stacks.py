"""Structured generators of command stacks, constants and data (all randomness from one rng)."""
import math

import numpy as np

INTEGER, VARIABLE, CONSTANT = -1, 0, 1
ADD, SUB, MUL, DIV, SIN, COS, EXP, LOG, POW, ABS, SQRT, SPOW, SINH, COSH = range(2, 16)
ALL_OPS = list(range(2, 16))
ARITY2 = {ADD, SUB, MUL, DIV, POW, SPOW}
NAMES = {-1: "int", 0: "x", 1: "c", 2: "+", 3: "-", 4: "*", 5: "/", 6: "sin", 7: "cos", 8: "exp", 9: "log", 10: "pow",
         11: "abs", 12: "sqrt", 13: "spow", 14: "sinh", 15: "cosh"}

OP_SUBSETS = [
    ALL_OPS, [ADD, SUB, MUL], [ADD, SUB, MUL, DIV], [ADD, MUL, SIN, COS], [MUL, DIV, POW], [ADD, EXP, LOG],
    [SUB, ABS, SQRT, SPOW], [ADD, MUL, SINH, COSH, EXP], [DIV, LOG, POW, SQRT], [ADD], [DIV], [POW], [SIN],
    [ADD, SUB, MUL, DIV, SIN, COS, EXP, LOG, ABS, SQRT, SINH, COSH],
]


def random_stack(rng, size, D, ops, term_prob=0.2, const_prob=0.4, int_prob=0.15, n_load=1, share_bias=0.0):
    """a WFGenome stack: constants carry p1=p2=-1 (genome form)"""
    st = []
    for i in range(size):
        terminal = i < n_load or not ops or rng.random() < term_prob
        if terminal:
            r = rng.random()
            if r < int_prob:
                v = rng.choice([-3, -2, -1, 0, 0, 1, 1, 2, 2, 3, 5, 10])
                st.append([INTEGER, v, v])
            elif D == 0 or r < int_prob + const_prob * (1 - int_prob):
                st.append([CONSTANT, -1, -1])
            else:
                j = rng.randrange(D)
                st.append([VARIABLE, j, j])
        else:
            node = rng.choice(ops)
            if share_bias and rng.random() < share_bias:
                p = rng.randrange(max(0, i - 2), i)
                st.append([node, p, p if rng.random() < 0.5 else rng.randrange(max(0, i - 2), i)])
            else:
                st.append([node, rng.randrange(i), rng.randrange(i)])
    return st


def hand_shapes(D=2):
    """adversarial shapes: maximal sharing, chains, unused rows, constant-only, every node last"""
    out = []
    # chain using previous row twice (maximal sharing)
    for node in (ADD, MUL, SUB, DIV, POW, SPOW):
        st = [[VARIABLE, 0, 0]]
        for i in range(1, 7):
            st.append([node, i - 1, i - 1])
        out.append(st)
    # every operator as last row over x0, c
    for node in ALL_OPS:
        out.append([[VARIABLE, 0, 0], [CONSTANT, -1, -1], [node, 0, 1]])
        out.append([[VARIABLE, 0, 0], [CONSTANT, -1, -1], [node, 1, 0]])
        out.append([[INTEGER, 0, 0], [INTEGER, 2, 2], [node, 0, 1]])
        out.append([[INTEGER, -2, -2], [VARIABLE, D - 1, D - 1], [node, 0, 1], [node, 2, 1]])
    # unused rows
    out.append([[VARIABLE, 0, 0], [CONSTANT, -1, -1], [DIV, 0, 0], [LOG, 2, 2], [ADD, 0, 1]])
    out.append([[CONSTANT, -1, -1], [VARIABLE, 0, 0], [EXP, 1, 1], [EXP, 2, 2], [EXP, 3, 3], [MUL, 0, 1]])
    # constant only / integer only
    out.append([[CONSTANT, -1, -1]])
    out.append([[INTEGER, 7, 7]])
    out.append([[CONSTANT, -1, -1], [CONSTANT, -1, -1], [ADD, 0, 1]])
    out.append([[INTEGER, 3, 3], [INTEGER, 0, 0], [DIV, 0, 1]])          # 3/0 python floats -> ZeroDivisionError
    out.append([[CONSTANT, -1, -1], [SUB, 0, 0], [DIV, 0, 1]])           # c/(c-c)
    out.append([[INTEGER, 0, 0], [LOG, 0, 0]])                           # log|0|
    out.append([[INTEGER, 0, 0], [INTEGER, -1, -1], [POW, 0, 1]])        # 0^-1
    out.append([[VARIABLE, 0, 0], [SUB, 0, 0], [DIV, 1, 1]])             # (x-x)/(x-x)
    out.append([[VARIABLE, 0, 0], [EXP, 0, 0], [EXP, 1, 1], [EXP, 2, 2], [EXP, 3, 3]])  # overflow
    out.append([[VARIABLE, 0, 0], [INTEGER, -2, -2], [MUL, 0, 1], [SQRT, 2, 2], [LOG, 2, 2], [ADD, 3, 4]])
    # same variable loaded in several rows, fan-out 3
    out.append([[VARIABLE, 0, 0], [VARIABLE, 0, 0], [VARIABLE, 0, 0], [MUL, 0, 1], [MUL, 3, 2], [ADD, 4, 0], [SIN, 5, 5], [ADD, 6, 3]])
    out.append([[VARIABLE, 0, 0], [CONSTANT, -1, -1], [CONSTANT, -1, -1], [MUL, 0, 1], [ADD, 3, 2], [MUL, 4, 4], [SUB, 5, 3]])
    # an addition below the root whose operands are shared with other consumers (adjoint arrays must not be aliased)
    out.append([[VARIABLE, 0, 0], [VARIABLE, D - 1, D - 1], [SIN, 0, 0], [ADD, 0, 1], [MUL, 2, 3]])                 # sin(a)*(a+b)
    out.append([[VARIABLE, 0, 0], [VARIABLE, D - 1, D - 1], [ADD, 0, 1], [EXP, 1, 1], [MUL, 2, 3], [MUL, 4, 0]])     # (a+b)*exp(b)*a
    out.append([[CONSTANT, -1, -1], [CONSTANT, -1, -1], [VARIABLE, 0, 0], [ADD, 0, 1], [SIN, 0, 0], [MUL, 3, 2], [MUL, 5, 4], [ADD, 6, 1]])
    out.append([[VARIABLE, 0, 0], [CONSTANT, -1, -1], [SUB, 0, 1], [ADD, 0, 1], [MUL, 2, 3], [COS, 1, 1], [MUL, 4, 5], [ADD, 6, 0]])
    return out


def renumber(stack):
    """AGraph._update's constant renumbering (independent re-implementation)"""
    out, k = [], 0
    for node, p1, p2 in stack:
        if node == CONSTANT:
            out.append([CONSTANT, k, k])
            k += 1
        else:
            out.append([node, p1, p2])
    return out, k


def utilized(stack):
    """independent reachability (recursive definition, not the loop of the implementation)"""
    n = len(stack)
    used = [False] * n
    todo = [n - 1]
    while todo:
        i = todo.pop()
        if used[i]:
            continue
        used[i] = True
        node, p1, p2 = stack[i]
        if node >= 2:
            todo.append(p1)
            if node in ARITY2:
                todo.append(p2)
    return used


SPECIAL = [0.0, -0.0, 1.0, -1.0, 2.0, -2.0, 0.5, -0.5, 1e-300, -1e-300, 1e300, -1e300, 3.0, 710.0, -710.0, 1e-8,
           math.pi, math.e, 100.0, -100.0]


def random_value(rng, special_prob=0.25):
    if rng.random() < special_prob:
        return rng.choice(SPECIAL)
    r = rng.random()
    if r < 0.6:
        return rng.uniform(-3, 3)
    if r < 0.9:
        return rng.uniform(-40, 40)
    return rng.choice([-1, 1]) * 10 ** rng.uniform(-12, 12)


def random_data(rng, M, D, special_prob=0.25):
    return np.array([[random_value(rng, special_prob) for _ in range(D)] for _ in range(M)], dtype=float).reshape(M, D)


def random_consts(rng, L, special_prob=0.2):
    return [random_value(rng, special_prob) for _ in range(L)]


def nice_value(rng):
    """values at which most expressions are finite and differentiable"""
    v = rng.uniform(0.3, 2.5)
    return v if rng.random() < 0.7 else -v


def describe(stack):
    return " ; ".join(f"{NAMES.get(n, n)}({a},{b})" for n, a, b in stack)


# ---------------------------------------------------------------- expression trees -> stacks (CAS-targeted shapes)
def tree_to_stack(tree, share=True):
    """tree: ("x", j) | ("i", n) | ("c",) | (node, a) | (node, a, b); equal sub-trees share a row when `share`
    (constants never share: every ("c",) is its own row)"""
    rows, memo = [], {}

    def go(t):
        key = t if (share and t[0] != "c") or t[0] == "cs" else None
        if key is not None and key in memo:
            return memo[key]
        if t[0] == "x":
            row = [VARIABLE, t[1], t[1]]
        elif t[0] == "i":
            row = [INTEGER, t[1], t[1]]
        elif t[0] == "c":
            row = [CONSTANT, -1, -1]
        elif t[0] == "cs":                      # ("cs", k): ONE constant row per k, however often it occurs (always shared)
            row = [CONSTANT, -1, -1]
        elif len(t) == 2:
            a = go(t[1])
            row = [t[0], a, a]
        else:
            a, b = go(t[1]), go(t[2])
            row = [t[0], a, b]
        rows.append(row)
        if key is not None:
            memo[key] = len(rows) - 1
        return len(rows) - 1

    go(tree)
    return rows


def collect_tree(rng, D, with_div=True, with_pow=False, with_const=False, depth=2):
    """expressions that exercise like-term / like-base collection: sums of k*T and products of T^e over a small
    pool of compound terms T (sums, products, functions of the variables), nested `depth` times"""
    def var():
        return ("x", rng.randrange(D))

    def atom():
        r = rng.random()
        if with_const and r < 0.15:
            return ("c",)
        if r < 0.25:
            return ("i", rng.choice([-2, -1, 1, 2, 3]))
        return var()

    def base_term():
        r = rng.random()
        if r < 0.3:
            return var()
        if r < 0.55:
            return (ADD, var(), atom())
        if r < 0.7:
            return (ADD, (ADD, var(), var()), atom())
        if r < 0.85:
            return (MUL, var(), atom())
        return (rng.choice([SIN, COS, EXP, ABS, SQRT, SINH]), var())

    def level(d):
        pool = [base_term() for _ in range(rng.choice([1, 2, 2, 3]))] if d == 0 else [level(d - 1) for _ in range(rng.choice([1, 2, 2]))]
        pool = pool + [var()]

        def item(kind):
            t = rng.choice(pool)
            r = rng.random()
            if kind == "sum":
                if r < 0.55:
                    return (MUL, ("i", rng.choice([-3, -2, -1, -1, 1, 2, 2, 3])), t)
                if r < 0.65 and with_const:
                    return (MUL, ("c",), t)
                return t
            if r < 0.3 and with_div:
                return (DIV, ("i", 1), t)
            if r < 0.5 and with_pow:
                return (POW, t, ("i", rng.choice([-2, -1, 2, 3])))
            return t

        kind = rng.choice(["sum", "sum", "prod"])
        items = [item(kind) for _ in range(rng.choice([2, 3, 3, 4, 5]))]
        acc = items[0]
        for it in items[1:]:
            if kind == "sum":
                op = SUB if rng.random() < 0.3 else ADD
            else:
                op = DIV if (with_div and rng.random() < 0.3) else MUL
            # random association so that nested sums/products meet in every order
            acc = (op, acc, it) if rng.random() < 0.6 or op in (SUB, DIV) else (op, it, acc)
        return acc

    return level(depth)


# ---------------------------------------------------------------- strings that stress sub-expression sharing in the parser
SHARE_OPS = {"+": ADD, "-": SUB, "*": MUL, "/": DIV, "**": POW}


def share_expr(rng, depth, atoms=None):
    """(text, tree) over very few atoms, so that the same operands meet the same (also non-commutative) operator in both
    orders and repeated sub-expressions abound; text is fully parenthesised infix in bingo/sympy syntax; tree as tree_to_stack"""
    atoms = atoms or [("X_0", ("x", 0)), ("X_1", ("x", 1)), ("2", ("i", 2)), ("3", ("i", 3))]

    def sp(op):
        # sympy and bingo print binary + and - with surrounding blanks (a "-" glued to "(" is read as a unary minus)
        return f" {op} " if op in "+-" else op

    def go(d):
        if d <= 0 or rng.random() < 0.2:
            return rng.choice(atoms)
        r = rng.random()
        if r < 0.12:
            f, node = rng.choice([("sin", SIN), ("cos", COS), ("exp", EXP), ("sinh", SINH)])
            t, tr = go(d - 1)
            return f"{f}({t})", (node, tr)
        op = rng.choice(["-", "-", "/", "/", "**", "+", "*"])
        (ta, a), (tb, b) = go(d - 1), go(d - 1)
        if rng.random() < 0.5:          # the mirrored pair next to it
            op2 = rng.choice(["+", "-", "*"])
            return (f"(({ta}){sp(op)}({tb})){sp(op2)}(({tb}){sp(op)}({ta}))", (SHARE_OPS[op2], (SHARE_OPS[op], a, b), (SHARE_OPS[op], b, a)))
        return f"({ta}){sp(op)}({tb})", (SHARE_OPS[op], a, b)

    return go(depth)


# ---------------------------------------------------------------- "twin" expressions (equality / hashing of CAS expressions)
TWIN_PAIRS = [(-1, -2), (-2, -1), (1, 2), (2, 3), (0, 1), (-1, 1), (2, -2), (-3, -2), (1, -1), (3, -1)]


def twin_tree(rng, D):
    """two compound terms that are IDENTICAL except for one integer leaf (n in one, m in the other), combined as siblings of a
    sum / product / quotient (possibly with coefficients, possibly under a function): like-term and like-base collection must keep
    them apart.  Pairs include (-1, -2), whose CPython hashes collide."""
    HOLE = ("hole",)

    def var():
        return ("x", rng.randrange(D))

    def ctx_small():
        k = rng.randrange(9)
        a, b = var(), var()
        if k == 0:
            return (POW, a, HOLE)                       # x^n
        if k == 1:
            return (DIV, a, (POW, b, HOLE))             # a / x^n
        if k == 2:
            return (MUL, HOLE, a)                       # n*x
        if k == 3:
            return (SUB, a, (MUL, HOLE, b))             # a - n*b
        if k == 4:
            return (ADD, a, HOLE)                       # a + n
        if k == 5:
            return (SIN, (SUB, a, (MUL, HOLE, b)))      # sin(a - n*b)
        if k == 6:
            return (MUL, a, (POW, (ADD, a, b), HOLE))   # a*(a+b)^n
        if k == 7:
            return (DIV, (ADD, a, HOLE), b)             # (a+n)/b
        return (POW, (MUL, a, b), HOLE)                 # (a*b)^n

    def fill(t, n):
        if t == HOLE:
            return ("i", n)
        if t[0] in ("x", "i", "c"):
            return t
        return (t[0],) + tuple(fill(c, n) for c in t[1:])
    T = ctx_small()
    if rng.random() < 0.3:
        T = rng.choice([lambda u: (SIN, u), lambda u: (MUL, var(), u), lambda u: (DIV, var(), u), lambda u: (COS, u)])(T)
    n, m = rng.choice(TWIN_PAIRS)
    t1, t2 = fill(T, n), fill(T, m)
    k = rng.randrange(7)
    if k == 0:
        return (ADD, t1, t2)
    if k == 1:
        return (SUB, t1, t2)
    if k == 2:
        return (MUL, t1, t2)
    if k == 3:
        return (DIV, t1, t2)
    if k == 4:
        return (ADD, (MUL, var(), t1), (MUL, var(), t2))
    if k == 5:
        return (ADD, (ADD, t1, var()), t2)
    return (SUB, (MUL, ("i", rng.randrange(2, 4)), t1), t2)


def shared_const_tree(rng, D):
    """sums in which the SAME few constants occur several times: together inside constant-only sub-expressions (plain, under a
    function, as an exponent), and on their own with a sign / an integer factor / an integer power next to variables.  Constant
    folding may replace a constant-only sub-expression only if that loses no freedom; every occurrence counts."""
    k = rng.choice([2, 2, 3])
    cs = [("cs", j) for j in range(k)]

    def var():
        return ("x", rng.randrange(D))

    def const_only():
        a, b = rng.sample(cs, 2)
        t = rng.choice([(ADD, a, b), (MUL, a, b), (SUB, a, b), (DIV, a, b), (ADD, (MUL, ("i", 2), a), b)])
        w = rng.random()
        if w < 0.45:
            return rng.choice([(SIN, t), (COS, t), (EXP, t)])
        if w < 0.6:
            return (POW, var(), t)
        return t

    def solo():
        c = rng.choice(cs)
        w = rng.randrange(6)
        if w == 0:
            return (MUL, c, var())
        if w == 1:
            return (MUL, (MUL, ("i", rng.choice([2, 3, -1])), c), var())
        if w == 2:
            return (SUB, ("i", 0), (MUL, c, var()))
        if w == 3:
            return (MUL, (MUL, c, c), var())
        if w == 4:
            return (MUL, (POW, c, ("i", rng.choice([2, 3]))), var())
        return (ADD, c, var())
    terms = [const_only()] + [solo() for _ in range(rng.randrange(1, 4))]
    if rng.random() < 0.4:
        terms.append((MUL, const_only(), var()))
    rng.shuffle(terms)
    t = terms[0]
    for u in terms[1:]:
        t = (rng.choice([ADD, ADD, SUB]), t, u)
    return t
