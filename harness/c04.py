"""C04 -- generation, mutation and crossover yield well-formed equations, parents intact.

K: `harness/c04_diff.py` -- the real AGraphGenerator / AGraphMutation (five kinds, forced and mixed) /
AGraphCrossover under draw logging against `Var.generate / mutate / crossover`, which are pure functions of
(configuration, parent(s), draws): identical child stacks, identical number of draws consumed, `out-of-draws`
exactly when the real rejection loop was still asking for more, `bad-draw` probes at every draw's bound.
Oracle on the real objects (independent): configured size, operator rows reference earlier rows only, loads
exist, only enabled operators, child evaluates / prints / simplifies without error, parents bit-identical
afterwards, mutant age = parent age, crossover children age = max, a child whose stack differs from its
parent's is not marked evaluated, termination within a watchdog on non-degenerate configurations.
"""
import json
import os
import subprocess
import sys
import tempfile
import warnings

import numpy as np

from bingo.symbolic_regression.agraph.agraph import AGraph
from bingo.symbolic_regression.agraph.component_generator import ComponentGenerator
from bingo.symbolic_regression.agraph.crossover import AGraphCrossover
from bingo.symbolic_regression.agraph.generator import AGraphGenerator
from bingo.symbolic_regression.agraph.mutation import AGraphMutation

from harness import gen_stacks as G
from harness.common import harness_main, VERIF, REPO


class Timeout(BaseException):        # BaseException: np.array_equal swallows Exception
    pass


class watchdog:
    def __init__(self, seconds):
        self.seconds = seconds

    def _h(self, *_):
        import signal
        signal.setitimer(signal.ITIMER_REAL, 0.2)      # re-arm: the exception may be swallowed once
        raise Timeout()

    def __enter__(self):
        import signal
        self.old = signal.signal(signal.SIGALRM, self._h)
        signal.setitimer(signal.ITIMER_REAL, self.seconds)

    def __exit__(self, *a):
        import signal
        signal.setitimer(signal.ITIMER_REAL, 0)
        signal.signal(signal.SIGALRM, self.old)
        return False


def degenerate(D, cp, tp, n_ops_effective, op, size):
    """configurations on which the rejection loops / index draws of the current code are known not to work (finding F7)"""
    if D == 0 or cp in (0, 0.0, 1, 1.0) or n_ops_effective <= 1:
        return True
    if op == "crossover" and size <= 2:
        return True
    return False


def wf(stack, D, ops, size):
    if len(stack) != size:
        return f"size {len(stack)} != {size}"
    for i, (node, p1, p2) in enumerate(stack):
        if node == G.VARIABLE:
            if not 0 <= p1 < D:
                return f"row {i} loads variable {p1} of {D}"
        elif node in (G.CONSTANT, G.INTEGER):
            pass
        elif node in ops:
            if not (0 <= p1 < i and 0 <= p2 < i):
                return f"row {i} references row {p1}/{p2}"
        else:
            return f"row {i} uses operator {node} which is not enabled"
    return None


def snapshot(ag):
    return (np.array(ag.command_array, copy=True).tolist(), ag.genetic_age, ag.fitness, ag.fit_set, tuple(ag.constants))


STAGE = {"now": ""}      # what the real code was doing when a watchdog fired


PARENT_STATES = ["evaluated", "evaluated, cache valid", "cache valid, flag cleared (reset_fitness)", "printed, never evaluated"]


def put_in_state(ind, state, fitness):
    """the states in which variation meets its parents in a run: evaluated; evaluated and read (cached simplified stack valid);
    read, evaluated, then `fit_set = False` (Island.reset_fitness after a migration / predictor update, VarOr replication);
    printed or logged but never evaluated"""
    if state == "evaluated":
        ind.fitness = fitness
    elif state == "evaluated, cache valid":
        ind.get_complexity()
        ind.fitness = fitness
    elif state == "cache valid, flag cleared (reset_fitness)":
        ind.get_complexity()
        ind.fitness = fitness
        ind.fit_set = False
    else:
        str(ind)


def real_oracle(ctx, rep):
    rng = ctx.rng
    for t in range(ctx.n(400, 6000)):
        D = rng.choice([1, 2, 5])
        ops = rng.sample(G.ALL_OPS, rng.randrange(2, 7))
        size = rng.choice([1, 2, 3, 3, 5, 8, 12, 20, 40])     # the generator accepts every size >= 1
        tp = rng.choice([0.1, 0.3, 0.5])
        cp = rng.choice([None, 0.3, 0.6])
        nload = rng.choice([1, 2])
        np.random.seed(rng.randrange(2 ** 31))
        import random as pyrandom
        pyrandom.seed(rng.randrange(2 ** 31))
        kw = {} if cp is None else {"constant_probability": cp}
        cg = ComponentGenerator(D, num_initial_load_statements=nload, terminal_probability=tp, **kw)
        for o in ops:
            cg.add_operator(int(o))
        gen = AGraphGenerator(size, cg)
        case = {"D": D, "ops": ops, "size": size, "tp": tp, "cp": cp, "n_load": nload}
        try:
            with watchdog(5.0):
                with warnings.catch_warnings():
                    warnings.simplefilter("ignore")
                    STAGE["now"] = "generation"
                    a, b = gen(), gen()
                    for parent in (a, b):
                        why = wf(parent.command_array.tolist(), D, ops, size)
                        if why:
                            rep.violate(f"generator: {why}", "C04:generator-ill-formed", {**case, "stack": parent.command_array.tolist()})
                    a.genetic_age, b.genetic_age = rng.randrange(0, 9), rng.randrange(0, 9)
                    a.fitness, b.fitness = 1.5, 2.5
                    kinds = [(1, 0, 0, 0, 0), (0, 1, 0, 0, 0), (0, 0, 1, 0, 0), (0, 0, 0, 1, 0), (0, 0, 0, 0, 1), (.2, .2, .2, .2, .2)]
                    for probs in kinds:
                        mut = AGraphMutation(cg, *probs)
                        for _ in range(3):
                            state = rng.choice(PARENT_STATES)
                            put_in_state(a, state, 1.5)
                            rep.count("parent_state", state)
                            before = snapshot(a)
                            STAGE["now"] = "mutation"
                            child = mut(a)
                            rep.case(("mut", str(before[0]), probs, str(child.command_array.tolist())), True)
                            rep.count("mutation", mut.last_mutation_type)
                            check_child(rep, case, "mutation " + str(mut.last_mutation_type), child, [a], [before], D, ops, size, a.genetic_age)
                            a = child if rng.random() < 0.7 else a
                            a.fitness = 1.5
                    if size < 3:
                        continue            # AGraphCrossover raises ValueError for sizes <= 2 (finding F7)
                    cx = AGraphCrossover()
                    for parent, fitv in ((a, 1.5), (b, 2.5)):
                        state = rng.choice(PARENT_STATES)
                        put_in_state(parent, state, fitv)
                        rep.count("parent_state", state)
                    ba, bb = snapshot(a), snapshot(b)
                    STAGE["now"] = "crossover"
                    c1, c2 = cx(a, b)
                    rep.count("crossover")
                    for c, own in ((c1, ba), (c2, bb)):
                        check_child(rep, case, "crossover", c, [a, b], [ba, bb], D, ops, size, max(a.genetic_age, b.genetic_age), own_parent=own)
                    # crossover between relatives (identical tails / identical stacks / differences only near the top or
                    # the bottom) of different ages, evaluated parents: the object-level model (C04.crossover_children) says
                    # both children get the larger age and are marked not evaluated whatever the cut
                    for variant in range(4):
                        rel = a.copy()
                        if variant == 1:
                            rel = AGraphMutation(cg, 0, 0, 1, 0, 0)(a)
                        elif variant == 2:
                            rel.mutable_command_array[0] = (G.INTEGER, 7, 7)
                        elif variant == 3 and size >= 2:
                            rel.mutable_command_array[size - 1] = (G.INTEGER, 7, 7) if size == 1 else a.command_array[size - 2]
                        rel.genetic_age = a.genetic_age + 1 + rng.randrange(5)
                        rel.fitness, a.fitness = 0.25, 1.5
                        pa, pr = (a, rel) if rng.random() < 0.5 else (rel, a)
                        bpa, bpr = snapshot(pa), snapshot(pr)
                        STAGE["now"] = "crossover"
                        c1, c2 = cx(pa, pr)
                        rep.count("crossover_relatives", f"variant {variant}")
                        rep.case(("cxrel", str(bpa[0]), str(bpr[0]), str(c1.command_array.tolist())), True)
                        for c, own in ((c1, bpa), (c2, bpr)):
                            check_child(rep, case, f"crossover of relatives (variant {variant})", c, [pa, pr], [bpa, bpr], D, ops, size,
                                        max(pa.genetic_age, pr.genetic_age), own_parent=own)
                            if c.fit_set or c.fitness is not None:
                                rep.disagree("crossover child keeps fit_set / fitness (the regenerated body clears both through the "
                                             "mutable view whatever the cut)", {**case, "child": c.command_array.tolist(), "parents": [bpa[0], bpr[0]]})
        except Timeout:
            if STAGE["now"].startswith("usability"):
                # the child was produced; printing / simplifying it took too long (nested powers make the algebraic simplifier expand
                # huge integer powers: a resource question of the CAS, see C03) - not a statement about the variation operators
                rep.count("usability_check_timeout")
            else:
                rep.violate(f"{STAGE['now']} did not terminate within 5 s on a non-degenerate configuration", "C04:hang", case)
        except Exception as exc:
            rep.violate(f"{type(exc).__name__}: {exc} on a non-degenerate configuration", "C04:raised", case)


def check_child(rep, case, what, child, parents, before, D, ops, size, want_age, own_parent=None):
    stack = child.command_array.tolist()
    why = wf(stack, D, ops, size)
    c = {**case, "what": what, "child": stack, "parents": [b[0] for b in before]}
    if why:
        rep.violate(f"{what}: child is ill-formed: {why}", "C04:child-ill-formed", c)
        return
    for p, b in zip(parents, before):
        if snapshot(p) != b:
            rep.violate(f"{what}: a parent was modified", "C04:parent-modified", c)
    if child.genetic_age != want_age:
        rep.violate(f"{what}: child age {child.genetic_age}, expected {want_age}", "C04:age", c)
    own = before[0] if own_parent is None else own_parent
    if stack != own[0] and child.fit_set:
        rep.violate(f"{what}: child differs from its parent but is marked evaluated", "C04:stale-flag", c)
    STAGE["now"] = "usability check of the child (evaluate, print, simplify)"
    try:
        x = np.array([[0.7] * max(D, 1), [1.3] * max(D, 1)])
        with np.errstate(all="ignore"):
            got = child.evaluate_equation_at(x)
            text = str(child)
            # the child must behave as its OWN stack dictates (no cached simplified stack / constants of the parent may
            # survive the modification): compare with a freshly built equation carrying the same stack and constants
            fresh = AGraph(use_simplification=False)
            fresh.command_array = np.array(stack, dtype=int)
            nfresh = fresh.get_number_local_optimization_params()
            if nfresh == child.get_number_local_optimization_params():
                fresh.set_local_optimization_params(list(child.constants))
            want = fresh.evaluate_equation_at(x)
            if nfresh != child.get_number_local_optimization_params() or str(fresh) != text or fresh.get_complexity() != child.get_complexity() \
                    or not np.array_equal(np.asarray(got), np.asarray(want), equal_nan=True):
                rep.violate(f"{what}: the child does not behave as its own stack dictates (stale cached state): prints {text!r}, a fresh "
                            f"equation with the same stack prints {str(fresh)!r}", "C04:child-stale-cache", c)
            child.get_formatted_string("sympy")
            s = AGraph(use_simplification=True)
            s.command_array = np.array(stack, dtype=int)
            s.get_complexity()
    except Exception as exc:
        rep.violate(f"{what}: child cannot be evaluated / printed / simplified: {type(exc).__name__}: {exc}", "C04:child-unusable", c)


def run(ctx, rep):
    rep.rule = ("(K) c04_diff: D in {0,1,2,5}, every non-empty operator subset of size <= 3 plus the full set and arity-1-only sets, random weights incl. "
                "zeros, terminal/constant probabilities incl. 0 and 1, sizes 1..40, parents reached by 0..30 variations, each mutation kind forced "
                "and mixed, crossover; (oracle) non-degenerate configurations on real objects with parents in every state (evaluated, cache valid, flag cleared by reset_fitness, printed only); distinct = distinct (configuration, parent, draws)")
    rep.assumptions = ["the random draws are oracle inputs (logged at the API bingo calls); the theorems quantify over all draw lists"]
    out = tempfile.mktemp(suffix=".json")
    env = dict(os.environ)
    env["C04_JSON"] = out
    env["PYTHONPATH"] = REPO + os.pathsep + VERIF
    n = ctx.n(2500, 30000)
    if ctx.driver_ok:
        p = subprocess.run([sys.executable, os.path.join(VERIF, "harness", "c04_diff.py"), str(n), str(ctx.seed + 1)],
                           stdout=subprocess.PIPE, stderr=subprocess.STDOUT, env=env, timeout=3 * 3600 if ctx.thorough() else 1200)
        if not os.path.exists(out):
            rep.disagree("c04_diff.py produced no summary: " + p.stdout.decode()[-300:], {})
        else:
            d = json.load(open(out))
            os.remove(out)
            rep.corr_cases = d["model_lines"]
            rep.evaluations += d["n_done"]
            for i in range(d["n_done"]):
                rep.distinct.add(("k", i).__repr__().encode())      # each real call has its own (configuration, parent, draws)
            rep.distribution["k_cases"] = d["cases"]
            rep.distribution["k_checks"] = d["checks"]
            rep.distribution["k_outcomes"] = d["outcomes"]
            rep.distribution["k_hangs"] = d["hangs"]
            rep.distribution["k_exceptions"] = d["exceptions"]
            rep.distribution["k_branch_coverage"] = d["coverage"]
            for m in d["mismatches"]:
                labels = [b.get("label") for b in m["bad"]]
                case = {"case": m["case"], "real": m["real"], "details": m["bad"][:2]}
                if "wf-oracle" in labels:
                    rep.violate("a child produced by the real code is not well-formed", "C04:child-ill-formed", case)
                elif any("parents" in str(b) for b in m["bad"]):
                    rep.violate("a parent was modified", "C04:parent-modified", case)
                else:
                    rep.disagree("model and code disagree: " + str(m["bad"][0])[:200], case)
            # hangs / exceptions: known finding only on degenerate configurations
            for key, info in d["defects"].items():
                for ex in info["examples"][:2]:
                    try:
                        c = eval(ex, {"__builtins__": {}}, {"None": None, "True": True, "False": False})
                    except Exception:
                        c = {"raw": ex}
                    cfg = c.get("cfg", {})
                    w = cfg.get("weights") or []
                    wnum = [1.0 if x is None else float(x) for x in w]
                    # operators that are drawn with non-negligible probability (a weight of 0.001 next to 3 makes the rejection
                    # loop of node mutation practically endless: thousands of draws)
                    eff = sum(1 for x in wnum if x > 0.01 * max(wnum)) if wnum and max(wnum) > 0 else len(cfg.get("ops", []))
                    size = len(c.get("parent") or []) or (c.get("size") or 0)
                    unequal = c.get("op") == "crossover" and c.get("parent2") is not None and len(c["parent2"]) != len(c.get("parent") or [])
                    tp1_single = cfg.get("tp") in (0, 0.0)
                    if degenerate(cfg.get("D"), cfg.get("cp"), cfg.get("tp"), eff, c.get("op"), size) or unequal or tp1_single or not cfg.get("ops"):
                        rep.violate(f"{key}: {info['count']} cases", "C04:F7-degenerate-configuration", c)
                    else:
                        rep.violate(f"{key} on a non-degenerate configuration", "C04:hang-or-exception", c)
            rep.sample({"k_summary": {k: d[k] for k in ("n_done", "model_lines", "configs")}})
    real_oracle(ctx, rep)


def replay(ctx, rep, rp):
    rep.case(("replay",), True)
    rep.case(("replay2",), True)
    real_oracle(ctx, rep)


if __name__ == "__main__":
    harness_main("C04", run, replay)
