"""C20 -- implicit regression: exact cubic derivatives, scale-invariant fitness.

K: the effective weights of the real `_savitzky_golay_gram` (extracted black-box with unit impulses) against the
model's exact rationals; `_calculate_partials` / `ImplicitTrainingData` on random rational-valued trajectories
(1-4 columns, 1-4 NaN-separated segments of length 7..30) against the model: retained indices exactly,
derivatives to 1e-9; one row of the implicit fitness against `implicitRow`.
Oracle: cubic trajectories give exactly (1e-9) their derivative at the retained rows; retained rows = rows minus
the first 3 and last 4 of each segment; changing one segment never changes another segment's output;
`ImplicitRegression` fitness in [0,1] or non-finite, unchanged under multiplication of the equation by a
non-zero constant, zero for an exact invariant.
"""
import math
import warnings
from fractions import Fraction

import numpy as np

from bingo.symbolic_regression import implicit_regression as ir
from bingo.symbolic_regression.agraph.agraph import AGraph
from bingo.symbolic_regression.implicit_regression import ImplicitRegression, ImplicitTrainingData

from harness import gen_stacks as G
from harness.common import harness_main, run_driver


def frac_str(f):
    f = Fraction(f)
    return f"{f.numerator}/{f.denominator}"


def rows_str(x):
    out = []
    for row in x:
        if any(v is None for v in row):
            out.append("nan")
        else:
            out.append(",".join(frac_str(v) for v in row))
    return "|".join(out)


def to_np(x):
    return np.array([[float("nan") if v is None else float(v) for v in row] for row in x], dtype=float)


def gen_trajectory(rng, cubic):
    D = rng.randrange(1, 5)
    nseg = rng.randrange(1, 5)
    x = []
    segs = []
    truth = []
    for s in range(nseg):
        L = rng.choice([7, 8, 8, 9, 12, 20, 30]) if rng.random() < 0.9 else 0
        start = len(x)
        den = rng.choice([1, 1, 2, 4])
        coef = [[Fraction(rng.randrange(-6, 7), den) for _ in range(4)] for _ in range(D)]
        for t in range(L):
            if cubic:
                row = [c[0] + c[1] * t + c[2] * t * t + c[3] * t ** 3 for c in coef]
                truth.append([c[1] + 2 * c[2] * t + 3 * c[3] * t * t for c in coef])
            else:
                row = [Fraction(rng.randrange(-40, 41), rng.choice([1, 1, 2, 4, 8])) for _ in range(D)]
                truth.append(None)
            x.append(row)
        segs.append((start, len(x)))
        if s < nseg - 1:
            # a separator is a row with a NaN in ANY column (often the time column is kept and only the signal is NaN)
            if D == 1 or rng.random() < 0.5:
                sep = [None] * D
            else:
                holes = set(rng.sample(range(D), rng.randrange(1, D)))
                if rng.random() < 0.6:
                    holes.discard(0)
                    holes = holes or {rng.randrange(1, D)}
                sep = [None if j in holes else Fraction(rng.randrange(-40, 41), 1) for j in range(D)]
            x.append(sep)
            truth.append(None)
    return x, segs, truth, D


def run(ctx, rep):
    rng = ctx.rng
    rep.rule = ("trajectories with 1-4 columns and 1-4 segments (lengths 0,7..30) separated by rows with a NaN in all or only some columns, rational samples (exact in binary64), cubic and "
                "arbitrary; unit impulses for the weights; random equations x scale factors for the fitness; distinct = distinct inputs; "
                "non-trivial = at least one retained row")
    rep.assumptions = ["binary64 evaluation of the Gram-polynomial weights and of the convolution agrees with exact rationals to 1e-9 (validated)"]
    rep.validated_only = ["floating-point accuracy of the derivative estimates (1e-9)"]
    lines, meta = [], []
    # ---------- weights: black-box impulse responses of the real filter on a length-15 series
    n = 15
    resp = np.zeros((n, n))
    for k in range(n):
        e = np.zeros(n)
        e[k] = 1.0
        resp[:, k] = ir._savitzky_golay_gram(e, 7, 3, 1)
    rep.case(("impulses",), True)
    if ctx.driver_ok:
        lines.append("sgweights ; 3 ; 3 ; 1")
        meta.append(("weights", resp, None))
    # ---------- trajectories
    for t in range(ctx.n(500, 6000)):
        cubic = rng.random() < 0.5
        x, segs, truth, D = gen_trajectory(rng, cubic)
        if not x:
            continue
        xn = to_np(x)
        int_input = False
        if all(v is not None and v.denominator == 1 for row in x for v in row) and rng.random() < 0.5:
            xn = np.array([[int(v) for v in row] for row in x], dtype=int)      # counts / ticks: integer dtype input
            int_input = True
        case = {"rows": rows_str(x), "segments": segs, "cubic": cubic, "integer_dtype": int_input}
        try:
            with warnings.catch_warnings():
                warnings.simplefilter("ignore")
                x_all, d_all, inds = ir._calculate_partials(xn)
            status = "ok"
        except IndexError:
            status = "err"
        except Exception as exc:
            status = "raise:" + type(exc).__name__
        want_inds = [i for (a, b) in segs for i in range(a + 3, b - 4)]
        rep.case(("traj", case["rows"]), len(want_inds) > 0)
        rep.count("segments", len(segs))
        rep.count("status", status)
        rep.sample({"segments": segs, "columns": D, "cubic": cubic, "retained": want_inds[:10]})
        short = any(0 < b - a < 7 for a, b in segs)
        if status == "ok":
            got_inds = [int(i) for i in inds]
            if got_inds != want_inds:
                rep.violate(f"retained rows {got_inds} differ from 'all rows minus the first 3 and last 4 of each trajectory' {want_inds}",
                            "C20:retained-rows", case)
            elif cubic:
                for r_, i in enumerate(got_inds):
                    w = truth[i]
                    if any(abs(float(d_all[r_, j]) - float(w[j])) > 1e-9 * max(1.0, abs(float(w[j]))) for j in range(D)):
                        rep.violate(f"row {i}: estimated derivative {d_all[r_].tolist()} of a cubic trajectory differs from the exact {[float(v) for v in w]}",
                                    "C20:cubic-not-exact", case)
                        break
            # independence: perturb one segment, others unchanged
            if len(segs) >= 2 and got_inds == want_inds:
                k = rng.randrange(len(segs))
                a, b = segs[k]
                if b > a:
                    x2 = xn.astype(float)
                    x2[a:b, :] += rng.uniform(1, 5)
                    _, d2, inds2 = ir._calculate_partials(x2)
                    keep = [r_ for r_, i in enumerate(got_inds) if not (a <= i < b)]
                    if not np.array_equal(d_all[keep], d2[keep]):
                        rep.violate("changing the samples of one trajectory changed the derivatives of another", "C20:segments-interfere", case)
        elif status == "err" and not short:
            rep.violate("IndexError although every trajectory has at least 7 rows", "C20:raised", case)
        elif status.startswith("raise"):
            rep.violate(f"_calculate_partials raised ({status})", "C20:raised", case)
        if ctx.driver_ok and status in ("ok", "err"):
            lines.append(f"partials ; 3 ; 3 ; 1 ; 3 ; 4 ; {case['rows']}")
            meta.append(("partials", (status, None if status != "ok" else ([int(i) for i in inds], d_all.tolist())), case))
    # ---------- implicit fitness rows
    for t in range(ctx.n(300, 3000)):
        d = [Fraction(rng.randrange(-8, 9), rng.choice([1, 2, 4])) if rng.random() < 0.85 else Fraction(0) for _ in range(rng.randrange(1, 5))]
        if rng.random() < 0.1:
            d = [Fraction(0)] * len(d)
        if rng.random() < 0.15 and len(d) >= 2:
            d[-1] = -sum(d[:-1])
        dot = np.array([[float(v) for v in d]])
        with np.errstate(all="ignore"):
            denom = np.sum(np.abs(dot), axis=1)
            val = (np.sum(dot, axis=1) / denom)[0]
        rep.case(("row", tuple(d)), True)
        if ctx.driver_ok:
            lines.append("implicitrow ; " + " ".join(frac_str(v) for v in d))
            meta.append(("row", float(val), {"dot": [str(v) for v in d]}))
    # ---------- the whole fitness vector through the real ImplicitRegression object, with and without `required_params`
    from bingo.symbolic_regression.implicit_regression import ImplicitRegression, ImplicitTrainingData

    class UnitGradient:
        """an 'equation' whose x-gradient is 1 everywhere: df_dx * dx_dt = dx_dt, so the rows of dx_dt are the dot products"""
        def evaluate_equation_with_x_gradient_at(self, x):
            return np.zeros((x.shape[0], 1)), np.ones_like(x)

    for t in range(ctx.n(200, 2000)):
        ncol = rng.randrange(1, 5)
        nrow = rng.randrange(1, 5)
        dots = [[Fraction(rng.randrange(-6, 7), rng.choice([1, 2, 4])) if rng.random() < 0.7 else Fraction(0) for _ in range(ncol)] for _ in range(nrow)]
        if rng.random() < 0.3:
            for r in dots:                       # rows of an exact invariant
                if len(r) >= 2:
                    r[-1] = -sum(r[:-1])
        req = rng.choice([None, None, 1, 2, 3, 4])
        arr = np.array([[float(v) for v in r] for r in dots]).reshape(nrow, ncol)
        td = ImplicitTrainingData(np.zeros_like(arr), arr)
        reg = ImplicitRegression(td, required_params=req)
        with np.errstate(all="ignore"):
            vec = reg.evaluate_fitness_vector(UnitGradient())
        case = {"dots": [[str(v) for v in r] for r in dots], "required_params": req}
        rep.case(("vec", str(case)), req is not None)
        rep.count("implicit_vector", f"required_params={req}")
        # direct oracle: an exact-invariant row is zero whenever SOME row uses at least `required_params` terms
        enough = req is None or any(sum(1 for v in r if v != 0) >= req for r in dots)
        for r, v in zip(dots, vec):
            if enough and sum(r) == 0 and any(x != 0 for x in r) and not (abs(float(v)) < 1e-12):
                rep.violate(f"an exact-invariant row has implicit fitness {float(v)} (required_params={req}, some row uses enough terms)",
                            "C20:invariant-not-zero", case)
                break
        if ctx.driver_ok:
            lines.append(f"implicitvec ; {'none' if req is None else req} ; " + " | ".join(" ".join(frac_str(v) for v in r) for r in dots))
            meta.append(("vec", [float(v) for v in vec], case))
    if ctx.driver_ok:
        outs = run_driver(lines)
        rep.corr_cases = len(lines)
        for line, o, (kind, want, case) in zip(lines, outs, meta):
            if kind == "vec":
                got = o.split()[1:] if o.startswith("ok") else None
                if got is None or len(got) != len(want):
                    rep.disagree(f"implicit fitness vector: model {o[:80]} vs code {want}", case)
                else:
                    for g, w in zip(got, want):
                        if (g == "nonfinite") != (not math.isfinite(w)) or (g != "nonfinite" and abs(float(Fraction(g)) - w) > 1e-12):
                            rep.disagree(f"implicit fitness vector: model {got} vs code {want}", case)
                            break
            elif kind == "weights":
                w = [[Fraction(t) for t in row.split()] for row in o[3:].split(" | ")]
                resp = want
                n = resp.shape[0]
                for i in range(n):
                    if i < 3:
                        center, col = 3, i
                    elif n - i <= 3:
                        center, col = n - 4, 7 - (n - i)
                    else:
                        center, col = i, 3
                    for a in range(7):
                        if abs(resp[i, center + a - 3] - float(w[a][col])) > 1e-12:
                            rep.disagree(f"impulse response at output {i}, tap {a}: code {resp[i, center + a - 3]!r} vs model {w[a][col]}", {})
                            break
            elif kind == "partials":
                status, data = want
                if status == "err":
                    if o != "err":
                        rep.disagree(f"code raised IndexError, model returned {o[:60]}", case)
                    continue
                if not o.startswith("ok"):
                    rep.disagree(f"model error but the code returned rows", case)
                    continue
                head, _, body = o[3:].partition(" ; ")
                minds = [int(v) for v in head.split()]
                mrows = [[Fraction(v) for v in r.split()] for r in body.split(" | ")] if body.strip() else []
                inds, d_all = data
                if minds != inds:
                    rep.disagree(f"retained indices: model {minds} vs code {inds}", case)
                elif any(abs(float(a) - b) > 1e-9 * max(1.0, abs(b)) for ra, rb in zip(mrows, d_all) for a, b in zip(ra, rb)):
                    rep.disagree("derivative rows differ between model (exact) and code by more than 1e-9", case)
            else:
                if o == "nonfinite":
                    if math.isfinite(want):
                        rep.disagree(f"implicit row: model non-finite, code {want}", case)
                else:
                    mv = float(Fraction(o.split()[1]))
                    if not math.isfinite(want) or abs(mv - want) > 1e-12:
                        rep.disagree(f"implicit row: model {mv} vs code {want}", case)
    fitness_oracle(ctx, rep)


def fitness_oracle(ctx, rep):
    rng = ctx.rng
    for t in range(ctx.n(150, 1500)):
        D = rng.choice([2, 3])
        M = rng.choice([8, 12])
        tt = np.linspace(0, 1, M + 7)
        x = np.array([[math.sin(1.3 * v + j) + 0.2 * j * v for j in range(D)] for v in tt])
        with warnings.catch_warnings():
            warnings.simplefilter("ignore")
            data = ImplicitTrainingData(x)
        genome = G.random_stack(rng, rng.choice([3, 5, 8]), D, [G.ADD, G.SUB, G.MUL, G.SIN], term_prob=0.35, const_prob=0.0, int_prob=0.1, n_load=2)
        a1, a2 = AGraph(), AGraph()
        a1.command_array = np.array(genome, dtype=int).reshape(-1, 3)
        if rng.random() < 0.5:
            alpha = rng.choice([-3, -1, 2, 5])
            scaled = [list(r) for r in genome] + [[G.INTEGER, alpha, alpha], [G.MUL, len(genome) - 1, len(genome)]]
            a2.command_array = np.array(scaled, dtype=int).reshape(-1, 3)
        else:
            # any non-zero factor, also very small and very large ones (the fitness is a ratio: it has no scale)
            alpha = rng.choice([1e-24, -1e-20, 1e-12, -3e-7, 0.5, 1e6, -1e15, 1e24])
            scaled = [list(r) for r in genome] + [[G.CONSTANT, 0, 0], [G.MUL, len(genome) - 1, len(genome)]]
            a2.command_array = np.array(scaled, dtype=int).reshape(-1, 3)
            a2.set_local_optimization_params([alpha])
            rep.count("implicit_scale_factor", f"{alpha:.0e}")
        fit = ImplicitRegression(data)
        with warnings.catch_warnings():
            warnings.simplefilter("ignore")
            with np.errstate(all="ignore"):
                f1, f2 = float(fit(a1)), float(fit(a2))
        case = {"genome": genome, "alpha": alpha, "f": f1, "f_scaled": f2}
        rep.case(("fitness", str(genome), alpha), True)
        rep.count("implicit_fitness", "finite" if math.isfinite(f1) else "nonfinite")
        if math.isfinite(f1) and not (0.0 <= f1 <= 1.0 + 1e-12):
            rep.violate(f"implicit fitness {f1} outside [0, 1]", "C20:fitness-range", case)
        if math.isfinite(f1) != math.isfinite(f2) or (math.isfinite(f1) and abs(f1 - f2) > 1e-9):
            rep.violate(f"implicit fitness changed from {f1} to {f2} when the equation was multiplied by {alpha}", "C20:not-scale-invariant", case)
    # the same fitness object used on different data of the same shape (what RandomSubsetEvaluation and predictor islands do)
    for t in range(ctx.n(60, 600)):
        D = 2
        tt = np.linspace(0, 1, 19)
        xa = np.array([[math.sin(1.3 * v + j) + 0.2 * j * v for j in range(D)] for v in tt])
        xb = np.array([[5.0 * math.cos(2.1 * v + j) + 3.0 * v * (j + 1) for j in range(D)] for v in tt])
        with warnings.catch_warnings():
            warnings.simplefilter("ignore")
            da, db = ImplicitTrainingData(xa), ImplicitTrainingData(xb)
        genome = G.random_stack(rng, rng.choice([3, 5, 8]), D, [G.ADD, G.SUB, G.MUL, G.SIN], term_prob=0.35, const_prob=0.0, int_prob=0.1, n_load=2)
        ag = AGraph()
        ag.command_array = np.array(genome, dtype=int).reshape(-1, 3)
        fit = ImplicitRegression(da)
        with warnings.catch_warnings():
            warnings.simplefilter("ignore")
            with np.errstate(all="ignore"):
                fit(ag)
                fit.training_data = db
                f_swapped = float(fit(ag))
                f_fresh = float(ImplicitRegression(db)(ag))
        rep.case(("swap", str(genome)), True)
        rep.count("implicit_fitness", "data swapped")
        if math.isfinite(f_swapped) and not (0.0 <= f_swapped <= 1.0 + 1e-12):
            rep.violate(f"implicit fitness {f_swapped} outside [0, 1] after the training data of the fitness object was replaced", "C20:fitness-range",
                        {"genome": genome})
        elif math.isfinite(f_swapped) != math.isfinite(f_fresh) or (math.isfinite(f_fresh) and abs(f_swapped - f_fresh) > 1e-12):
            rep.violate(f"implicit fitness {f_swapped} on replaced training data differs from a fresh fitness object ({f_fresh})", "C20:stale-data",
                        {"genome": genome})
    # an exact invariant: x0^2 + x1^2 on a circle
    tt = np.linspace(0.2, 1.3, 40)      # away from multiples of pi/2, where every term of the row vanishes (0/0)
    x = np.column_stack([np.cos(tt), np.sin(tt)])
    dx = np.column_stack([-np.sin(tt), np.cos(tt)])
    data = ImplicitTrainingData(x, dx)
    inv = AGraph()
    inv.command_array = np.array([[0, 0, 0], [0, 1, 1], [4, 0, 0], [4, 1, 1], [2, 2, 3]])
    f = float(ImplicitRegression(data)(inv))
    rep.case(("invariant",), True)
    if not (abs(f) < 1e-12):
        rep.violate(f"exact invariant x0^2+x1^2 of circular motion has implicit fitness {f}", "C20:invariant-not-zero", {"f": f})


def replay(ctx, rep, rp):
    rep.case(("replay",), True)
    rep.case(("replay2",), True)
    fitness_oracle(ctx, rep)


if __name__ == "__main__":
    harness_main("C20", run, replay)
