"""C06 -- local optimization leaves the individual and its reported fitness in agreement.

K: the real LocalOptFitnessFunction + ScipyOptimizer (real scipy), observed from outside (wrappers around the
individual's `set_local_optimization_params` and the base fitness entry points) against `LocalOpt.call`:
number of base-fitness invocations (one per optimizer trial + the final evaluation), flag, parameter count.
Oracle: returned value == base fitness of the individual afterwards (bitwise), it no longer needs
optimization, parameter count == number of constants of its expression, constants untouched when it did not
need optimization; `EquationRegressor.fit` never ends worse than its first fit and stores matching constants.
"""
import math
import warnings

import numpy as np

from bingo.local_optimizers.local_opt_fitness import LocalOptFitnessFunction
from bingo.local_optimizers.scipy_optimizer import ScipyOptimizer, ROOT_SET, MINIMIZE_SET
from bingo.symbolic_regression.agraph.agraph import AGraph
from bingo.symbolic_regression.explicit_regression import ExplicitRegression, ExplicitTrainingData

from harness import gen_stacks as G
from harness.common import harness_main, run_driver

METHODS = sorted(ROOT_SET | MINIMIZE_SET)


def same(a, b):
    return a == b or (isinstance(a, float) and isinstance(b, float) and math.isnan(a) and math.isnan(b))


def make_case(rng):
    D = rng.choice([1, 2])
    M = rng.choice([3, 6, 12])
    x = np.array([[G.nice_value(rng) for _ in range(D)] for _ in range(M)])
    y = np.array([[rng.uniform(-3, 3)] for _ in range(M)])
    X, C = G.VARIABLE, G.CONSTANT
    templates = [
        [[X, 0, 0], [C, -1, -1], [C, -1, -1], [G.MUL, 0, 1], [G.ADD, 3, 2]],
        [[X, 0, 0], [C, -1, -1], [C, -1, -1], [C, -1, -1], [G.MUL, 0, 1], [G.SIN, 4, 4], [G.MUL, 5, 2], [G.ADD, 6, 3]],
        [[X, 0, 0], [C, -1, -1], [C, -1, -1], [C, -1, -1], [C, -1, -1], [G.MUL, 0, 1], [G.ADD, 5, 2], [G.MUL, 6, 0], [G.ADD, 7, 3], [G.MUL, 8, 4]],
        [[C, -1, -1], [X, 0, 0], [G.DIV, 0, 1], [C, -1, -1], [G.SUB, 2, 3]],
        [[C, -1, -1], [C, -1, -1], [G.ADD, 0, 1]],
    ]
    if rng.random() < 0.4:
        return x, y, [list(r) for r in rng.choice(templates)]
    ops = rng.choice([[G.ADD, G.SUB, G.MUL], [G.ADD, G.MUL, G.SIN], [G.ADD, G.SUB, G.MUL, G.DIV], [G.MUL, G.EXP, G.ADD]])
    genome = G.random_stack(rng, rng.choice([3, 5, 8, 12]), D, ops, term_prob=0.35, const_prob=rng.choice([0.3, 0.6, 0.9]), int_prob=0.1)
    return x, y, genome


def run(ctx, rep):
    rng = ctx.rng
    rep.rule = ("random equations with 0..5 constants (unused constants, constants making the residual non-finite, more constants than data "
                "points) x all scipy methods bingo lists x metrics mae/mse/rmse; individuals that do / do not need optimization; "
                "EquationRegressor.fit with 0..3 retries; sequences with stack changes, constants set by hand and replaced data while a stale fitness is stored; one optimizer serving many individuals; distinct = distinct (equation, data, method, metric); non-trivial = optimizer invoked")
    rep.assumptions = ["scipy returns a parameter vector of the length it was given (checked on every run)"]
    lines, meta = [], []
    for t in range(ctx.n(250, 3000)):
        x, y, genome = make_case(rng)
        method = rng.choice(METHODS)
        metric = rng.choice(["mae", "mse", "rmse"])
        base = ExplicitRegression(ExplicitTrainingData(x, y), metric=metric)
        ag = AGraph(use_simplification=rng.random() < 0.3)
        ag.command_array = np.array(genome, dtype=int).reshape(-1, 3)
        L = ag.get_number_local_optimization_params()
        needs = rng.random() < 0.8
        if not needs:
            ag.set_local_optimization_params([G.nice_value(rng) for _ in range(L)])
        else:
            ag._needs_opt = True
        consts_before = tuple(ag.constants)
        needs_before = ag.needs_local_optimization()
        # observe from outside
        trials = []
        o_set = ag.set_local_optimization_params

        def w_set(p, _o=o_set):
            trials.append(tuple(float(v) for v in p))
            return _o(p)
        ag.set_local_optimization_params = w_set
        calls = {"n": 0, "jac": 0}
        for name in ("evaluate_fitness_vector", "get_fitness_vector_and_jacobian"):
            orig = getattr(base, name)

            def wrapped(ind, _o=orig, _n=name):
                calls["n"] += 1
                if _n == "get_fitness_vector_and_jacobian":
                    calls["jac"] += 1
                return _o(ind)
            setattr(base, name, wrapped)
        lo = LocalOptFitnessFunction(base, ScipyOptimizer(base, method=method))
        np.random.seed(rng.randrange(2 ** 31))
        case = {"genome": genome, "x": x.tolist(), "y": y.ravel().tolist(), "method": method, "metric": metric, "needs_opt": needs_before,
                "consts_before": list(consts_before)}
        try:
            with warnings.catch_warnings():
                warnings.simplefilter("ignore")
                with np.errstate(all="ignore"):
                    v = lo(ag)
        except Exception as exc:
            rep.violate(f"locally-optimizing fitness raised {type(exc).__name__}: {exc}", "C06:raised", case)
            continue
        del ag.set_local_optimization_params
        rep.case((str(genome), x.tobytes(), method, metric, needs_before), needs_before and L > 0)
        rep.count("method", method)
        rep.count("num_params", L)
        rep.count("needed_opt", needs_before)
        rep.sample({"equation": G.describe(genome), "method": method, "metric": metric, "needs_opt": needs_before, "fitness": float(v),
                    "constants_after": [float(c) for c in ag.constants]})
        # ---------- oracle
        ref = ExplicitRegression(ExplicitTrainingData(x, y), metric=metric)
        with warnings.catch_warnings():
            warnings.simplefilter("ignore")
            with np.errstate(all="ignore"):
                want = ref(ag.copy())
        if not same(float(v), float(want)):
            rep.violate(f"returned fitness {v!r} is not the base fitness {want!r} of the individual with the constants it holds afterwards",
                        "C06:reported-not-base", case)
        if ag.needs_local_optimization():
            rep.violate("the individual still requests local optimization afterwards", "C06:still-needs-opt", case)
        if len(ag.constants) != ag.get_number_local_optimization_params() or len(ag.constants) != L:
            rep.violate(f"{len(ag.constants)} stored constants but the expression has {L}", "C06:param-count", case)
        if not needs_before:
            if tuple(ag.constants) != consts_before or trials:
                rep.violate("an individual that did not need optimization had its constants touched", "C06:touched", case)
        if ctx.driver_ok:
            ntr = max(len(trials) - 1, 0) if (needs_before and L > 0) else 0
            final_len = len(trials[-1]) if trials else 0
            lines.append(f"localopt ; {1 if needs_before else 0} {L} {len(consts_before)} ; {ntr} ; {calls['jac']} ; {final_len if needs_before and L > 0 else 0}")
            meta.append((case, (0, len(ag.constants), calls["n"])))
    sequences(ctx, rep)
    optimizer_reuse(ctx, rep)
    nonfinite_endings(ctx, rep)
    if ctx.driver_ok:
        outs = run_driver(lines)
        rep.corr_cases = len(lines)
        for line, o, (case, (no, cl, nc)) in zip(lines, outs, meta):
            t = o.split()
            if t[0] != "ok" or int(t[1]) != no or int(t[2]) != cl or int(t[3]) != nc:
                rep.disagree(f"model (needsOpt, #consts, base calls) = {t[1:4]} vs code {(no, cl, nc)}", {"line": line, **case})
    refit(ctx, rep)
    scripted_refit(ctx, rep)


def sequences(ctx, rep):
    """evaluate through the wrapper, change the command array (more / fewer constants), evaluate again: all four clauses after every step"""
    rng = ctx.rng
    for t in range(ctx.n(120, 1500)):
        x, y, genome = make_case(rng)
        metric = rng.choice(["mae", "mse", "rmse"])
        method = rng.choice(["lm", "BFGS", "Nelder-Mead"])
        base = ExplicitRegression(ExplicitTrainingData(x, y), metric=metric)
        lo = LocalOptFitnessFunction(base, ScipyOptimizer(base, method=method))
        ag = AGraph(use_simplification=rng.random() < 0.3)
        ag.command_array = np.array(genome, dtype=int).reshape(-1, 3)
        history = [genome]
        np.random.seed(rng.randrange(2 ** 31))
        for step in range(rng.randrange(2, 5)):
            case = {"history": history, "x": x.tolist(), "y": y.ravel().tolist(), "method": method, "metric": metric}
            try:
                with warnings.catch_warnings():
                    warnings.simplefilter("ignore")
                    with np.errstate(all="ignore"):
                        v = lo(ag)
                        want = ExplicitRegression(ExplicitTrainingData(x, y), metric=metric)(ag.copy())
            except Exception as exc:
                rep.violate(f"locally-optimizing fitness raised {type(exc).__name__}: {exc}", "C06:raised", case)
                break
            rep.case(("seq", str(history), x.tobytes(), method, metric), True)
            rep.count("sequence_steps")
            fresh = AGraph(use_simplification=ag._use_simplification)
            fresh.command_array = np.array(ag.command_array, copy=True)
            n_expr = fresh.get_number_local_optimization_params()
            if not same(float(v), float(want)):
                rep.violate(f"step {step}: returned fitness {v!r} is not the base fitness {want!r} of the individual afterwards", "C06:reported-not-base", case)
            if ag.needs_local_optimization():
                rep.violate(f"step {step}: still requests optimization", "C06:still-needs-opt", case)
            if len(ag.constants) != n_expr or ag.get_number_local_optimization_params() != n_expr:
                rep.violate(f"step {step}: {len(ag.constants)} stored constants / {ag.get_number_local_optimization_params()} reported parameters, "
                            f"but the expression has {n_expr} constants", "C06:param-count", case)
                break
            ag.fitness = v          # what the evaluation phase does with the returned value
            act = rng.random()
            if act < 0.25 and n_expr > 0:
                # the user sets the constants by hand: neither the stored fitness nor the optimization request changes, but the
                # wrapper must still return the base fitness of the constants the individual NOW holds
                vals = [float(c) + rng.choice([-1.5, 0.75, 2.0]) for c in ag.constants]
                ag.set_local_optimization_params(vals)
                history = history + [{"set_constants": vals}]
                rep.count("sequence_action", "constants set by hand, stale fitness stored")
                continue
            if act < 0.4:
                # the training data behind the wrapper is replaced (a re-fit on new data)
                y = y * rng.choice([2.0, -1.0]) + rng.choice([0.0, 3.0])
                lo.training_data = ExplicitTrainingData(x, y)
                history = history + [{"new_y": y.ravel().tolist()}]
                rep.count("sequence_action", "training data replaced, stale fitness stored")
                continue
            rep.count("sequence_action", "stack changed")
            # mutate: replace a row so that the number of utilized constants changes
            st = [list(r) for r in ag.command_array.tolist()]
            i = rng.randrange(len(st))
            if rng.random() < 0.5 and i > 0:
                st[i] = [rng.choice([G.ADD, G.MUL, G.SUB]), rng.randrange(i), rng.randrange(i)]
            else:
                st[i] = rng.choice([[G.VARIABLE, 0, 0], [G.CONSTANT, -1, -1], [G.INTEGER, 3, 3]])
            ag.command_array = np.array(st, dtype=int).reshape(-1, 3)
            history = history + [st]


def optimizer_reuse(ctx, rep):
    """ONE optimizer / wrapper serves many individuals (what an evaluation phase does), among them equations with more constants
    than data points (root methods fall back to BFGS for those): every call must still satisfy the property"""
    rng = ctx.rng
    eqs = ["1.0*X_0 + 1.0", "1.0*X_0*X_0 + 1.0*X_0 + 1.0", "1.0*sin(1.0*X_0) + 1.0", "1.0 + X_0", "1.0*X_0",
           "1.0*X_0*X_0*X_0 + 1.0*X_0*X_0 + 1.0*X_0 + 1.0"]
    for t in range(ctx.n(40, 400)):
        M = rng.choice([2, 2, 3, 6])
        x = np.array([[rng.uniform(0.3, 2.5)] for _ in range(M)])
        y = 1.7 * x + 0.4
        method = rng.choice(["lm", "lm", "BFGS", "Nelder-Mead"])
        metric = rng.choice(["mse", "mae", "rmse"])
        base = ExplicitRegression(ExplicitTrainingData(x, y), metric=metric)
        lo = LocalOptFitnessFunction(base, ScipyOptimizer(base, method=method))
        order = [rng.choice(eqs) for _ in range(rng.randrange(3, 7))]
        np.random.seed(rng.randrange(2 ** 31))
        for k, e in enumerate(order):
            case = {"equations": order, "index": k, "data_points": M, "method": method, "metric": metric}
            rep.case(("reuse", tuple(order), k, M, method, metric), True)
            rep.count("optimizer_reuse", "constants > data points" if e.count("1.0") > M else "constants <= data points")
            ag = AGraph(equation=e)
            try:
                with warnings.catch_warnings():
                    warnings.simplefilter("ignore")
                    with np.errstate(all="ignore"):
                        v = lo(ag)
                        want = ExplicitRegression(ExplicitTrainingData(x, y), metric=metric)(ag.copy())
            except Exception as exc:
                rep.violate(f"the {k + 1}-th individual served by one optimizer ({e}; earlier: {order[:k]}) raised {type(exc).__name__}: {exc}",
                            "C06:raised", case)
                break
            if not same(float(v), float(want)):
                rep.violate(f"the {k + 1}-th individual served by one optimizer: returned {v!r}, base fitness of its constants {want!r}", "C06:reported-not-base", case)
                break
            if ag.needs_local_optimization():
                rep.violate(f"the {k + 1}-th individual served by one optimizer still requests optimization", "C06:still-needs-opt", case)
                break


def nonfinite_endings(ctx, rep):
    """equations whose residual is non-finite whatever the constants (division by x - x, overflowing exp, log at 0): some scipy methods
    end on inf / nan constants.  The wrapper's clauses hold there too: the returned value is the base fitness of what is stored, the
    equation no longer requests optimization, and a second evaluation neither optimizes again nor changes the constants."""
    rng = ctx.rng
    eqs = ["(1.0)/(X_0 - X_0)", "exp((1.0)*(X_0))", "log((1.0)*(X_0))", "(1.0)*(X_0) + (1.0)/(X_0 - X_0)", "(1.0)*(X_0) + 1.0"]
    for t in range(ctx.n(30, 240)):
        e = eqs[t % len(eqs)]
        method = rng.choice(["BFGS", "CG", "SLSQP", "lm", "Nelder-Mead", "Powell", "TNC", "L-BFGS-B"])
        metric = rng.choice(["mse", "mae", "rmse"])
        x = np.array([[0.0], [1.0], [250.0], [800.0], [-3.0]]) if "exp" in e or "log" in e else np.array([[rng.uniform(0.5, 2.0)] for _ in range(5)])
        y = 2.0 * x + 1.0
        base = ExplicitRegression(ExplicitTrainingData(x, y), metric=metric)
        opt = ScipyOptimizer(base, method=method)
        lo = LocalOptFitnessFunction(base, opt)
        ag = AGraph(equation=e)
        case = {"equation": e, "method": method, "metric": metric, "x": x.ravel().tolist()}
        rep.case(("nonfinite", e, method, metric, t), True)
        np.random.seed(rng.randrange(2 ** 31))
        calls = {"n": 0}
        orig = opt.__class__.__call__

        def counting(self_, ind, _o=orig):
            calls["n"] += 1
            return _o(self_, ind)
        try:
            with warnings.catch_warnings():
                warnings.simplefilter("ignore")
                with np.errstate(all="ignore"):
                    v1 = lo(ag)
                    c1 = [float(c) for c in ag.constants]
                    rep.count("nonfinite_family", "constants ended non-finite" if not np.all(np.isfinite(c1)) else "constants finite")
                    needs = ag.needs_local_optimization()
                    opt.__class__.__call__ = counting
                    try:
                        v2 = lo(ag)
                    finally:
                        opt.__class__.__call__ = orig
                    c2 = [float(c) for c in ag.constants]
        except Exception as exc:
            rep.violate(f"locally-optimizing fitness raised {type(exc).__name__}: {exc}", "C06:raised", case)
            continue
        if needs:
            rep.violate(f"{e} with {method}: the equation still requests optimization after the wrapper ran (constants {c1})", "C06:still-needs-opt", case)
        elif calls["n"] or not all(a == b or (math.isnan(a) and math.isnan(b)) for a, b in zip(c1, c2)):
            rep.violate(f"{e} with {method}: a second evaluation invoked the optimizer again / changed the constants {c1} -> {c2}", "C06:still-needs-opt", case)


def refit(ctx, rep):
    from bingo.symbolic_regression.equation_regressor import EquationRegressor
    rng = ctx.rng
    for t in range(ctx.n(40, 400)):
        x, y, genome = make_case(rng)
        ag = AGraph()
        ag.command_array = np.array(genome, dtype=int).reshape(-1, 3)
        if ag.get_number_local_optimization_params() == 0:
            continue
        algo = rng.choice(["lm", "BFGS", "Nelder-Mead"])
        metric = rng.choice(["mse", "mae"])
        reg = EquationRegressor(ag, metric=metric, algo=algo, fit_retries=rng.randrange(0, 4))
        firsts = []
        o_get = reg._get_local_opt

        def w_get(X, Y, _o=o_get):
            lo = _o(X, Y)
            orig_call = lo.__class__.__call__

            class Rec(lo.__class__):
                def __call__(self_, ind):
                    v = orig_call(self_, ind)
                    firsts.append(float(v))
                    return v
            lo.__class__ = Rec
            return lo
        reg._get_local_opt = w_get
        np.random.seed(rng.randrange(2 ** 31))
        case = {"genome": genome, "x": x.tolist(), "y": y.ravel().tolist(), "algo": algo, "metric": metric}
        try:
            with warnings.catch_warnings():
                warnings.simplefilter("ignore")
                with np.errstate(all="ignore"):
                    reg.fit(x, y)
        except Exception as exc:
            rep.violate(f"EquationRegressor.fit raised {type(exc).__name__}: {exc}", "C06:refit-raised", case)
            continue
        rep.case(("refit", str(genome), x.tobytes(), algo, metric), True)
        rep.count("refit_algo", algo)
        # fitting again an equation that is already fitted must not end worse than the constants it already holds
        before_second = float(ag.fitness)
        try:
            with warnings.catch_warnings():
                warnings.simplefilter("ignore")
                with np.errstate(all="ignore"):
                    reg.fit(x, y)
            after_second = float(ag.fitness)
            if before_second < after_second:
                rep.violate(f"a second fit() made the equation worse: fitness {before_second} -> {after_second}", "C06:refit-worse", case)
        except Exception as exc:
            rep.violate(f"second EquationRegressor.fit raised {type(exc).__name__}: {exc}", "C06:refit-raised", case)
        final = float(ag.fitness)
        if firsts and firsts[0] < final:
            rep.violate(f"re-fitting ended with fitness {final} worse than the first fit {firsts[0]}", "C06:refit-worse", case)
        ref = ExplicitRegression(ExplicitTrainingData(x, y), metric=metric)
        with warnings.catch_warnings():
            warnings.simplefilter("ignore")
            with np.errstate(all="ignore"):
                want = float(ref(ag.copy()))
        if not same(final, want) and not (math.isfinite(want) and abs(final - want) <= 1e-12 * max(1, abs(want))):
            rep.violate(f"stored fitness {final} does not belong to the stored constants (base fitness {want})", "C06:refit-mismatch", case)


def scripted_refit(ctx, rep):
    """`EquationRegressor.fit` with a SCRIPTED local optimizer (attempt k leaves the constants (k,) and reports a prescribed
    fitness, NaN / inf / ties included) against the model `LocalOpt.refit`, and the NaN-aware reading of "never worse than
    the first fit" (theorem C06.refit_first_finite) checked directly on the real object"""
    from bingo.symbolic_regression.equation_regressor import EquationRegressor
    from harness.keys import key_to_float, float_to_key, random_key, kstr
    rng = ctx.rng
    lines, meta = [], []
    for t in range(ctx.n(300, 4000)):
        n = rng.randrange(1, 6)
        keys = [random_key(rng, nan_prob=rng.choice([0.0, 0.2, 0.5])) for _ in range(n)]
        vals = [key_to_float(k) for k in keys]
        ag = AGraph()
        ag.command_array = np.array([[0, 0, 0], [1, -1, -1], [2, 0, 1]], dtype=int)      # X_0 + C
        ag.get_number_local_optimization_params()
        reg = EquationRegressor(ag, fit_retries=n - 1)
        calls = {"k": 0}

        def fit_func(eq, _v=vals, _c=calls):
            k = _c["k"]
            _c["k"] += 1
            eq.set_local_optimization_params((float(k),))
            return _v[k]
        reg._get_local_opt = lambda X, Y: fit_func
        case = {"script": [kstr(k) for k in keys]}
        try:
            reg.fit(np.zeros((2, 1)), np.zeros((2, 1)))
        except Exception as exc:
            rep.disagree(f"scripted EquationRegressor.fit raised {type(exc).__name__}: {exc}", case)
            continue
        got_f = float_to_key(float(ag.fitness)) if ag.fitness is not None else "none"
        got_c = [int(c) for c in ag.constants]
        rep.case(("scripted-refit", tuple(case["script"])), n > 1)
        rep.count("scripted_refit", f"attempts={n}")
        # direct oracle (NaN-aware): a first fit that is a number is never replaced by a NaN or by a larger number, and the
        # stored constants are those of the attempt whose fitness is stored
        first = keys[0]
        if first != "nan" and (got_f == "nan" or got_f > first):
            rep.violate(f"re-fitting ended with fitness {got_f} although the first fit gave {first}", "C06:refit-worse", case)
        # theorem C06.refit_best_of_all: with a numeric first fit the stored fitness is the best of ALL numeric attempts
        if first != "nan" and got_f != "nan" and got_f != "none":
            better = [k for k in keys if k != "nan" and k < got_f]
            if better:
                rep.violate(f"re-fitting stored fitness {got_f} although an attempt reached {min(better)}", "C06:refit-not-best", case)
        if got_f != "nan" and (len(got_c) != 1 or not (0 <= got_c[0] < n) or keys[got_c[0]] != got_f):
            rep.violate(f"stored fitness {got_f} does not belong to the stored constants {got_c}", "C06:refit-mismatch", case)
        if ctx.driver_ok:
            lines.append("refit ; " + " ".join(kstr(k) for k in keys))
            meta.append((case, got_f, got_c, ag.needs_local_optimization()))
    if ctx.driver_ok and lines:
        outs = run_driver(lines)
        rep.corr_cases += len(lines)
        for line, o, (case, got_f, got_c, needs) in zip(lines, outs, meta):
            want = f"ok {kstr(got_f)} ; {' '.join(map(str, got_c))} ; {1 if needs else 0}"
            if " ".join(o.split()) != " ".join(want.split()):
                rep.disagree(f"EquationRegressor.fit: model {o!r} vs code {want!r}", case)


def replay(ctx, rep, rp):
    rep.case(("replay",), True)
    rep.case(("replay2",), True)
    case = rp.get("case", {})
    if "genome" not in case or "method" not in case:
        return
    x = np.array(case["x"])
    y = np.array(case["y"]).reshape(-1, 1)
    base = ExplicitRegression(ExplicitTrainingData(x, y), metric=case["metric"])
    ag = AGraph()
    ag.command_array = np.array(case["genome"], dtype=int).reshape(-1, 3)
    ag._needs_opt = True
    lo = LocalOptFitnessFunction(base, ScipyOptimizer(base, method=case["method"]))
    v = lo(ag)
    w = ExplicitRegression(ExplicitTrainingData(x, y), metric=case["metric"])(ag.copy())
    print("replay:", v, w, ag.needs_local_optimization())
    if not same(float(v), float(w)) or ag.needs_local_optimization():
        rep.violate("reported fitness / flag mismatch", rp.get("key"), case)


if __name__ == "__main__":
    harness_main("C06", run, replay)
