"""Mutation test of the C04 differential tester: plant one bug at a time in lean/Model/Variation.lean, rebuild
bvdriver, and check that c04_diff.py reports mismatches.  Restores the model afterwards.

usage: PYTHONPATH=/repo:/tmp/pa_c04 /venv/bin/python harness/c04_mutants.py [n_cases] [seed]
"""
import os
import subprocess
import sys

HERE = os.path.dirname(os.path.abspath(__file__))
LEAN = os.path.join(os.path.dirname(HERE), "lean")
MODEL = os.path.join(LEAN, "Model", "Variation.lean")

MUTANTS = [
    ("command: drop the CONSTANT->CONSTANT rejection", "if new = old ∨ (old.node = CONSTANT ∧ new.node = CONSTANT) then", "if new = old then"),
    ("random_command: loc <= nLoad", "if stackLocation < cfg.nLoad then randomTerminalCommand cfg", "if stackLocation ≤ cfg.nLoad then randomTerminalCommand cfg"),
    ("terminal pmf items swapped", "def terminalItems : List Int := [CONSTANT, VARIABLE]", "def terminalItems : List Int := [VARIABLE, CONSTANT]"),
    ("node: operators_ok > 0", "let operatorsOk := decide (numberOfOperators cfg > 1)", "let operatorsOk := decide (numberOfOperators cfg > 0)"),
    ("node: operator keeps no params", "pure ⟨op, c.p1, c.p2⟩", "pure ⟨op, c.p1, c.p1⟩"),
    ("parameter: D < 1", "(if cfg.D ≤ 1 then [VARIABLE] else [])", "(if cfg.D < 1 then [VARIABLE] else [])"),
    ("parameter: keep location 1", "if (← isTerminalM c.node) then pure indices else pure (indices.erase 1)", "if (← isTerminalM c.node) then pure indices else pure indices"),
    ("parameter: arity-1 redraws p2", "else pure ⟨c.node, p1, c.p2⟩", "else pure ⟨c.node, p1, p1⟩"),
    ("prune: last row allowed", "| none => false)) 0 util.dropLast", "| none => false)) 0 util"),
    ("prune: terminals rewritten too", "      if t then c\n      else ⟨c.node, if c.p1", "      if false then c\n      else ⟨c.node, if c.p1"),
    ("prune: always first parameter", "let prunedParam := if prunedParamNum = 0 then cmd.p1 else cmd.p2", "let prunedParam := if prunedParamNum = 0 then cmd.p1 else cmd.p1"),
    ("fork: needs 3 unutilized", "if nUnutilized < 2 then pure s", "if nUnutilized < 3 then pure s"),
    ("fork: MAX_FORK_SIZE+1", "let forkSize ← drawRange 2 (maxFork + 1)", "let forkSize ← drawRange 2 (maxFork + 2)"),
    ("move: before excludes the location", "let before := tuples.filter (fun t => t.1.2 && decide (t.2 ≤ loc))", "let before := tuples.filter (fun t => t.1.2 && decide (t.2 < loc))"),
    ("move: location not redirected to end", "if old = loc then endI else (findPos old newIndices).getD 0", "(findPos old newIndices).getD 0"),
    ("fix: remap unutilized operators too", "(if !t && u then do", "(if !t then do"),
    ("fix: p2 not remapped", "let p2 ← remapParam iv c.p2\n                pure (⟨c.node, p1, p2⟩ : Cmd)", "let p2 ← remapParam iv c.p2\n                pure (⟨c.node, p1, c.p2⟩ : Cmd)"),
    ("fix: > instead of >=", "decide ((if first then c.p1 else c.p2) ≥ Int.ofNat i)) 0 s", "decide ((if first then c.p1 else c.p2) > Int.ofNat i)) 0 s"),
    ("fix: no np.vectorize probe draw", "    let _ ← randomOperatorParameter i0\n", ""),
    ("fix: probe draw per element", "      let v ← randomOperatorParameter i\n      let c ← getRow st i", "      let _ ← randomOperatorParameter i\n      let v ← randomOperatorParameter i\n      let c ← getRow st i"),
    ("arity op: 99 attempts", "match (← getArityOperatorLoop cfg true 100) with\n  | some arity2Op", "match (← getArityOperatorLoop cfg true 99) with\n  | some arity2Op"),
    ("insert: n_terminals before arity op is impossible; n_terminals wider", "let nTerminals ← drawRange 1 (forkSize / 2 + 1)", "let nTerminals ← drawRange 1 (forkSize / 2 + 2)"),
    ("insert: last row written at i", "setRow s endI ⟨arity2Op, Int.ofNat mcl, Int.ofNat r⟩", "setRow s i ⟨arity2Op, Int.ofNat mcl, Int.ofNat r⟩"),
    ("insert: randrange upper bound inclusive", "let r1 ← drawRange startI i\n", "let r1 ← drawRange startI (i + 1)\n"),
    ("insert arity1: link to i", "else setRow s i ⟨op, Int.ofNat i - 1, Int.ofNat i - 1⟩", "else setRow s i ⟨op, Int.ofNat i - 1, Int.ofNat i - 2⟩"),
    ("insert arity1: first links to start", "if i = startI then setRow s i ⟨op, Int.ofNat mcl, Int.ofNat mcl⟩", "if i = startI then setRow s i ⟨op, Int.ofNat mcl, 0⟩"),
    ("crossover: cross point range", "let crossPoint ← drawRange 1 (agSize - 1)", "let crossPoint ← drawRange 1 agSize"),
    ("crossover: children swapped", "else pure (p1.take crossPoint ++ p2.drop crossPoint, p2.take crossPoint ++ p1.drop crossPoint)", "else pure (p2.take crossPoint ++ p1.drop crossPoint, p1.take crossPoint ++ p2.drop crossPoint)"),
    ("pmf: index == n is a bad draw", "if d < n then .ok (d, rest) else if d = n then .pyError .indexError else .badDraw", "if d < n then .ok (d, rest) else .badDraw"),
    ("mutate: kind pmf of 6", "let kind ← drawPmf 5", "let kind ← drawPmf 6"),
]


def sh(cmd, cwd=None):
    out = subprocess.run(cmd, shell=True, cwd=cwd, stdout=subprocess.PIPE, stderr=subprocess.STDOUT).stdout.decode()
    return "\n".join(l for l in out.splitlines() if "conda" not in l)


def main():
    n = sys.argv[1] if len(sys.argv) > 1 else "4000"
    seed = sys.argv[2] if len(sys.argv) > 2 else "5"
    orig = open(MODEL).read()
    survived = []
    try:
        for name, a, b in MUTANTS:
            if orig.count(a) != 1:
                print(f"SKIP (pattern found {orig.count(a)}x): {name}")
                survived.append(name + " [pattern]")
                continue
            open(MODEL, "w").write(orig.replace(a, b))
            out = sh("lake build bvdriver", LEAN)
            if "Build completed successfully" not in out:
                print(f"BUILD FAILED: {name}\n{out[-600:]}")
                survived.append(name + " [build]")
                continue
            res = sh(f"timeout 1500 {sys.executable} {os.path.join(HERE, 'c04_diff.py')} {n} {seed} 2>/dev/null | grep '^MISMATCHES'")
            killed = res.strip() not in ("MISMATCHES: 0", "")
            print(f"{'killed  ' if killed else 'SURVIVED'} {res.strip():18s} {name}", flush=True)
            if not killed:
                survived.append(name)
    finally:
        open(MODEL, "w").write(orig)
        print(sh("lake build bvdriver", LEAN).strip().splitlines()[-1])
    print(f"{len(MUTANTS) - len(survived)}/{len(MUTANTS)} mutants killed; survived: {survived}")


if __name__ == "__main__":
    main()
