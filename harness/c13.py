"""C13 -- checkpoints are lossless, transparent to evolution, and crash-safe in rotation.

K (rotation): the real `evolve_until_convergence` with checkpointing, instrumented from outside (module-level
`open`, `dill.dump`, `os.replace`, `os.remove` of evolutionary_optimizer.py are wrapped): the sequence of file
operations is compared with `Checkpoint.callOps`, and for EVERY crash point j the surviving directory (which
files exist, which load) is compared with the model's state after the j-step prefix; fresh and resumed runs.
Oracle: after the first completed checkpoint some loadable checkpoint of an earlier-or-equal generation exists
at every crash point, at most num+1 checkpoint files of this run exist, foreign files are never deleted.
Validated (not provable): dump/load round trip of islands and archipelagos and identical continuation under the
same RNG state.
"""
import os
import random
import shutil
import tempfile
import warnings

import dill
import numpy as np

from bingo.evolutionary_optimizers import evolutionary_optimizer as eo_mod
from bingo.evolutionary_optimizers.evolutionary_optimizer import load_evolutionary_optimizer_from_file

from harness.c14 import Scripted, Recorder, CLOCK
from harness.common import harness_main, run_driver
from harness.keys import key_to_float


class Crash(Exception):
    pass


class FileOps:
    """wraps the file-system calls of evolutionary_optimizer.py; raises Crash before performing op number `crash_at`"""

    def __init__(self, crash_at=None, with_close=False):
        self.crash_at = crash_at
        self.with_close = with_close          # closing a file is a crash point of its own (oracle pass only: not in the model's op list)
        self.log = []
        self.pending_open = None
        self.open_files = []

    def _hard_kill(self):
        """the process dies (SIGKILL / power loss), it is not unwound: whatever still sits in the user-space buffer of an open
        file is lost.  The harness has to unwind with an exception, so the descriptors of the files that are open for
        writing are pointed at /dev/null first: the flush that `close()` performs during unwinding then goes nowhere."""
        for f in self.open_files:
            try:
                if not f.closed:
                    null = os.open(os.devnull, os.O_WRONLY)
                    os.dup2(null, f.fileno())
                    os.close(null)
            except Exception:
                pass

    def _tick(self, label):
        if self.crash_at is not None and len(self.log) == self.crash_at:
            self._hard_kill()
            raise Crash(label)
        self.log.append(label)

    @staticmethod
    def short(path):
        b = os.path.basename(path)
        # ck_<age>.pkl(.tmp)
        core = b.split("_")[-1]
        if core.endswith(".pkl.tmp"):
            return "t" + core[:-8]
        if core.endswith(".pkl"):
            return "c" + core[:-4]
        return b

    def __enter__(self):
        me = self
        self.o_dump = dill.dump
        real_open = open

        def w_open(path, mode="r", *a, **k):
            if "w" in mode:
                me._tick("open:" + me.short(path))
                me.pending_open = path
                f = real_open(path, mode, *a, **k)
                me.open_files.append(f)
                return FileProxy(f, me.short(path))
            return real_open(path, mode, *a, **k)

        class FileProxy:
            """closing the file is a step of its own (a process can die between a rename and the close that flushes)"""

            def __init__(self, f, label):
                self._f, self._label = f, label

            def __getattr__(self, name):
                return getattr(self._f, name)

            def __enter__(self):
                return self

            def __exit__(self, *exc):
                self.close()
                return False

            def close(self):
                if not self._f.closed:
                    if me.with_close and exc_free():
                        me._tick("close:" + self._label)
                    self._f.close()

        def exc_free():
            import sys
            return sys.exc_info()[0] is None

        def w_dump(obj, f, *a, **k):
            # a crash while writing = before anything of the new content is complete
            if me.crash_at is not None and len(me.log) == me.crash_at:
                f.write(b"\x80partial")
                f.flush()
                raise Crash("during dump")
            r = me.o_dump(obj, f, *a, **k)          # (no flush here: the code under test decides when the bytes reach the file)
            me.log.append("finish:" + me.short(me.pending_open))
            return r

        class OsProxy:
            path = os.path

            @staticmethod
            def replace(a, b):
                me._tick(f"rename:{me.short(a)}:{me.short(b)}")
                return os.replace(a, b)

            @staticmethod
            def rename(a, b):
                me._tick(f"rename:{me.short(a)}:{me.short(b)}")
                return os.rename(a, b)

            @staticmethod
            def remove(a):
                me._tick("remove:" + me.short(a))
                return os.remove(a)

            def __getattr__(self, name):
                return getattr(os, name)
        eo_mod.open = w_open
        dill.dump = w_dump
        self.o_os = eo_mod.os
        eo_mod.os = OsProxy()
        return self

    def __exit__(self, *a):
        del eo_mod.open
        dill.dump = self.o_dump
        eo_mod.os = self.o_os
        return False


def disk_state(d, base):
    """canonical 'c<age>+' / 't<age>-' listing of the run's files; '+' = loads"""
    out = []
    for fn in sorted(os.listdir(d)):
        if not fn.startswith(base + "_"):
            continue
        p = os.path.join(d, fn)
        try:
            with warnings.catch_warnings():
                warnings.simplefilter("ignore")
                obj = load_evolutionary_optimizer_from_file(p)
            ok = hasattr(obj, "generational_age")
        except Exception:
            ok = False
        out.append(FileOps.short(p) + ("+" if ok else "-"))
    return out


def mk_script(rng, n=60):
    level = rng.randrange(5, 40)
    s = []
    for _ in range(n):
        if rng.random() < 0.3:
            level -= rng.randrange(0, 3)
        s.append((level, 1, 0))
    return s


def run_call(o, base, num, max_gen, freq, min_gen=0):
    with warnings.catch_warnings():
        warnings.simplefilter("ignore")
        return o.evolve_until_convergence(max_generations=max_gen, fitness_threshold=key_to_float(-10 ** 6 + 1),
                                          convergence_check_frequency=freq, min_generations=min_gen,
                                          checkpoint_base_name=base, num_checkpoints=num)


def rotation(ctx, rep):
    rng = ctx.rng
    lines, meta = [], []
    n_cfg = ctx.n(14, 80)
    with Recorder():
        for ci in range(n_cfg):
            num = rng.choice([1, 1, 2, 3, None])
            max_gen = rng.choice([2, 3, 5, 7])
            freq = rng.choice([1, 2, 3])
            resumed = ci % 2 == 1
            script = mk_script(rng)
            d = tempfile.mkdtemp(prefix="c13_")
            try:
                base = os.path.join(d, "ck")
                # foreign files that must survive
                for fn in ("other.pkl", "ckx_3.pkl", "notes.txt"):
                    with open(os.path.join(d, fn), "wb") as f:
                        f.write(b"foreign")
                CLOCK.ms = 0
                o = Scripted(script)
                fs0 = []
                if resumed:
                    run_call(o, base, 1, rng.choice([2, 3]), 1)
                    latest = max(int(fn.split("_")[-1][:-4]) for fn in os.listdir(d) if fn.startswith("ck_"))
                    o = load_evolutionary_optimizer_from_file(f"{base}_{latest}.pkl")
                    fs0 = disk_state(d, "ck")
                snapshot = tempfile.mkdtemp(prefix="c13s_")
                shutil.rmtree(snapshot)
                shutil.copytree(d, snapshot)
                o_pickled = dill.dumps(o)
                # reference run without crash: the operation sequence
                with FileOps() as fo:
                    o1 = dill.loads(o_pickled)
                    age0 = o1.generational_age
                    run_call(o1, base, num, max_gen, freq)
                ops = list(fo.log)
                ages = []
                for op in ops:
                    if op.startswith("open:"):
                        ages.append(int(op.split(":")[1][1:]))
                case = {"num": num, "max_generations": max_gen, "freq": freq, "resumed": resumed, "fs0": fs0, "ops": ops}
                rep.case(("rotation", str(case)), True)
                rep.count("rotation_configs")
                rep.sample(case)
                foreign_ok = all(os.path.exists(os.path.join(d, fn)) for fn in ("other.pkl", "ckx_3.pkl", "notes.txt"))
                if not foreign_ok:
                    rep.violate("a file that does not belong to the optimizer was deleted", "C13:foreign-deleted", case)
                states = []
                for j in range(len(ops) + 1):
                    shutil.rmtree(d)
                    shutil.copytree(snapshot, d)
                    with FileOps(crash_at=j) as fo2:
                        o2 = dill.loads(o_pickled)
                        try:
                            run_call(o2, base, num, max_gen, freq)
                            crashed = False
                        except Crash:
                            crashed = True
                    st = disk_state(d, "ck")
                    states.append(st)
                    rep.count("crash_points")
                    rep.case(("crash", ci, j, str(st)), True)
                    cur_age = o2.generational_age
                    done_first = any(op.startswith("rename:") or (op.startswith("finish:c")) for op in fo2.log)
                    loadable = [int(s[1:-1]) for s in st if s.startswith("c") and s.endswith("+")]
                    cc = {**case, "crash_at": j, "disk": st, "performed": list(fo2.log)}
                    if (done_first or any(s.endswith("+") and s.startswith("c") for s in fs0)) and not loadable:
                        rep.violate(f"crash at step {j}: no loadable checkpoint on disk ({st})", "C13:no-loadable-checkpoint", cc)
                    if done_first and loadable and min(loadable) > cur_age:
                        rep.violate(f"crash at step {j}: every loadable checkpoint is newer than generation {cur_age}", "C13:checkpoint-from-future", cc)
                    own = [s for s in st if s.startswith("c") and int(s[1:-1]) in ages]
                    if num is not None and len(own) > num + 1:
                        rep.violate(f"crash at step {j}: {len(own)} checkpoint files of this call exist, limit {num}+1", "C13:too-many-checkpoints", cc)
                    if not all(os.path.exists(os.path.join(d, fn)) for fn in ("other.pkl", "ckx_3.pkl", "notes.txt")):
                        rep.violate("a file that does not belong to the optimizer was deleted", "C13:foreign-deleted", cc)
                # ---- second pass, oracle only: the process may also die between any file-system step and the close() of a file
                # that is still open (a hard kill loses what sits in the user-space buffer)
                with FileOps(with_close=True) as fo3:
                    shutil.rmtree(d)
                    shutil.copytree(snapshot, d)
                    run_call(dill.loads(o_pickled), base, num, max_gen, freq)
                ops3 = list(fo3.log)
                for j in range(len(ops3) + 1):
                    if j < len(ops3) and not ops3[j].startswith("close:") and not (j > 0 and ops3[j - 1].startswith("close:")):
                        continue          # only the crash points the first pass does not have
                    shutil.rmtree(d)
                    shutil.copytree(snapshot, d)
                    with FileOps(crash_at=j, with_close=True) as fo4:
                        o4 = dill.loads(o_pickled)
                        try:
                            run_call(o4, base, num, max_gen, freq)
                        except Crash:
                            pass
                    st = disk_state(d, "ck")
                    rep.count("crash_points_at_close")
                    rep.case(("crash-close", ci, j, str(st)), True)
                    done_first = any(op.startswith("rename:") or op.startswith("finish:c") for op in fo4.log)
                    loadable = [int(s_[1:-1]) for s_ in st if s_.startswith("c") and s_.endswith("+")]
                    cc = {**case, "crash_at": j, "disk": st, "performed": list(fo4.log), "hard_kill_before": ops3[j] if j < len(ops3) else "end"}
                    if (done_first or any(s_.endswith("+") and s_.startswith("c") for s_ in fs0)) and not loadable:
                        rep.violate(f"hard kill before '{cc['hard_kill_before']}': no loadable checkpoint on disk ({st})", "C13:no-loadable-checkpoint", cc)
                    if done_first and loadable and min(loadable) > o4.generational_age:
                        rep.violate(f"hard kill before '{cc['hard_kill_before']}': every loadable checkpoint is newer than generation {o4.generational_age}",
                                    "C13:checkpoint-from-future", cc)
                if ctx.driver_ok:
                    nums = "none" if num is None else str(num)
                    lines.append(f"ckptops ; {nums} ; {' '.join(map(str, ages))}")
                    meta.append(("ops", case, ops))
                    lines.append(f"ckptrun ; {nums} ; {' '.join(map(str, ages))} ; {' '.join(fs0)}")
                    meta.append(("states", case, states))
            finally:
                shutil.rmtree(d, ignore_errors=True)
                shutil.rmtree(snapshot, ignore_errors=True)
    if ctx.driver_ok and lines:
        outs = run_driver(lines)
        rep.corr_cases += len(lines)
        for line, o_, (kind, case, want) in zip(lines, outs, meta):
            if kind == "ops":
                got = o_.split()[1:]
                if got != want:
                    rep.disagree(f"file operation sequence: model {got} vs code {want}", {"line": line, **case})
            else:
                got = [s.split() for s in o_[3:].split(" | ")] if o_.startswith("ok") else o_
                if got != [sorted(s) for s in want]:
                    idx = next((i for i, (a, b) in enumerate(zip(got, want)) if a != sorted(b)), None)
                    rep.disagree(f"disk state after crash point {idx}: model {got[idx] if idx is not None and idx < len(got) else got} vs code "
                                 f"{want[idx] if idx is not None else want}", {"line": line, **case})


# ---------------------------------------------------------------- validated only: lossless + transparent

def projection(opt):
    def ind(i):
        vals = getattr(i, "values", None)
        if vals is None:
            vals = (np.asarray(i.command_array).tolist(), [float(c) for c in i.constants])
        return (repr(vals), repr(i.fitness), i.fit_set, i.genetic_age)
    pops = []
    for isl in getattr(opt, "islands", [opt]):
        pops.append([ind(i) for i in isl.population])
    hof = None if opt.hall_of_fame is None else [ind(i) for i in opt.hall_of_fame]
    out = {"pops": pops, "age": opt.generational_age, "evals": opt.get_fitness_evaluation_count(), "hof": hof,
           "diag": repr(opt.get_ea_diagnostic_info().summary)}
    if hasattr(opt, "_predictor_island"):
        # fitness-predictor island: the co-evolving predictor population, its trainers, and the counters that steer how many
        # predictor generations run per main generation
        pi = opt._predictor_island
        pff = opt._predictor_fitness_function
        out["predictors"] = [(repr(getattr(i, "values", None)), repr(i.fitness), i.fit_set, i.genetic_age) for i in pi.population]
        out["predictor_age"] = pi.generational_age
        out["predictor_evals"] = pi.get_fitness_evaluation_count()
        out["point_eval_count"] = getattr(pff, "point_eval_count", None)
        out["hof_predicted"] = [ind(i) for i in opt._hof_w_predicted_fitness] if getattr(opt, "_hof_w_predicted_fitness", None) is not None else None
    return out


def make_agraph_island(rng, pop=10, size=8):
    from bingo.evaluation.evaluation import Evaluation
    from bingo.evolutionary_algorithms.age_fitness import AgeFitnessEA
    from bingo.evolutionary_optimizers.island import Island
    from bingo.stats.hall_of_fame import HallOfFame
    from bingo.symbolic_regression.agraph.component_generator import ComponentGenerator
    from bingo.symbolic_regression.agraph.crossover import AGraphCrossover
    from bingo.symbolic_regression.agraph.generator import AGraphGenerator
    from bingo.symbolic_regression.agraph.mutation import AGraphMutation
    from bingo.symbolic_regression.explicit_regression import ExplicitRegression, ExplicitTrainingData
    x = np.linspace(-1, 1, 12).reshape(-1, 1)
    y = x ** 2 - x
    cg = ComponentGenerator(1)
    for op in ("+", "-", "*", "sin"):
        cg.add_operator(op)
    gen = AGraphGenerator(size, cg)
    ea = AgeFitnessEA(Evaluation(ExplicitRegression(training_data=ExplicitTrainingData(x, y))), gen, AGraphCrossover(),
                      AGraphMutation(cg), 0.4, 0.4, pop)
    return Island(ea, gen, pop, hall_of_fame=HallOfFame(3))


def make_predictor_island(rng):
    from bingo.evaluation.evaluation import Evaluation
    from bingo.evolutionary_algorithms.age_fitness import AgeFitnessEA
    from bingo.evolutionary_optimizers.fitness_predictor_island import FitnessPredictorIsland
    from bingo.stats.hall_of_fame import HallOfFame
    from bingo.symbolic_regression.agraph.component_generator import ComponentGenerator
    from bingo.symbolic_regression.agraph.crossover import AGraphCrossover
    from bingo.symbolic_regression.agraph.generator import AGraphGenerator
    from bingo.symbolic_regression.agraph.mutation import AGraphMutation
    from bingo.symbolic_regression.explicit_regression import ExplicitRegression, ExplicitTrainingData
    x = np.linspace(-2, 2, 40).reshape(-1, 1)
    y = x ** 2 + 0.5 * x
    cg = ComponentGenerator(1)
    for op in ("+", "-", "*"):
        cg.add_operator(op)
    gen = AGraphGenerator(8, cg)
    ea = AgeFitnessEA(Evaluation(ExplicitRegression(training_data=ExplicitTrainingData(x, y))), gen, AGraphCrossover(), AGraphMutation(cg),
                      0.4, 0.4, 10)
    return FitnessPredictorIsland(ea, gen, 10, predictor_population_size=4, predictor_update_frequency=rng.choice([2, 3]),
                                  predictor_size_ratio=0.3, predictor_computation_ratio=rng.choice([0.2, 0.8]), trainer_population_size=3,
                                  trainer_update_frequency=rng.choice([2, 4]), hall_of_fame=HallOfFame(3))


def lossless(ctx, rep):
    from bingo.evolutionary_optimizers.serial_archipelago import SerialArchipelago
    from harness.bingo_util import simple_island
    rng = ctx.rng
    for t in range(ctx.n(12, 48)):
        np.random.seed(rng.randrange(2 ** 31))
        random.seed(rng.randrange(2 ** 31))
        # predictor islands twice per cycle, dumped after several hall-of-fame updates and continued for a dozen generations:
        # state that survives the round trip only by object identity shows first in the point-evaluation counter, later in the
        # populations (seed C13-I)
        kind = ["island", "agraph", "predictor island", "arch", "predictor island", "agraph seeded, never evaluated"][t % 6]
        with warnings.catch_warnings():
            warnings.simplefilter("ignore")
            if kind == "island":
                opt, _ = simple_island(8)
            elif kind == "agraph":
                opt = make_agraph_island(rng)
            elif kind == "predictor island":
                opt = make_predictor_island(rng)
            elif kind == "agraph seeded, never evaluated":
                # a population the user seeded with known equations (literal constants, derived state not yet refreshed), dumped
                # before the first generation
                from bingo.symbolic_regression.agraph.agraph import AGraph
                seeds = ["2.5*X_0 + 1.25", "0.5*X_0 - 3.0", "1.5 + X_0*0.25", "sin(X_0)*1.5 + X_0", "(X_0 + 2.0)*(X_0 - 0.5)"]
                built = [AGraph(equation=e) for e in seeds]
                n_rows = max(set(len(b.command_array) for b in built), key=[len(b.command_array) for b in built].count)
                usable = [e for e, b in zip(seeds, built) if len(b.command_array) == n_rows]
                opt = make_agraph_island(rng, size=n_rows)      # crossover needs stacks of one size
                opt.population = [AGraph(equation=rng.choice(usable)) for _ in range(len(opt.population))]
            else:
                tmpl, _ = simple_island(6)
                opt = SerialArchipelago(tmpl, num_islands=3)
            if kind == "predictor island":
                for _ in range(rng.randrange(3, 7)):       # one evolve call per generation: a hall-of-fame update after each
                    opt.evolve(1)
            elif kind != "agraph seeded, never evaluated":
                opt.evolve(rng.randrange(1, 4))
            d = tempfile.mkdtemp(prefix="c13l_")
            try:
                fn = os.path.join(d, "dump.pkl")
                opt.dump_to_file(fn)
                loaded = load_evolutionary_optimizer_from_file(fn)
            finally:
                shutil.rmtree(d, ignore_errors=True)
            rep.case(("lossless", kind, t), True)
            rep.count("lossless_roundtrips", kind)
            case = {"kind": kind, "trial": t}
            if projection(opt) != projection(loaded):
                rep.violate(f"{kind}: loaded optimizer differs from the dumped one", "C13:lossy", case)
                continue
            st_np, st_py = np.random.get_state(), random.getstate()
            more = 12 if kind == "predictor island" else 3
            steps = [1] * more if kind == "predictor island" else [more]
            for n_ in steps:
                opt.evolve(n_)
            a = projection(opt)
            np.random.set_state(st_np)
            random.setstate(st_py)
            for n_ in steps:
                loaded.evolve(n_)
            b = projection(loaded)
            if a != b:
                rep.violate(f"{kind}: continued evolution of the loaded optimizer diverges from the original under the same RNG state",
                            "C13:not-transparent", case)


def transparent_convergence(ctx, rep):
    """a run continued from its checkpoint behaves as the run that was not interrupted, also for what the convergence loop remembers
    between calls (the best fitness seen and when it last improved: the stagnation criterion)"""
    rng = ctx.rng
    with Recorder():
        for t in range(ctx.n(10, 60)):
            d = tempfile.mkdtemp(prefix="c13t_")
            try:
                level = rng.randrange(5, 30)
                pre = rng.randrange(2, 7)
                script = [(level, 1, 0)] * (pre + 1) + [(level - (1 if rng.random() < 0.3 else 0), 1, 0)] * 80   # (almost) no improvement
                stag = rng.randrange(2, 9)
                base = os.path.join(d, "ck")
                CLOCK.ms = 0
                o = Scripted(script)
                with warnings.catch_warnings():
                    warnings.simplefilter("ignore")
                    o.evolve_until_convergence(max_generations=pre, fitness_threshold=key_to_float(-10 ** 6 + 1), convergence_check_frequency=1,
                                               checkpoint_base_name=base, num_checkpoints=1)
                    latest = max(int(fn.split("_")[-1][:-4]) for fn in os.listdir(d) if fn.startswith("ck_"))
                    loaded = load_evolutionary_optimizer_from_file(f"{base}_{latest}.pkl")
                    res = []
                    for opt in (o, loaded):
                        CLOCK.ms = 0
                        r = opt.evolve_until_convergence(max_generations=60, fitness_threshold=key_to_float(-10 ** 6 + 1),
                                                         convergence_check_frequency=1, stagnation_generations=stag)
                        res.append((r.status, r.ngen, opt.generational_age, repr(r.fitness)))
                case = {"generations_before_checkpoint": pre, "stagnation_generations": stag, "script_head": script[:pre + 3]}
                rep.case(("transparent-convergence", pre, stag, t), True)
                rep.count("transparent_convergence")
                if latest != o.generational_age - res[0][1]:
                    continue        # the checkpoint is not the state the original continued from
                rep.count("transparent_convergence_compared")
                if res[0] != res[1]:
                    rep.violate(f"continuing with evolve_until_convergence(stagnation_generations={stag}): the uninterrupted optimizer ends with "
                                f"(status, generations, age, fitness) = {res[0]}, the one loaded from its checkpoint with {res[1]}", "C13:not-transparent", case)
            finally:
                shutil.rmtree(d, ignore_errors=True)


def names_oracle(ctx, rep):
    """checkpoint files carry the documented name `<base>_<generation>.pkl` for EVERY base name (dots, several runs sharing a
    directory whose base names differ only after a dot), load as the optimizer of that generation, and a run removes only its
    own files"""
    rng = ctx.rng
    pairs = [("ck", "ckb"), ("sweep_noise0.1", "sweep_noise0.25"), ("model.v1", "model.v2"), ("run.pkl", "run.pkl2"), ("a.b.c", "a.b.d")]
    with Recorder():
        for ci in range(ctx.n(6, 30)):
            name_a, name_b = pairs[ci % len(pairs)]
            num = rng.choice([1, 2, 3])
            freq = rng.choice([1, 2])
            d = tempfile.mkdtemp(prefix="c13n_")
            try:
                case = {"base_names": [name_a, name_b], "num_checkpoints": num, "freq": freq}
                rep.case(("names", name_a, name_b, num, freq, ci), True)
                rep.count("checkpoint_base_names", name_a)
                CLOCK.ms = 0
                run_call(Scripted(mk_script(rng)), os.path.join(d, name_a), num, rng.choice([3, 5]), freq)

                def own(name):
                    out = {}
                    for fn in os.listdir(d):
                        if fn.startswith(name + "_") and fn.endswith(".pkl") and fn[len(name) + 1:-4].isdigit():
                            out[fn] = open(os.path.join(d, fn), "rb").read()
                    return out
                files_a = own(name_a)
                others = sorted(set(os.listdir(d)) - set(files_a))
                if not files_a or others:
                    rep.violate(f"a run with checkpoint_base_name '{name_a}' left the files {sorted(os.listdir(d))}: expected only "
                                f"'{name_a}_<generation>.pkl'", "C13:checkpoint-name", case)
                    continue
                for fn in files_a:
                    g = int(fn[len(name_a) + 1:-4])
                    with warnings.catch_warnings():
                        warnings.simplefilter("ignore")
                        o = load_evolutionary_optimizer_from_file(os.path.join(d, fn))
                    if o.generational_age != g:
                        rep.violate(f"checkpoint '{fn}' holds generation {o.generational_age}", "C13:checkpoint-name", case)
                CLOCK.ms = 0
                run_call(Scripted(mk_script(rng)), os.path.join(d, name_b), num, rng.choice([3, 5, 7]), freq)
                after = own(name_a)
                if after != files_a:
                    rep.violate(f"a second run with base name '{name_b}' in the same directory removed or rewrote checkpoints of the run "
                                f"'{name_a}': {sorted(files_a)} -> {sorted(after)}", "C13:foreign-deleted", case)
            finally:
                shutil.rmtree(d, ignore_errors=True)


def run(ctx, rep):
    rep.rule = ("checkpointed runs (num_checkpoints 1..3/None, frequencies 1..3, fresh and resumed-from-checkpoint) with a crash injected "
                "before every file-system step; dump/load round trips of islands (int-list and AGraph) and serial archipelagos; base names with dots and two runs sharing a directory; "
                "distinct = distinct (configuration, crash point); non-trivial = at least one checkpoint written")
    rep.assumptions = ["file system: open('wb') truncates, writes are not atomic, os.replace/os.remove are atomic",
                       "dill round trip and RNG transparency are validated on samples, not proved"]
    rep.validated_only = ["lossless: load(dump(o)) == o on populations, fitness, flags, ages, constants, hall of fame, counts, diagnostics",
                          "transparent: identical continuation under the same numpy/random state"]
    rotation(ctx, rep)
    names_oracle(ctx, rep)
    transparent_convergence(ctx, rep)
    lossless(ctx, rep)


def replay(ctx, rep, rp):
    rep.case(("replay",), True)
    rep.case(("replay2",), True)
    rotation(ctx, rep)


if __name__ == "__main__":
    harness_main("C13", run, replay)
