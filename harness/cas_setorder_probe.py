"""Probe: does the iteration order of the hash containers in constant_folding.py influence simplify_stack?
 * const_subset iterated ascending / descending / native set order
 * frozenset children sizes (claim: always 1)
"""
import random, signal, sys, warnings
from collections import Counter
import numpy as np
sys.path.insert(0, "/tmp/pa_cas")
from harness import cas_diff as D
from bingo.symbolic_regression.agraph.simplification_backend import constant_folding as cf
from bingo.symbolic_regression.agraph.simplification_backend import simplification_backend as sb
from itertools import combinations
warnings.filterwarnings("ignore")

MODE = ["native"]
class OSet(set):
    def __iter__(self):
        xs = sorted(set.__iter__(self))
        if MODE[0] == "desc":
            xs.reverse()
        return iter(xs)

def subsets(constants):
    for i in range(1, len(constants) + 1):
        for comb in combinations(constants, i):
            yield set(comb) if MODE[0] == "native" else OSet(comb)
cf._subsets = subsets

stats = Counter()
orig_gen = cf._generate_replacement_instructions
def gen(const_subset, constants, insertion_points):
    for _, ins in insertion_points.items():
        stats["n_insertions_%d" % min(len(ins), 3)] += 1
        for parent, children in ins:
            stats["children_%d" % min(len(children), 3)] += 1
    if len(insertion_points) <= len(const_subset):
        stats["zip_%d_%d" % (min(len(const_subset), 3), min(len(insertion_points), 3))] += 1
    return orig_gen(const_subset, constants, insertion_points)
cf._generate_replacement_instructions = gen

def run(st):
    return D.run_python(st)

n, seed = int(sys.argv[1]), int(sys.argv[2])
cases = D.gen_cases(n, seed, 0.0)
diff = 0
for st in cases:
    res = []
    for m in ("native", "asc", "desc"):
        MODE[0] = m
        res.append(run(st))
    if any(r[0] == "timeout" for r in res):
        stats["timeout"] += 1
        continue
    if not (res[0] == res[1] == res[2]):
        diff += 1
        print("ORDER DEPENDENT", st, res)
print("cases", len(cases), "order-dependent", diff)
print(dict(sorted(stats.items())))
