import random, re, sys
from harness.c16_defects import p2
rng = random.Random(int(sys.argv[2]))
cls = p2(rng, int(sys.argv[1]))
print({k: len(v) for k, v in cls.items()})
pat = re.compile(r"(^|[^\w.)])-\d[\d.]*(e[+-]?\d+)?\*\*")
other = [it for it in cls.get("VALUE-DIFFERS", []) if not pat.search(it[0])]
print("value-differs without '-<num>**':", len(other))
for it in sorted(other, key=lambda it: len(it[0]))[:40]:
    print("   ", str(it)[:330])
