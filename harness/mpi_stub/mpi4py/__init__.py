"""Deterministic thread-based stand-in for mpi4py (verification harness only).

`from mpi4py import MPI` gives the stub in `mpi4py/MPI.py`: several MPI ranks run as threads of ONE
Python process under a central, seeded scheduler (only one rank thread runs at a time), with buffered
point-to-point messages, rank-ordered collectives, an event log and deadlock detection.
See `MPI.run_ranks`.
"""
__version__ = "0.0-stub"
STUB = True


class _RC:
    initialize = True
    finalize = True
    threads = True
    thread_level = "multiple"


rc = _RC()


def get_config():
    return {"stub": True}
