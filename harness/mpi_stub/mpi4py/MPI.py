"""Stub of `mpi4py.MPI`: N ranks as threads of one process under a deterministic token scheduler.

Execution model
---------------
* One OS thread per rank, but exactly one of them holds the *token* and runs; all others are parked
  on their private semaphore.  Hence the run is sequential and deterministic given (policy, seed).
* Every communication call is split into one or two *operations* (`isend`, `iprobe`, `recv`,
  `sendrecv-send`, `sendrecv-recv`, `<collective>-enter`, `<collective>-leave`, `yield`).  When a rank
  reaches an operation it registers it as *pending* together with an enabledness predicate and gives
  the token back (a *scheduling point*).  The scheduler computes the set of ranks whose pending
  operation is enabled, asks the policy to choose one, increments the step counter and hands the token
  to the chosen rank, which executes the operation atomically, logs it as `(step, rank, kind, ...)` and
  runs on (rank-local code) until it reaches its next operation or finishes.
* `recv`/`sendrecv-recv` are enabled iff a matching message is in the mailbox; `<collective>-leave`
  iff all ranks have entered that collective instance (or, with `sync_collectives=False`, the minimal
  MPI condition: bcast/scatter non-roots need the root, gather/reduce roots need everybody).
  Everything else is always enabled.
* Sends are buffered: the message is pickled (copy semantics, `MPI.pickle` as configured by the
  application, bingo uses dill) and appended to the destination's mailbox; the request is complete.
  Matching takes the first message in arrival order that fits (source, tag) => non-overtaking per
  (source, tag).
* No enabled rank and not everybody finished => DEADLOCK, reported with each rank's pending operation
  and Python stack.  More than `max_steps` steps => "step-limit".  A monitor in the calling thread
  enforces a wall-clock limit and detects a lost token ("stub-stall", an internal error of the stub).
* With `rng_seed` every rank owns a private state of `numpy.random` / `random` (swapped at token
  hand-over), as separate MPI processes would.
"""
import random as _pyrandom
import sys as _sys
import threading as _threading
import time as _time
import traceback as _traceback
import pickle as _stdpickle

try:  # numpy is only needed for the per-rank RNG swap
    import numpy as _np
except Exception:  # pragma: no cover
    _np = None

ANY_SOURCE = -1
ANY_TAG = -1
PROC_NULL = -2
UNDEFINED = -32766

_tls = _threading.local()


# ----------------------------------------------------------------------------- small MPI objects

class Op:
    def __init__(self, name, fn):
        self.name = name
        self.fn = fn

    def __call__(self, a, b):
        return self.fn(a, b)

    def __repr__(self):
        return f"<stub MPI.{self.name}>"


MIN = Op("MIN", lambda a, b: b if b < a else a)
MAX = Op("MAX", lambda a, b: b if b > a else a)
SUM = Op("SUM", lambda a, b: a + b)
PROD = Op("PROD", lambda a, b: a * b)
LAND = Op("LAND", lambda a, b: bool(a) and bool(b))
LOR = Op("LOR", lambda a, b: bool(a) or bool(b))


class Pickle:
    """`MPI.pickle`; bingo calls `MPI.pickle.__init__(dill.dumps, dill.loads)`"""

    def __init__(self, dumps=None, loads=None, protocol=None):
        self._dumps = dumps if dumps is not None else _stdpickle.dumps
        self._loads = loads if loads is not None else _stdpickle.loads
        self.PROTOCOL = protocol

    def dumps(self, obj):
        return self._dumps(obj)

    def loads(self, data):
        return self._loads(data)


pickle = Pickle()


class Status:
    def __init__(self):
        self.source = UNDEFINED
        self.tag = UNDEFINED

    def Get_source(self):
        return self.source

    def Get_tag(self):
        return self.tag

    def Set_source(self, source):
        self.source = source

    def Set_tag(self, tag):
        self.tag = tag


class Request:
    """request of a buffered send: already complete"""

    def __init__(self, value=None):
        self._value = value

    def Wait(self, status=None):
        return True

    def wait(self, status=None):
        return self._value

    def Test(self, status=None):
        return True

    def test(self, status=None):
        return True, self._value


class StubError(RuntimeError):
    """misuse of the stub (mismatched collectives, bad rank, ...)"""


class _Abort(BaseException):
    """raised inside rank threads to unwind them when the run is aborted"""


# ----------------------------------------------------------------------------- policies

class RandomPolicy:
    """seeded uniform (or weighted) choice among the enabled ranks"""

    def __init__(self, seed, weights=None):
        self.seed = seed
        self.weights = weights
        self.rng = _pyrandom.Random(seed)

    def reset(self):
        self.rng = _pyrandom.Random(self.seed)

    def choose(self, step, enabled, sched):
        if self.weights is None:
            return enabled[self.rng.randrange(len(enabled))]
        return self.rng.choices(enabled, [self.weights[q] for q in enabled])[0]


class RoundRobinPolicy:
    """the enabled rank following the previously chosen one, cyclically"""

    def __init__(self):
        self.last = -1

    def reset(self):
        self.last = -1

    def choose(self, step, enabled, sched):
        later = [q for q in enabled if q > self.last]
        self.last = later[0] if later else enabled[0]
        return self.last


class PriorityPolicy:
    """PCT-style adversarial policy: random rank priorities, the enabled rank of highest priority runs;
    at `changes` random steps (< horizon) the running rank's priority drops below all others"""

    def __init__(self, seed, changes=2, horizon=400):
        self.seed, self.changes, self.horizon = seed, changes, horizon
        self.reset()

    def reset(self):
        self.rng = _pyrandom.Random(self.seed)
        self.prio = None
        self.points = sorted(self.rng.randrange(self.horizon) for _ in range(self.changes))
        self.low = 0

    def choose(self, step, enabled, sched):
        if self.prio is None:
            self.prio = list(range(1, sched.n + 1))
            self.rng.shuffle(self.prio)
        best = max(enabled, key=lambda q: self.prio[q])
        if step in self.points:
            self.low -= 1
            self.prio[best] = self.low
            best = max(enabled, key=lambda q: self.prio[q])
        return best


class ExplicitPolicy:
    """follow `schedule` (list of rank ids, one per step); where the wanted rank is not enabled, or the
    list is exhausted, fall back to `fallback` (default: lowest enabled rank).  `diverged` lists the
    steps at which the wanted rank was not enabled."""

    def __init__(self, schedule, fallback=None):
        self.schedule = list(schedule)
        self.fallback = fallback
        self.diverged = []

    def reset(self):
        self.diverged = []
        if self.fallback is not None:
            self.fallback.reset()

    def choose(self, step, enabled, sched):
        if step < len(self.schedule):
            want = self.schedule[step]
            if want in enabled:
                return want
            self.diverged.append(step)
        if self.fallback is not None:
            return self.fallback.choose(step, enabled, sched)
        return enabled[0]


# ----------------------------------------------------------------------------- scheduler

class RunResult:
    def __init__(self):
        self.verdict = None        # ok | error | deadlock | step-limit | wallclock | stub-stall | collective-mismatch
        self.results = None        # per-rank return values of fn
        self.errors = None         # per-rank None or (exc_type_name, message, traceback_text)
        self.log = None            # list of event tuples (step, rank, kind, ...)
        self.leftover = None       # per-rank list of (source, tag, object) still in the mailbox
        self.blocked = None        # per-rank description of state at the end (pending op / finished)
        self.stacks = None         # per-rank stack text at deadlock
        self.schedule = None       # the ranks chosen at steps 1..steps (replay with ExplicitPolicy)
        self.choices = None        # per step (enabled ranks tuple, pending op kinds of the enabled ranks)
        self.steps = 0
        self.wall = 0.0

    def __repr__(self):
        return f"<RunResult {self.verdict} steps={self.steps}>"


class Scheduler:
    def __init__(self, n, policy, max_steps, sync_collectives=True, rng_seed=None, record_choices=True):
        self.n = n
        self.policy = policy
        self.max_steps = max_steps
        self.sync_collectives = sync_collectives
        self.rng_seed = rng_seed
        self.record_choices = record_choices
        self.step = 0
        self.log = []
        self.mail = [[] for _ in range(n)]          # (source, tag, payload bytes), arrival order
        self.status = ["new"] * n                   # new | starting | running | pending | finished
        self.pending = [None] * n                   # (kind, enabled_fn, description, args)
        self.sems = [_threading.Semaphore(0) for _ in range(n)]
        self.done = _threading.Semaphore(0)
        self.abort = None
        self.abort_detail = None
        self.results = [None] * n
        self.errors = [None] * n
        self.schedule = []
        self.choices = []
        self.coll = {}
        self.coll_seq = [0] * n
        self.rng_states = [None] * n
        self.threads = [None] * n
        self.segments = 0                           # number of token hand-overs (progress counter)
        self.stacks = None
        self.blocked = None

    # --- rng -------------------------------------------------------------------------------
    def _rng_init(self, r):
        if self.rng_seed is None:
            return
        s = (self.rng_seed * 1000003 + 7919 * r + 17) % (2 ** 32)
        if _np is not None:
            _np.random.seed(s)
        _pyrandom.seed(s)

    def _rng_save(self, r):
        if self.rng_seed is None:
            return
        self.rng_states[r] = (_np.random.get_state() if _np is not None else None, _pyrandom.getstate())

    def _rng_restore(self, r):
        if self.rng_seed is None or self.rng_states[r] is None:
            return
        a, b = self.rng_states[r]
        if a is not None:
            _np.random.set_state(a)
        _pyrandom.setstate(b)

    # --- token -----------------------------------------------------------------------------
    def _wait_token(self, r):
        self.sems[r].acquire()
        if self.abort is not None:
            raise _Abort()
        self.status[r] = "running"
        self.segments += 1

    def _do_abort(self, reason, detail=None):
        if self.abort is None:
            self.abort = reason
            self.abort_detail = detail
            self.blocked = self.describe_blocked()
            if reason == "deadlock":
                self.stacks = self._collect_stacks()
            for s in self.sems:
                s.release()
            self.done.release()

    def _collect_stacks(self):
        frames = _sys._current_frames()
        out = []
        for r in range(self.n):
            t = self.threads[r]
            fr = frames.get(t.ident) if t is not None else None
            if fr is None:
                out.append(None)
                continue
            lines = []
            for fs in _traceback.extract_stack(fr):
                if fs.filename == __file__ or fs.filename.endswith("threading.py"):
                    continue
                lines.append(f"{fs.filename}:{fs.lineno} {fs.name}")
            out.append(lines[-6:])
        return out

    def _pick(self):
        """choose who runs next; returns a rank, or None (everything finished / aborted)"""
        for q in range(self.n):
            if self.status[q] == "new":          # start-up: run every rank up to its first operation
                self.status[q] = "starting"
                return q
        enabled = [q for q in range(self.n) if self.status[q] == "pending" and self.pending[q][1]()]
        if not enabled:
            if all(s == "finished" for s in self.status):
                self.done.release()
            else:
                self._do_abort("deadlock")
            return None
        if self.step >= self.max_steps:
            self._do_abort("step-limit")
            return None
        chosen = self.policy.choose(self.step, enabled, self)
        if chosen not in enabled:
            self._do_abort("error", f"policy chose rank {chosen} which is not enabled {enabled}")
            return None
        self.step += 1
        self.schedule.append(chosen)
        if self.record_choices:
            self.choices.append((tuple(enabled), tuple(self.pending[q][0] for q in enabled)))
        return chosen

    def sched_point(self, r, kind, enabled_fn, desc, args=()):
        """rank r has reached operation `kind`; returns when r has been granted the step for it.
        `self.pending[r] = (kind, enabled_fn, description, args)` is visible to the policy."""
        self.pending[r] = (kind, enabled_fn, desc, args)
        self.status[r] = "pending"
        nxt = self._pick()
        if self.abort is not None:
            raise _Abort()
        if nxt == r:
            self.status[r] = "running"
            self.pending[r] = None
            return
        self._rng_save(r)
        if nxt is not None:
            self.sems[nxt].release()
        self._wait_token(r)
        self._rng_restore(r)
        self.pending[r] = None

    def thread_main(self, r, fn):
        _tls.rank = r
        _tls.sched = self
        try:
            self._wait_token(r)
            self._rng_init(r)
            self.results[r] = fn(r)
        except _Abort:
            pass
        except BaseException as exc:  # noqa: BLE001  the rank's program crashed
            self.errors[r] = (type(exc).__name__, str(exc), _traceback.format_exc())
        finally:
            self.status[r] = "finished"
            self.pending[r] = None
            _tls.sched = None
            if self.abort is None:
                nxt = self._pick()
                if nxt is not None and self.abort is None:
                    self.sems[nxt].release()

    # --- helpers used by the communicator -----------------------------------------------------
    def find(self, r, source, tag):
        for i, (s, t, _) in enumerate(self.mail[r]):
            if (source == ANY_SOURCE or s == source) and (tag == ANY_TAG or t == tag):
                return i
        return None

    def emit(self, r, kind, *data):
        self.log.append((self.step, r, kind) + tuple(data))

    def describe_blocked(self):
        out = []
        for r in range(self.n):
            if self.status[r] == "finished":
                out.append("finished" if self.errors[r] is None else f"crashed: {self.errors[r][0]}: {self.errors[r][1]}")
            elif self.pending[r] is not None:
                out.append(self.pending[r][2])
            else:
                out.append(self.status[r])
        return out


_ALWAYS = lambda: True  # noqa: E731


def run_ranks(n_ranks, fn, policy=None, max_steps=100000, wall_limit=60.0, sync_collectives=True,
              rng_seed=None, record_choices=True):
    """Run `fn(rank)` on `n_ranks` rank threads under `policy`.  Returns a `RunResult`."""
    if getattr(_tls, "sched", None) is not None:
        raise StubError("run_ranks is not re-entrant")
    if policy is None:
        policy = RoundRobinPolicy()
    policy.reset()
    saved_rng = None
    if rng_seed is not None:
        saved_rng = (_np.random.get_state() if _np is not None else None, _pyrandom.getstate())
    sch = Scheduler(n_ranks, policy, max_steps, sync_collectives, rng_seed, record_choices)
    t0 = _time.time()
    for r in range(n_ranks):
        t = _threading.Thread(target=sch.thread_main, args=(r, fn), name=f"rank{r}", daemon=True)
        sch.threads[r] = t
        t.start()
    first = sch._pick() if n_ranks > 0 else None
    if first is not None:
        sch.sems[first].release()
    # monitor: wall clock + lost-token detection
    last = (-1, -1)
    stalled = 0
    while True:
        if sch.done.acquire(timeout=0.25):
            break
        if _time.time() - t0 > wall_limit:
            sch._do_abort("wallclock")
            break
        cur = (sch.step, sch.segments)
        if cur == last and all(s in ("pending", "finished") for s in sch.status):
            stalled += 1
            if stalled >= 8:
                sch._do_abort("stub-stall")
                break
        else:
            stalled = 0
        last = cur
    for t in sch.threads:
        t.join(timeout=2.0)
    res = RunResult()
    res.results = sch.results
    res.errors = sch.errors
    res.log = sch.log
    res.steps = sch.step
    res.schedule = sch.schedule
    res.choices = sch.choices
    res.blocked = sch.blocked if sch.blocked is not None else sch.describe_blocked()
    res.stacks = sch.stacks
    res.wall = _time.time() - t0
    res.detail = sch.abort_detail
    left = []
    for r in range(n_ranks):
        items = []
        for (s, t, payload) in sch.mail[r]:
            try:
                obj = pickle.loads(payload)
            except BaseException:  # noqa: BLE001
                obj = "<unpicklable>"
            items.append((s, t, obj))
        left.append(items)
    res.leftover = left
    if any(e is not None for e in sch.errors):
        res.verdict = "error"
    elif sch.abort is not None:
        res.verdict = sch.abort
    else:
        res.verdict = "ok"
    if saved_rng is not None:
        if saved_rng[0] is not None:
            _np.random.set_state(saved_rng[0])
        _pyrandom.setstate(saved_rng[1])
    return res


# ----------------------------------------------------------------------------- harness API

def yield_point():
    """a pure scheduling point (always enabled); logged as (step, rank, "yield")"""
    sch = getattr(_tls, "sched", None)
    if sch is None:
        return
    r = _tls.rank
    sch.sched_point(r, "yield", _ALWAYS, "yield")
    sch.emit(r, "yield")


def log_event(kind, *data):
    """append a harness marker (step, rank, kind, *data) to the event log; NOT a scheduling point"""
    sch = getattr(_tls, "sched", None)
    if sch is None:
        return
    sch.emit(_tls.rank, kind, *data)


def my_mailbox():
    """[(source, tag)] of the messages currently waiting for the calling rank (no scheduling point)"""
    sch = getattr(_tls, "sched", None)
    if sch is None:
        return [(s, t) for (s, t, _) in _serial_mail]
    return [(s, t) for (s, t, _) in sch.mail[_tls.rank]]


def current_step():
    sch = getattr(_tls, "sched", None)
    return sch.step if sch is not None else 0


# ----------------------------------------------------------------------------- communicator

_serial_mail = []   # mailbox of the single rank when no run is active (import time, plain scripts)


class Intracomm:
    """COMM_WORLD; rank and size come from the run the calling thread belongs to"""

    # --- identity
    def _ctx(self):
        sch = getattr(_tls, "sched", None)
        if sch is None:
            return None, 0
        return sch, _tls.rank

    def Get_rank(self):
        return self._ctx()[1]

    def Get_size(self):
        sch = self._ctx()[0]
        return 1 if sch is None else sch.n

    rank = property(Get_rank)
    size = property(Get_size)

    def Get_name(self):
        return "STUB_COMM_WORLD"

    # --- point to point
    def _check_rank(self, sch, q, what):
        n = 1 if sch is None else sch.n
        if not (0 <= q < n):
            raise StubError(f"{what}: rank {q} out of range (size {n})")

    def isend(self, obj, dest, tag=0):
        sch, r = self._ctx()
        self._check_rank(sch, dest, "isend")
        if sch is None:
            _serial_mail.append((0, tag, pickle.dumps(obj)))
            return Request()
        sch.sched_point(r, "isend", _ALWAYS, f"isend(dest={dest}, tag={tag})", (dest, tag))
        sch.mail[dest].append((r, tag, pickle.dumps(obj)))
        sch.emit(r, "isend", dest, tag)
        return Request()

    def send(self, obj, dest, tag=0):
        self.isend(obj, dest, tag)

    def iprobe(self, source=ANY_SOURCE, tag=ANY_TAG, status=None):
        sch, r = self._ctx()
        if sch is None:
            found = next(((s, t) for (s, t, _) in _serial_mail
                          if source in (ANY_SOURCE, s) and tag in (ANY_TAG, t)), None)
        else:
            sch.sched_point(r, "iprobe", _ALWAYS, f"iprobe(source={source}, tag={tag})", (source, tag))
            i = sch.find(r, source, tag)
            found = None if i is None else sch.mail[r][i][:2]
            sch.emit(r, "iprobe", source, tag, None if found is None else found[0])
        if found is None:
            return False
        if status is not None:
            status.source, status.tag = found
        return True

    Iprobe = iprobe

    def recv(self, buf=None, source=ANY_SOURCE, tag=ANY_TAG, status=None):
        sch, r = self._ctx()
        if sch is None:
            for i, (s, t, payload) in enumerate(_serial_mail):
                if source in (ANY_SOURCE, s) and tag in (ANY_TAG, t):
                    del _serial_mail[i]
                    if status is not None:
                        status.source, status.tag = s, t
                    return pickle.loads(payload)
            raise StubError("recv would block forever (no run active, mailbox has no match)")
        sch.sched_point(r, "recv", lambda: sch.find(r, source, tag) is not None,
                        f"recv(source={source}, tag={tag})", (source, tag))
        i = sch.find(r, source, tag)
        s, t, payload = sch.mail[r].pop(i)
        sch.emit(r, "recv", s, t)
        if status is not None:
            status.source, status.tag = s, t
        return pickle.loads(payload)

    def sendrecv(self, sendobj, dest, sendtag=0, recvbuf=None, source=ANY_SOURCE, recvtag=ANY_TAG, status=None):
        sch, r = self._ctx()
        if sch is None:
            if dest != 0:
                raise StubError("sendrecv: bad partner outside a run")
            return pickle.loads(pickle.dumps(sendobj))
        self._check_rank(sch, dest, "sendrecv")
        sch.sched_point(r, "sendrecv-send", _ALWAYS, f"sendrecv-send(dest={dest}, tag={sendtag})")
        sch.mail[dest].append((r, sendtag, pickle.dumps(sendobj)))
        sch.emit(r, "sendrecv-send", dest, sendtag)
        sch.sched_point(r, "sendrecv-recv", lambda: sch.find(r, source, recvtag) is not None,
                        f"sendrecv-recv(source={source}, tag={recvtag})")
        i = sch.find(r, source, recvtag)
        s, t, payload = sch.mail[r].pop(i)
        sch.emit(r, "sendrecv-recv", s, t)
        if status is not None:
            status.source, status.tag = s, t
        return pickle.loads(payload)

    # --- collectives: rank-ordered folds over the pickled contributions
    def _ready(self, sch, inst, r):
        kind, root, data = inst["kind"], inst["root"], inst["data"]
        if sch.sync_collectives or kind in ("barrier", "allgather", "allreduce"):
            return len(data) == sch.n
        if kind in ("bcast", "scatter"):
            return r == root or root in data
        if kind in ("gather", "reduce"):
            return r != root or len(data) == sch.n
        return len(data) == sch.n

    def _collective(self, kind, contrib, root=None):
        """returns the list of unpickled contributions visible to the caller (None where absent)"""
        sch, r = self._ctx()
        if sch is None:
            return [pickle.loads(pickle.dumps(contrib))]
        if root is not None:
            self._check_rank(sch, root, kind)
        seq = sch.coll_seq[r]
        sch.coll_seq[r] += 1
        tail = () if root is None else (root,)
        sch.sched_point(r, kind + "-enter", _ALWAYS, f"{kind}-enter#{seq}")
        inst = sch.coll.get(seq)
        if inst is None:
            inst = sch.coll[seq] = {"kind": kind, "root": root, "data": {}, "left": 0}
        if inst["kind"] != kind or inst["root"] != root:
            sch._do_abort("collective-mismatch",
                          f"collective #{seq}: rank {r} calls {kind}(root={root}) but others {inst['kind']}(root={inst['root']})")
            raise _Abort()
        inst["data"][r] = pickle.dumps(contrib)
        sch.emit(r, kind + "-enter", *tail)
        sch.sched_point(r, kind + "-leave", lambda: self._ready(sch, inst, r), f"{kind}-leave#{seq}")
        sch.emit(r, kind + "-leave", *tail)
        vals = [pickle.loads(inst["data"][q]) if q in inst["data"] else None for q in range(sch.n)]
        inst["left"] += 1
        if inst["left"] == sch.n:
            del sch.coll[seq]
        return vals

    def Barrier(self):
        self._collective("barrier", None)

    barrier = Barrier

    def bcast(self, obj=None, root=0):
        sch, r = self._ctx()
        vals = self._collective("bcast", obj if r == root else None, root)
        return vals[root if sch is not None else 0]

    def allgather(self, sendobj):
        return self._collective("allgather", sendobj)

    def gather(self, sendobj, root=0):
        sch, r = self._ctx()
        vals = self._collective("gather", sendobj, root)
        return vals if r == root else None

    def scatter(self, sendobj=None, root=0):
        sch, r = self._ctx()
        n = 1 if sch is None else sch.n
        if r == root:
            sendobj = list(sendobj)
            if len(sendobj) != n:
                raise StubError(f"scatter: expecting {n} items, got {len(sendobj)}")
        vals = self._collective("scatter", sendobj if r == root else None, root)
        return vals[root if sch is not None else 0][r]

    def allreduce(self, sendobj, op=SUM):
        vals = self._collective("allreduce", sendobj)
        acc = vals[0]
        for v in vals[1:]:
            acc = op(acc, v)
        return acc

    def reduce(self, sendobj, op=SUM, root=0):
        sch, r = self._ctx()
        vals = self._collective("reduce", sendobj, root)
        if r != root:
            return None
        acc = vals[0]
        for v in vals[1:]:
            acc = op(acc, v)
        return acc

    def Abort(self, errorcode=0):
        sch, r = self._ctx()
        if sch is not None:
            sch._do_abort("error", f"MPI Abort({errorcode}) by rank {r}")
            raise _Abort()
        raise SystemExit(errorcode)


COMM_WORLD = Intracomm()
COMM_SELF = COMM_WORLD
Comm = Intracomm


def Wtime():
    return _time.time()


def Is_initialized():
    return True


def Is_finalized():
    return False


def Get_processor_name():
    return "stub"


class _MPIException(RuntimeError):
    pass


Exception = _MPIException  # noqa: A001  (mpi4py.MPI.Exception; defined last so the module itself never sees it)
