"""C16 -- equation strings round-trip and parse to the function they denote.

K: `harness/c16_diff.py` -- the real printer (four formats, through AGraph and directly) and the real parser
(tokenizer, shunting-yard, postfix -> commands) against the Lean port `Str.format / tokenize / infixToPostfix /
postfixToCommands / parse`: strings, token lists, postfix lists, command arrays and constants compared exactly,
errors by class; the parser tables come from the translator.
Oracle (independent, 80-digit mpmath): (a) print an equation in sympy format, construct a new equation from
the string with and without simplification, both must denote the same function at random points; (b) random
sympy expressions over the supported operators: `str(expr)` either is rejected or parses to an equation with
the same values as sympy wherever sympy's value is real and finite.
"""
import json
import math
import os
import re
import subprocess
import sys
import tempfile
import warnings

import mpmath
import numpy as np

from bingo.symbolic_regression.agraph.agraph import AGraph

from harness import gen_stacks as G
from harness.mpeval import mp_eval, UNDEF, Skip
from harness.common import harness_main, VERIF, REPO, watchdog, Timeout

NEG_BEFORE_POW = re.compile(r"(^|[^\w.)])-\s*\d+(\.\d*)?(e[+-]?\d+)?\s*\*\*", re.I)


def agree(a, b, mx):
    if a is UNDEF or b is UNDEF:
        return a is b
    tol = mpmath.mpf("1e-25") * max(1, abs(a), abs(b)) + mpmath.mpf("1e-50") * mx
    return abs(a - b) <= tol


def stack_of(ag):
    ag.get_complexity()
    return [[int(v) for v in r] for r in ag._simplified_command_array], [float(c) for c in ag.constants]


def const_chars_ok(c):
    """Python mirror of `Str.constCharsOK` (Proofs/Lemmas/StrTokenize.lean): hypothesis of `C16.tokenize_sympyStr`"""
    return len(c) > 0 and all(ch in "0123456789.e+-" for ch in c) and all(i + 1 < len(c) and c[i + 1].isdigit() for i, ch in enumerate(c) if ch == "-")


def hypotheses_hold(ctx, rep, const_strings):
    """the round-trip theorems assume `constTokOK` and `constCharsOK` of every constant string: check that Python's
    str() of the finite float constants the equations actually carry satisfies both (model predicate through the driver)"""
    if not ctx.driver_ok or not const_strings:
        return
    from harness.common import run_driver
    strs = sorted(const_strings)
    outs = run_driver(["consttok ; x" + c.encode().hex() for c in strs])
    rep.corr_cases += len(strs)
    for c, o in zip(strs, outs):
        rep.count("const_hypotheses", "checked")
        if o != "ok 1" or not const_chars_ok(c):
            rep.disagree(f"str() of a finite float constant does not satisfy the hypotheses of the C16 round-trip theorems "
                         f"(constTokOK={o}, constCharsOK={const_chars_ok(c)})", {"constant_string": c})


def roundtrip(ctx, rep):
    rng = ctx.rng
    const_strings = set()
    for t in range(ctx.n(600, 8000)):
        D = rng.choice([1, 2, 3])
        genome = G.random_stack(rng, rng.choice([2, 3, 5, 8, 12, 20]), D, rng.choice(G.OP_SUBSETS), term_prob=0.3,
                                const_prob=rng.choice([0.0, 0.4]), int_prob=rng.choice([0.0, 0.2]), n_load=rng.choice([1, 2]))
        if rng.random() < 0.12:
            # integer literals of every size a command array can hold (int64), not only small ones
            ints = [i for i, r in enumerate(genome) if r[0] == G.INTEGER]
            if ints:
                i = rng.choice(ints)
                big = rng.choice([2 ** 31 - 1, 2 ** 31, 2 ** 32 + 5, 2 ** 35 + 1, -(2 ** 31) - 1, -(2 ** 33), 2 ** 40, 2 ** 53 + 1, 2 ** 59 + 3, 10 ** 10, 10 ** 15])
                genome = [list(r) for r in genome]
                genome[i] = [G.INTEGER, big, big]
                rep.count("roundtrip", "integer literal beyond 32 bits")
        neg_ints = any(r[0] == G.INTEGER and r[1] < 0 for r in genome)
        ag = AGraph()
        ag.command_array = np.array(genome, dtype=int).reshape(-1, 3)
        L = ag.get_number_local_optimization_params()
        style = rng.random()
        if style < 0.65:
            consts = [rng.choice([-1, 1]) * round(rng.uniform(0.3, 3.0), rng.choice([1, 3, 6])) for _ in range(L)]
        elif style < 0.8:
            consts = [rng.uniform(0.3, 3.0) for _ in range(L)]
        else:
            # every magnitude a float can have (exponent notation in both directions, sub-normal, next to an integer, next to zero)
            def wide():
                k = rng.random()
                if k < 0.5:
                    return rng.choice([-1, 1]) * rng.uniform(1, 10) * 10.0 ** rng.randrange(-30, 31)
                if k < 0.7:
                    return rng.choice([-1, 1]) * rng.uniform(1, 10) * 10.0 ** rng.choice([-320, -300, -150, -60, 60, 150, 300])
                if k < 0.9:
                    return float(np.nextafter(float(rng.randrange(-3, 4)), rng.choice([-10.0, 10.0])))
                return rng.choice([5e-324, 2.2250738585072014e-308, 1.7976931348623157e308, 1e-13, 4e-13, 1e16, 123456789012345680.0])
            consts = [wide() for _ in range(L)]
            rep.count("roundtrip", "constants of every magnitude")
        ag.set_local_optimization_params(consts)
        s0, c0 = stack_of(ag)
        text = ag.get_formatted_string("sympy")
        if L and rng.random() < 0.3:
            # print, re-fit (new constants through set_local_optimization_params, the stack untouched), print again: the second
            # string must denote the equation with its NEW constants
            str(ag)
            consts = [c + rng.choice([-1.25, 0.5, 2.0]) for c in consts]
            ag.set_local_optimization_params(consts)
            s0, c0 = stack_of(ag)
            text = ag.get_formatted_string("sympy")
            rep.count("roundtrip", "printed, constants replaced, printed again")
        const_strings.update(str(c) for c in ag.constants if math.isfinite(c))
        raw_literals = None
        for use_simp in (False, True):
            case = {"genome": genome, "consts": consts, "string": text, "use_simplification": use_simp}
            rep.case((text, use_simp), any(r[0] >= 2 for r in s0))
            rep.count("roundtrip", f"simplification={use_simp}")
            try:
                with warnings.catch_warnings():
                    warnings.simplefilter("ignore")
                    with watchdog(10.0):
                        ag2 = AGraph(equation=text, use_simplification=use_simp)
                        s1, c1 = stack_of(ag2)
                    if not use_simp:
                        raw_literals = len(c1)       # literal constants of the string (negative integers come back as constants)
            except (MemoryError, OverflowError, RecursionError, Timeout):
                # huge integer powers are expanded into repeated multiplication by the simplifier (x^(3^15) -> 14 million factors):
                # a resource question of the CAS (C03's watchdog), not of the string round trip
                rep.count("roundtrip", "cas resource error / too slow")
                continue
            except Exception as exc:
                key = "C16:roundtrip-rejected"
                rep.violate(f"a string printed by bingo itself is rejected on construction: {type(exc).__name__}: {exc}", key, case)
                continue
            bad = None
            for _ in range(3):
                x = [G.nice_value(rng) for _ in range(D)]
                try:
                    a, mx = mp_eval(s0, x, c0, want_max=True)
                    b = mp_eval(s1, x, c1)
                except (Skip, Exception):
                    continue
                if a is UNDEF:
                    continue
                if not agree(a, b, mx):
                    bad = (x, a, b)
                    break
            if bad:
                x, a, b = bad
                from harness.mpeval import int_overflow
                if use_simp and (c0 or raw_literals):
                    # literal constants in the string (negative integers are parsed as constants too) and simplification: the known
                    # finding F11a, whatever the size of the integers involved
                    key = "C16:F11a-constants-rebound-after-simplification"
                elif use_simp and (int_overflow(s0) or any(r[0] == G.INTEGER and abs(r[1]) >= 2 ** 53 for r in s1)):
                    key = "C16:F3b-int64-wrap"
                elif NEG_BEFORE_POW.search(text):
                    key = "C16:F11b-negative-literal-before-power"       # repaired in /repo: reported if it ever returns
                else:
                    key = "C16:roundtrip-differs"
                rep.violate(f"equation rebuilt from its own sympy string evaluates to {b if b is UNDEF else mpmath.nstr(b, 12)} instead of "
                            f"{mpmath.nstr(a, 12)} at x={x}", key, {**case, "x": x, "rebuilt_stack": s1, "rebuilt_consts": c1})
    hypotheses_hold(ctx, rep, const_strings)


def sympy_strings(ctx, rep):
    import sympy as sp
    rng = ctx.rng
    X = sp.symbols("X_0 X_1 X_2")

    def rnd(depth):
        if depth == 0 or rng.random() < 0.25:
            r = rng.random()
            if r < 0.5:
                return rng.choice(X)
            if r < 0.7:
                return sp.Integer(rng.randrange(-4, 6))
            if r < 0.85:
                return sp.Rational(rng.randrange(-5, 6), rng.choice([2, 3, 7]))
            return sp.Float(rng.choice([-1, 1]) * round(rng.uniform(0.1, 9.0), 3))
        k = rng.random()
        if k < 0.25:
            return rnd(depth - 1) + rnd(depth - 1)
        if k < 0.4:
            return rnd(depth - 1) - rnd(depth - 1)
        if k < 0.6:
            return rnd(depth - 1) * rnd(depth - 1)
        if k < 0.7:
            return rnd(depth - 1) / rnd(depth - 1)
        if k < 0.8:
            return rnd(depth - 1) ** rng.choice([2, 3, -1, -2, sp.Rational(1, 2), rng.choice(X)])
        f = rng.choice([sp.sin, sp.cos, sp.exp, sp.sinh, sp.cosh, lambda e: sp.log(sp.Abs(e)), lambda e: sp.sqrt(sp.Abs(e)), sp.Abs])
        return f(rnd(depth - 1))
    for t in range(ctx.n(500, 6000)):
        try:
            with warnings.catch_warnings():
                warnings.simplefilter("ignore")
                expr = rnd(rng.choice([1, 2, 3]))
            text = str(expr)
        except Exception:
            continue
        rep.case(("sympy", text), True)
        try:
            with warnings.catch_warnings():
                warnings.simplefilter("ignore")
                ag = AGraph(equation=text)
                s1, c1 = stack_of(ag)
            rep.count("sympy_strings", "accepted")
        except Exception:
            rep.count("sympy_strings", "rejected")
            continue
        f = sp.lambdify(X, expr, modules="mpmath")
        # every sub-expression must be real at the point: bingo's sqrt / log are the real-domain sqrt|.| / log|.|, and sympy's
        # value can be real through a complex intermediate (cos(sqrt(x)) = cosh(sqrt(-x)) for x < 0), which is outside the property
        subs_ = [e for e in sp.preorder_traversal(expr) if not e.is_Atom]
        fsub = sp.lambdify(X, subs_, modules="mpmath") if subs_ else None
        for _ in range(3):
            x = [G.nice_value(rng) for _ in range(3)]
            try:
                want = f(*[mpmath.mpf(v) for v in x])
                want = mpmath.mpmathify(want)
                if True:
                    inter = [mpmath.mpmathify(v) for v in fsub(*[mpmath.mpf(v) for v in x])] if fsub is not None else []
                    if any(isinstance(v, mpmath.mpc) and abs(v.imag) > mpmath.mpf("1e-40") for v in inter) or \
                            any(not mpmath.isfinite(v) or abs(v) > mpmath.mpf("1e300") for v in inter + [want]):
                        # (values beyond the binary64 range are infinite for bingo: not "finite" in floating point)
                        rep.count("sympy_strings", "point skipped: complex or non-finite intermediate")
                        continue
            except Exception:
                continue
            if isinstance(want, mpmath.mpc):
                if abs(want.imag) > mpmath.mpf("1e-40"):
                    continue
                want = want.real
            if not mpmath.isfinite(want):
                continue
            try:
                got = mp_eval(s1, x, c1)
            except (Skip, Exception):
                continue
            if got is UNDEF or abs(got - want) > mpmath.mpf("1e-9") * max(1, abs(want)):
                key = "C16:F11b-negative-literal-before-power" if NEG_BEFORE_POW.search(text) else "C16:sympy-string-misparsed"
                rep.violate(f"sympy string parsed to a different function: sympy value {mpmath.nstr(want, 12)}, bingo value "
                            f"{got if got is UNDEF else mpmath.nstr(got, 12)} at {x}", key, {"string": text, "stack": s1, "consts": c1, "x": x})
                break


def sharing_strings(ctx, rep):
    """strings over very few atoms in which the same operands meet the same non-commutative operator in both orders: the
    parser's sharing of repeated sub-expressions must keep operand order; oracle = the tree the string was printed from"""
    rng = ctx.rng
    for t in range(ctx.n(400, 5000)):
        text, tree = G.share_expr(rng, rng.choice([1, 2, 2, 3]))
        want_stack = G.tree_to_stack(tree, share=False)
        rep.case(("sharing", text), True)
        for use_simp in (False, True):
            rep.count("sharing_strings", f"simplification={use_simp}")
            try:
                with warnings.catch_warnings():
                    warnings.simplefilter("ignore")
                    with watchdog(10.0):
                        ag = AGraph(equation=text, use_simplification=use_simp)
                        s1, c1 = stack_of(ag)
            except (MemoryError, OverflowError, RecursionError, Timeout):
                rep.count("sharing_strings", "cas resource error / too slow")
                continue
            except Exception as exc:
                rep.violate(f"a well-formed equation string is rejected: {type(exc).__name__}: {exc}", "C16:sharing-rejected",
                            {"string": text, "use_simplification": use_simp})
                continue
            for _ in range(3):
                x = [G.nice_value(rng) for _ in range(2)]
                try:
                    a, mx = mp_eval(want_stack, x, [], want_max=True)
                    b = mp_eval(s1, x, c1)
                except (Skip, Exception):
                    continue
                if a is UNDEF:
                    continue
                if not agree(a, b, mx):
                    from harness.mpeval import int_overflow
                    key = "C16:string-misparsed"
                    if use_simp and int_overflow(want_stack):
                        key = "C16:F3b-int64-wrap"
                    rep.violate(f"string parsed to a different function: written {mpmath.nstr(a, 12)}, bingo {b if b is UNDEF else mpmath.nstr(b, 12)} at {x}",
                                key, {"string": text, "use_simplification": use_simp, "stack": s1, "consts": c1, "x": x})
                    break


def run(ctx, rep):
    rep.rule = ("(K) c16_diff: printing of generated / hand stacks with all 16 node types in four formats incl. special constants; parsing of bingo's own "
                "sympy/console output, of str(sympy expression) over the supported functions, of malformed strings; (oracle) round trip through the "
                "string constructor with and without simplification (constants of every magnitude, integer literals up to 2^59, print / new constants / print again), sympy strings vs sympy's own values; distinct = distinct strings")
    rep.assumptions = ["float(repr(c)) == c (shortest round-trip repr of binary64)", "the parser model is exact for ASCII input (non-ASCII input is outside the model)"]
    out = tempfile.mktemp(suffix=".json")
    env = dict(os.environ)
    env["C16_JSON"] = out
    env["PYTHONPATH"] = REPO + os.pathsep + VERIF
    if ctx.driver_ok:
        p = subprocess.run([sys.executable, os.path.join(VERIF, "harness", "c16_diff.py"), str(ctx.n(1500, 20000)), str(ctx.seed + 1)],
                           stdout=subprocess.PIPE, stderr=subprocess.STDOUT, env=env, timeout=3 * 3600 if ctx.thorough() else 1200)
        if not os.path.exists(out):
            rep.disagree("c16_diff.py produced no summary: " + p.stdout.decode()[-300:], {})
        else:
            d = json.load(open(out))
            os.remove(out)
            rep.corr_cases = d["comparisons"]
            rep.evaluations += d["distinct"]
            for i in range(d["distinct"]):
                rep.distinct.add(repr(("k", i)).encode())
            rep.distribution["k_counts"] = d["counts"]
            rep.distribution["k_python_errors"] = d["python_errors"]
            for m in d["mismatches"]:
                rep.disagree("printer / parser: model and code disagree", m)
    roundtrip(ctx, rep)
    sympy_strings(ctx, rep)
    sharing_strings(ctx, rep)


def replay(ctx, rep, rp):
    rep.case(("replay",), True)
    rep.case(("replay2",), True)
    case = rp.get("case", {})
    if "string" in case:
        try:
            ag = AGraph(equation=case["string"], use_simplification=case.get("use_simplification", False))
            print("replay: parsed", stack_of(ag))
        except Exception as exc:
            print("replay: rejected", exc)


if __name__ == "__main__":
    harness_main("C16", run, replay)
