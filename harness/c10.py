"""C10 -- hall of fame / Pareto front hold exactly the best / non-dominated seen.

K: random operation histories (update / insert / remove / clear) on the real `HallOfFame` and `ParetoFront`
against the Lean model, state compared after every operation (keys, secondary keys, identities).
Oracle (independent): after every update of an update-only history -- sorted, no NaN, key multiset == the m
smallest non-NaN keys ever offered, ties in arrival order, entries are independent copies; Pareto front ==
non-dominated set of everything offered, antichain, no two similar members.
"""
import copy
import itertools
import math

import numpy as np

from bingo.chromosomes.multiple_values import MultipleValueChromosome
from bingo.stats.hall_of_fame import HallOfFame
from bingo.stats.pareto_front import ParetoFront

from harness.common import harness_main, run_driver
from harness.keys import key_to_float, float_to_key, random_key, kstr


def mk(rng, key, key2, ident):
    c = MultipleValueChromosome([ident, key_to_float(key2, rng)])
    c.fitness = key_to_float(key, rng)
    return c


def item_str(key, key2, ident):
    return f"{kstr(key)}:{kstr(key2)}:{ident}"


def state_of(h):
    return [(float_to_key(c.fitness), float_to_key(c.values[1]), c.values[0]) for c in h]


def sim_fn(a, b):
    return a.values[0] % 3 == b.values[0] % 3


def dominates(a, b):
    """a, b = (k1, k2) non-NaN ints"""
    return a[0] <= b[0] and a[1] <= b[1] and a != b


def gen_history(rng, allow_manual, max_ops, small=True):
    """list of ops: ('u', [(k,k2,id)...]) | ('i', (k,k2,id)) | ('r', idx) | ('c',)"""
    ops = []
    nid = 0
    pool = []      # previously offered (to re-offer the same values)
    for _ in range(rng.randrange(1, max_ops + 1)):
        r = rng.random()
        if not allow_manual or r < 0.7:
            pop = []
            for _ in range(rng.randrange(0, 7)):
                if pool and rng.random() < 0.2:
                    k, k2, _ = rng.choice(pool)
                else:
                    k, k2 = random_key(rng, small=small), random_key(rng, nan_prob=0.08, small=small)
                pop.append((k, k2, nid))
                pool.append((k, k2, nid))
                nid += 1
                if rng.random() < 0.12:
                    pop.append(pop[-1])            # the very same individual (object) a second time in one population
            ops.append(("u", pop))
        elif r < 0.82:
            k, k2 = random_key(rng, nan_prob=0.0, small=small), random_key(rng, nan_prob=0.0, small=small)
            ops.append(("i", (k, k2, nid)))
            nid += 1
        elif r < 0.95:
            ops.append(("r", rng.randrange(-3, 4)))
        else:
            ops.append(("c",))
    return ops


def op_str(op):
    if op[0] == "u":
        return "u " + " ".join(item_str(*it) for it in op[1])
    if op[0] == "i":
        return "i " + item_str(*op[1])
    if op[0] == "r":
        return f"r {op[1]}"
    return "c"


def run_real(rng, kind, cap, simmode, ops, rep=None, oracle=False, case=None):
    """returns list of states (or 'err') after each op"""
    sim = sim_fn if simmode == 1 else None
    if kind == "hof":
        h = HallOfFame(cap, similarity_function=sim)
    else:
        h = ParetoFront(secondary_key=lambda c: c.values[1], similarity_function=sim)
    states = []
    offered = []
    for op in ops:
        try:
            if op[0] == "u":
                objs = {}
                pop = [objs.setdefault(it, mk(rng, *it)) if it in objs or op[1].count(it) > 1 else mk(rng, *it) for it in op[1]]
                h.update(pop)
                offered += list(op[1])
                if oracle:
                    check_oracle(rep, kind, cap, simmode, h, offered, pop, case)
            elif op[0] == "i":
                obj = mk(rng, *op[1])
                h.insert(obj)
                if rep is not None and any(c is obj for c in h):
                    rep.violate(f"{kind}: insert stored the offered object itself, not a copy", "C10:not-a-copy", case)
            elif op[0] == "r":
                h.remove(op[1])
            else:
                h.clear()
            if rep is not None and kind == "hof" and not oracle:
                check_order(rep, kind, h, case)       # theorem C10.history_inv: interleaved insert / remove / clear
            states.append(state_of(h))
        except IndexError:
            states.append("err")
            break
    return states


def check_order(rep, kind, h, case):
    """ordering, NaN-exclusion and arrival order among equals (hold after every mutator, manual ones included)"""
    st = state_of(h)
    keys = [s[0] for s in st]
    if any(k == "nan" for k in keys) or (kind == "pf" and any(s[1] == "nan" for s in st)):
        rep.violate(f"{kind}: holds a NaN key: {st}", "C10:nan-member", case)
        return False
    if keys != sorted(keys):
        rep.violate(f"{kind}: keys not ascending: {keys}", "C10:not-sorted", case)
    for a, b in zip(st, st[1:]):
        if a[0] == b[0] and not a[2] <= b[2]:
            rep.violate(f"{kind}: equal keys not in arrival order: {st}", "C10:tie-order", case)
    return True


def check_oracle(rep, kind, cap, simmode, h, offered, last_pop, case):
    st = state_of(h)
    keys = [s[0] for s in st]
    if not check_order(rep, kind, h, case):
        return
    # independence of copies
    ids_pop = {id(c) for c in last_pop}
    if any(id(c) in ids_pop for c in h):
        rep.violate(f"{kind}: holds the offered object itself, not a copy", "C10:not-a-copy", case)
    offered_ok = [o for o in offered if o[0] != "nan"]
    if kind == "hof":
        if len(st) > cap:
            rep.violate(f"hof: {len(st)} entries exceed capacity {cap}", "C10:over-capacity", case)
        if simmode == 0:
            want = sorted(o[0] for o in offered_ok)[:cap]
            if keys != want:
                rep.violate(f"hof: keys {keys} are not the {cap} smallest offered {want}", "C10:not-the-best", case)
        else:
            for a, b in itertools.combinations(st, 2):
                pass  # no exactness claim with a similarity filter
    else:
        good = [o for o in offered if o[0] != "nan" and o[1] != "nan"]
        members = {s[2] for s in st}
        for a, b in itertools.combinations(st, 2):
            if dominates(a[:2], b[:2]) or dominates(b[:2], a[:2]):
                rep.violate(f"pareto: two members dominate each other: {a} {b}", "C10:pf-not-antichain", case)
            if simmode == 1 and a[2] % 3 == b[2] % 3:
                rep.violate(f"pareto: two similar members: {a} {b}", "C10:pf-similar", case)
        if simmode == 0:
            want = {o[2] for o in good if not any(dominates(p[:2], o[:2]) for p in good)}
            if members != want:
                rep.violate(f"pareto: members {sorted(members)} != non-dominated offered {sorted(want)}", "C10:pf-not-exact", case)


def run(ctx, rep):
    rng = ctx.rng
    rep.rule = ("random operation histories (1..12 ops; populations 0..6 with ties, NaN, +-inf, re-offered values; capacities 1..6; with and "
                "without the similarity filter) on HallOfFame and ParetoFront; distinct = distinct (kind, capacity, filter, history); "
                "non-trivial = at least one update that changes the state")
    rep.assumptions = ["keys are floats mapped order-preservingly to integers (halves, +-inf, NaN); deepcopy of chromosomes is Python's"]
    lines, meta = [], []
    n = ctx.n(3000, 60000)
    for k in range(n):
        kind = "hof" if k % 2 == 0 else "pf"
        cap = rng.randrange(1, 7)
        simmode = 1 if rng.random() < 0.3 else 0
        manual = rng.random() < 0.35
        ops = gen_history(rng, manual, 12)
        case = {"kind": kind, "cap": cap, "sim": simmode, "ops": [op_str(o) for o in ops]}
        states = run_real(rng, kind, cap, simmode, ops, rep, oracle=not manual, case=case)
        changed = any(s != "err" and s for s in states)
        rep.case((kind, cap, simmode, tuple(case["ops"])), changed)
        rep.count("kind", kind)
        rep.count("manual_ops", manual)
        rep.count("sim", simmode)
        rep.count("n_ops", len(ops))
        rep.sample({**case, "final": states[-1] if states else None})
        if ctx.driver_ok:
            if kind == "hof":
                lines.append(f"hofhist ; {cap} ; {simmode} ; " + " ; ".join(op_str(o) for o in ops))
            else:
                lines.append(f"pfhist ; {simmode} ; " + " ; ".join(op_str(o) for o in ops))
            meta.append((case, states))
    if ctx.thorough():
        exhaustive(ctx, rep)
    if ctx.driver_ok:
        outs = run_driver(lines)
        rep.corr_cases = len(lines)
        for line, o, (case, states) in zip(lines, outs, meta):
            got = [("err" if s.strip() == "err" else s.split()) for s in o.split(" | ")]
            want = [("err" if s == "err" else [item_str(*it) for it in s]) for s in states]
            if got != want:
                # locate the first differing op
                idx = next((i for i, (a, b) in enumerate(zip(got, want)) if a != b), min(len(got), len(want)))
                rep.disagree(f"state after op {idx} differs: model {got[idx] if idx < len(got) else None} vs code {want[idx] if idx < len(want) else None}",
                             {"line": line, **case})


def exhaustive(ctx, rep):
    """all update-only histories of <= 4 offers over a 3x3 key grid plus NaN (oracle on the real code)"""
    vals = [0, 1, 2, "nan"]
    count = 0
    for n in range(1, 5):
        for ks in itertools.product(vals, repeat=n):
            for k2s in itertools.islice(itertools.product([0, 1, 2], repeat=n), 0, 9):
                ops = [("u", [(k, k2, i)]) for i, (k, k2) in enumerate(zip(ks, k2s))]
                for kind, cap in (("hof", 1), ("hof", 2), ("pf", 0)):
                    case = {"kind": kind, "cap": cap, "sim": 0, "ops": [op_str(o) for o in ops]}
                    run_real(ctx.rng, kind, cap, 0, ops, rep, oracle=True, case=case)
                    count += 1
    rep.extra["exhaustive_histories"] = count
    rep.evaluations += count


def replay(ctx, rep, rp):
    case = rp.get("case", {})
    rep.case(("replay",), True)
    rep.case(("replay2",), True)
    if "ops" not in case:
        return
    ops = []
    for s in case["ops"]:
        t = s.split()
        conv = lambda x: x if x == "nan" else int(x)
        if t[0] == "u":
            ops.append(("u", [tuple(conv(v) for v in it.split(":")) for it in t[1:]]))
        elif t[0] == "i":
            ops.append(("i", tuple(conv(v) for v in t[1].split(":"))))
        elif t[0] == "r":
            ops.append(("r", int(t[1])))
        else:
            ops.append(("c",))
    st = run_real(ctx.rng, case["kind"], case["cap"], case["sim"], ops, rep, oracle=True, case=case)
    print("replay states:", st)


if __name__ == "__main__":
    harness_main("C10", run, replay)
