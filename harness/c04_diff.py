"""C04 differential tester: bingo's AGraph generator / mutation / crossover against the Lean model
`Bingo.Var` (lean/Model/Variation.lean) through `bvdriver`, with draw logging.

usage:  PYTHONPATH=/repo:/tmp/pa_c04 /venv/bin/python /tmp/pa_c04/harness/c04_diff.py <n_cases> <seed>
            [--draw-cap N]   a single call of the real code that asks for more than N draws is stopped and
                             counted as a hang (default 4000; 0 = rely on the 2 s watchdog only)
            [--watchdog S]   per-call watchdog in seconds (default 2.0)
            [--replay-frac F] fraction of ok-cases whose logged draws are replayed into the real code (0.1)
            [--examples N]   examples printed per defect class (default 2)

Per real call the model is asked: the logged draws (same child(ren), `used` = all draws | same exception class |
`out-of-draws` after a hang); for ok-cases also the draws minus the last one (`out-of-draws`), the draws plus two
junk draws (same answer, same `used`), `mutatekind` without the kind draw, and "range probes": draw k replaced by
the exclusive upper bound the real code asked for (`bad-draw`, or `err IndexError` for a PMF), by that + 1 and by
the lower bound - 1 (`bad-draw`).  Oracles on the real code: parents unchanged, children well-formed
(`wfgenome` of the driver and an independent Python check), same length.  Exit code 0 iff zero mismatches.
`harness/c04_mutants.py` plants 30 bugs in the model and checks this tester finds each.

Draws are logged in this process at the level bingo calls the RNG (bingo itself is not modified):
  * ProbabilityMassFunction.draw_sample          -> index of the chosen item (same np.searchsorted)
  * np.random.randint  in component_generator.py / mutation.py / crossover.py -> returned value
  * np.random.choice   in mutation.py (_fork_mutation)                        -> position in `inds`
  * randint / randrange as imported into mutation.py                          -> returned value
"""
import itertools
import logging
import random as pyrandom
import signal
import os
import sys
import time
import warnings
from collections import Counter, defaultdict

import numpy as np

from bingo.symbolic_regression.agraph import component_generator as cg_mod
from bingo.symbolic_regression.agraph import crossover as co_mod
from bingo.symbolic_regression.agraph import mutation as mu_mod
from bingo.symbolic_regression.agraph.agraph import AGraph
from bingo.symbolic_regression.agraph.component_generator import ComponentGenerator
from bingo.symbolic_regression.agraph.crossover import AGraphCrossover
from bingo.symbolic_regression.agraph.generator import AGraphGenerator
from bingo.symbolic_regression.agraph.mutation import AGraphMutation
from bingo.util.probability_mass_function import ProbabilityMassFunction

from harness import gen_stacks as G
from harness.common import run_driver, stack_str

warnings.filterwarnings("ignore")
logging.disable(logging.CRITICAL)     # bingo logs every refused PMF weight vector

ARITY1 = [op for op in G.ALL_OPS if op not in G.ARITY2]
KIND_NAMES = ["command", "node", "parameter", "prune", "fork"]

# ----------------------------------------------------------------------------- watchdog


class Timeout(BaseException):
    """not an `Exception`: `np.array_equal` (called in bingo's rejection loops) wraps its body in
    `try: ... except Exception: return False`, which swallows the `Timeout(Exception)` of harness.common.watchdog
    when the alarm happens to fire there -- and the one-shot timer never fires again"""


class watchdog:
    """with watchdog(2.0): ...   raises Timeout inside the block (main thread only); re-arms itself once more
    in case the first Timeout is swallowed by a bare `except:`"""

    def __init__(self, seconds):
        self.seconds = seconds

    def _handler(self, signum, frame):
        signal.setitimer(signal.ITIMER_REAL, 0.5)
        raise Timeout()

    def __enter__(self):
        self.old = signal.signal(signal.SIGALRM, self._handler)
        signal.setitimer(signal.ITIMER_REAL, self.seconds)

    def __exit__(self, *a):
        signal.setitimer(signal.ITIMER_REAL, 0)
        signal.signal(signal.SIGALRM, self.old)
        return False


# ----------------------------------------------------------------------------- draw logging / replay


class DrawCap(BaseException):
    """raised by the logger when one call of the real code asked for more than CAP draws"""


class ReplayEnd(BaseException):
    """replay mode: the real code asked for a draw after the recorded ones were used up"""


class ReplayBad(BaseException):
    """replay mode: the recorded draw does not fit the request of the real code"""


LOG = []
RANGES = []      # parallel to LOG: (lo, hi, is_pmf) = the half-open range the real code asked for
STATE = {"cap": 4000, "mode": "log", "replay": [], "pos": 0}


def log(v, lo=0, hi=0, pmf=False):
    LOG.append(int(v))
    RANGES.append((int(lo), int(hi), pmf))
    if STATE["cap"] and len(LOG) > STATE["cap"]:
        raise DrawCap()
    return v


def next_replay():
    if STATE["pos"] >= len(STATE["replay"]):
        raise ReplayEnd()
    v = STATE["replay"][STATE["pos"]]
    STATE["pos"] += 1
    LOG.append(v)
    RANGES.append((0, 0, False))
    return v


def logged_draw_sample(self):
    if STATE["mode"] == "replay":
        index = next_replay()
        return self.items[index]
    index = np.searchsorted(self._cumulative_weights, np.random.random())
    log(index, 0, len(self.items), True)
    return self.items[index]


class RandomProxy:
    """stands in for `np.random` inside the three bingo modules"""

    def __init__(self, real):
        self._real = real

    def randint(self, *a, **k):
        if STATE["mode"] == "replay":
            lo, hi = (0, a[0]) if len(a) == 1 else (a[0], a[1])
            if hi <= lo:
                return self._real.randint(*a, **k)      # raises the same ValueError
            v = next_replay()
            if not lo <= v < hi:
                raise ReplayBad()
            return np.int64(v)
        v = self._real.randint(*a, **k)                 # a ValueError consumes and logs nothing
        log(v, *((0, a[0]) if len(a) == 1 else (a[0], a[1])))
        return v

    def choice(self, seq, *a, **k):
        if STATE["mode"] == "replay":
            pos = next_replay()
            if not 0 <= pos < len(seq):
                raise ReplayBad()
            return np.int64(seq[pos])
        v = self._real.choice(seq, *a, **k)
        log(list(seq).index(v), 0, len(seq))
        return v

    def __getattr__(self, name):
        return getattr(self._real, name)


class NpProxy:
    def __init__(self):
        self.random = RandomProxy(np.random)

    def __getattr__(self, name):
        return getattr(np, name)


_REAL_RANDINT = mu_mod.randint
_REAL_RANDRANGE = mu_mod.randrange


def logged_py_randint(a, b):
    if STATE["mode"] == "replay":
        if b < a:
            return _REAL_RANDINT(a, b)
        v = next_replay()
        if not a <= v <= b:
            raise ReplayBad()
        return v
    v = _REAL_RANDINT(a, b)
    log(v, a, b + 1)
    return v


def logged_py_randrange(a, b):
    if STATE["mode"] == "replay":
        if b <= a:
            return _REAL_RANDRANGE(a, b)
        v = next_replay()
        if not a <= v < b:
            raise ReplayBad()
        return v
    v = _REAL_RANDRANGE(a, b)
    log(v, a, b)
    return v


COVER = Counter()


def install_coverage():
    """pass-through wrappers that only count which branches of the real code ran"""
    real_gao = AGraphMutation._get_arity_operator
    real_fix = AGraphMutation._fix_indices
    real_ins = AGraphMutation._insert_fork
    real_fork = AGraphMutation._fork_mutation
    real_prune = AGraphMutation._prune_branch
    real_param = AGraphMutation._mutate_parameters

    def gao(self, arity):
        try:
            return real_gao(self, arity)
        except RuntimeError:
            COVER["fork: _get_arity_operator RuntimeError (arity-1 fallback)"] += 1
            raise

    def fix(self, stack, util, shifts):
        n0 = len(LOG)
        moved = any(k != v for k, v in shifts.items())
        r = real_fix(self, stack, util, shifts)
        COVER["fork: _fix_indices redrew parameters" if len(LOG) > n0 else "fork: _fix_indices no redraw"] += 1
        if moved:
            COVER["fork: rows moved"] += 1
        return r

    def ins(self, stack, fork_size, mcl, start_i, end_i):
        COVER[f"fork: size {fork_size}, spare unutilized rows {end_i - start_i + 1 - fork_size > 0}"] += 1
        return real_ins(self, stack, fork_size, mcl, start_i, end_i)

    def fork(self, individual):
        r = real_fork(self, individual)
        if self._last_mutation_location is None:
            COVER["fork: no-op (< 2 unutilized rows)"] += 1
        return r

    def prune(self, individual):
        r = real_prune(self, individual)
        COVER["prune: no-op (no location)" if self._last_mutation_location is None else "prune: pruned"] += 1
        return r

    def param(self, individual):
        r = real_param(self, individual)
        COVER["parameter: no-op (no location)" if self._last_mutation_location is None else "parameter: mutated"] += 1
        return r

    AGraphMutation._get_arity_operator = gao
    AGraphMutation._fix_indices = fix
    AGraphMutation._insert_fork = ins
    AGraphMutation._fork_mutation = fork
    AGraphMutation._prune_branch = prune
    AGraphMutation._mutate_parameters = param


def install_logging():
    ProbabilityMassFunction.draw_sample = logged_draw_sample
    proxy = NpProxy()
    cg_mod.np = proxy
    mu_mod.np = proxy
    co_mod.np = proxy
    mu_mod.randint = logged_py_randint
    mu_mod.randrange = logged_py_randrange


# ----------------------------------------------------------------------------- the real code


def make_agraph(stack):
    ag = AGraph()
    ag.command_array = np.array(stack, dtype=int).reshape(-1, 3)
    return ag


def build_cg(cfg):
    kw = {} if cfg["cp"] is None else {"constant_probability": cfg["cp"]}
    # (an explicit constant_probability=None makes the argument validation raise TypeError: None >= 0.0)
    cg = ComponentGenerator(cfg["D"], num_initial_load_statements=cfg["nLoad"],
                            terminal_probability=cfg["tp"], **kw)
    for op, w in zip(cfg["ops"], cfg["weights"]):
        cg.add_operator(op, w)
    return cg


def real_call(case):
    """the real bingo call of a case (a closure using the RNG); returns the list of child stacks"""
    cfg = case["cfg"]
    if case["op"] == "generate":
        gen = AGraphGenerator(case["size"], build_cg(cfg), use_python=True)
        return lambda: ([gen().command_array.tolist()], [])
    if case["op"] == "mutate":
        mut = AGraphMutation(build_cg(cfg), *case["probs"])
        parent = make_agraph(case["parent"])

        def f():
            child = mut(parent)
            return [child.command_array.tolist()], [parent.command_array.tolist()]
        return f
    if case["op"] == "crossover":
        cross = AGraphCrossover()
        p1, p2 = make_agraph(case["parent"]), make_agraph(case["parent2"])

        def g():
            c1, c2 = cross(p1, p2)
            return ([c1.command_array.tolist(), c2.command_array.tolist()],
                    [p1.command_array.tolist(), p2.command_array.tolist()])
        return g
    raise ValueError(case["op"])


def run_real(case, wd_seconds, replay=None):
    """-> dict(kind = ok|err|hang, stacks, parents_after, cls, why, draws)"""
    fn = real_call(case)
    LOG.clear()
    RANGES.clear()
    if replay is None:
        STATE["mode"] = "log"
        np.random.seed(case["seed"])
        pyrandom.seed(case["seed"])
    else:
        STATE["mode"], STATE["replay"], STATE["pos"] = "replay", list(replay), 0
    try:
        try:
            with watchdog(wd_seconds):
                stacks, parents_after = fn()
            return {"kind": "ok", "stacks": stacks, "parents_after": parents_after, "draws": list(LOG),
                    "ranges": list(RANGES)}
        except DrawCap:
            return {"kind": "hang", "why": "draw-cap", "draws": list(LOG)}
        except Timeout:
            return {"kind": "hang", "why": "watchdog", "draws": list(LOG)}
        except ReplayEnd:
            return {"kind": "hang", "why": "replay-end", "draws": list(LOG)}
        except ReplayBad:
            return {"kind": "bad", "draws": list(LOG)}
        except Exception as e:  # noqa
            return {"kind": "err", "cls": type(e).__name__, "msg": str(e)[:100], "draws": list(LOG)}
    finally:
        STATE["mode"] = "log"


# ----------------------------------------------------------------------------- the model


def ints(xs):
    return " ".join(str(int(x)) for x in xs)


def main_line(case, draws, forced=None):
    cfg = case["cfg"]
    if case["op"] == "generate":
        return f"generate ; {cfg['D']} {cfg['nLoad']} {case['size']} ; {ints(cfg['ops'])} ; {ints(draws)}"
    if case["op"] == "mutate":
        head = "mutate" if forced is None else f"mutatekind ; {forced}"
        return (f"{head} ; {cfg['D']} {cfg['nLoad']} ; {ints(cfg['ops'])} ; {stack_str(case['parent'])} ; "
                f"{ints(draws)}")
    return f"crossover ; {stack_str(case['parent'])} ; {stack_str(case['parent2'])} ; {ints(draws)}"


def parse_model(out):
    if out.startswith("ok"):
        parts = [p.strip() for p in out[2:].split(";")]
        used = int(parts[-1].split("=")[1])
        stacks = []
        for p in parts[:-1]:
            v = [int(t) for t in p.split()]
            stacks.append([v[i:i + 3] for i in range(0, len(v), 3)])
        return ("ok", stacks, used)
    if out.startswith("err"):
        return ("err", out.split()[1])
    return (out,)


def model_lines(case, real):
    """[(line, expected parsed answer, label)]"""
    d = real["draws"]
    forced = case.get("forced")
    out = []
    if real["kind"] == "ok":
        exp = ("ok", real["stacks"], len(d))
        out.append((main_line(case, d), exp, "main"))
        if d:
            out.append((main_line(case, d[:-1]), ("out-of-draws",), "one-draw-short"))
        out.append((main_line(case, d + [0, 987654]), exp, "extra-draws"))
        if forced is not None and d:
            out.append((main_line(case, d[1:], forced), ("ok", real["stacks"], len(d) - 1), "mutatekind"))
        # the model must ask for exactly the range the real code asked for: a draw just outside of it is refused
        for k in case.get("probe", []):
            if k < len(d) and len(real.get("ranges", [])) == len(d):
                lo, hi, pmf = real["ranges"][k]
                exp_hi = ("err", "IndexError") if pmf else ("bad-draw",)
                out.append((main_line(case, d[:k] + [hi] + d[k + 1:]), exp_hi, f"draw {k} := hi={hi}"))
                out.append((main_line(case, d[:k] + [hi + 1] + d[k + 1:]), ("bad-draw",), f"draw {k} := hi+1={hi + 1}"))
                if lo > 0:
                    out.append((main_line(case, d[:k] + [lo - 1] + d[k + 1:]), ("bad-draw",), f"draw {k} := lo-1={lo - 1}"))
    elif real["kind"] == "err":
        exp = ("err", real["cls"])
        out.append((main_line(case, d), exp, "main"))
        if forced is not None and d:
            out.append((main_line(case, d[1:], forced), exp, "mutatekind"))
    else:
        out.append((main_line(case, d), ("out-of-draws",), "main"))
        if forced is not None and d:
            out.append((main_line(case, d[1:], forced), ("out-of-draws",), "mutatekind"))
    return out


def compare(case, real, lines, outs):
    """list of mismatch descriptions"""
    bad = []
    for (line, exp, label), o in zip(lines, outs):
        got = parse_model(o)
        if got != exp:
            bad.append({"label": label, "expected": exp, "model": o[:400], "line": line[:600]})
    return bad


# ----------------------------------------------------------------------------- well-formedness (real code oracle)


def wf_genome(stack, D, ops):
    if len(stack) == 0:
        return False
    for i, (node, p1, p2) in enumerate(stack):
        if node == G.VARIABLE:
            if not 0 <= p1 < D:
                return False
        elif node in (G.CONSTANT, G.INTEGER):
            pass
        elif 2 <= node <= 15:
            if not (0 <= p1 < i and 0 <= p2 < i):
                return False
            if node not in ops:
                return False
        else:
            return False
    return True


# ----------------------------------------------------------------------------- configurations


def op_sets(rng):
    sets = []
    for k in (1, 2, 3):
        for c in itertools.combinations(G.ALL_OPS, k):
            sets.append(list(c))
    for _ in range(40):
        sets.append(list(G.ALL_OPS))
    sets.append(list(ARITY1))
    for _ in range(40):
        k = rng.randint(1, len(ARITY1))
        sets.append(rng.sample(ARITY1, k))
    for _ in range(6):
        sets.append([])
    rng.shuffle(sets)
    return sets


def random_weights(rng, n):
    mode = rng.random()
    ws = []
    for i in range(n):
        if mode < 0.3:
            w = None
        elif mode < 0.5:
            w = 1.0
        else:
            w = rng.choice([0, 0, 0.001, 0.5, 1, 1, 3, rng.random()])
        if i == 0 and w == 0:
            w = 1.0       # a zero first weight makes add_operator raise ValueError (0/0 normalisation)
        ws.append(w)
    return ws


def random_cfg(rng, ops, size):
    ops = list(ops)
    rng.shuffle(ops)
    return {"D": rng.choice([0, 1, 2, 5]), "nLoad": rng.choice([1, 2, size]), "ops": ops,
            "weights": random_weights(rng, len(ops)), "tp": rng.choice([0, 0.1, 0.5, 1]),
            "cp": rng.choice([None, 0, 0.5, 1])}


def one_hot(k):
    return [1.0 if i == k else 0.0 for i in range(5)]


def random_probs(rng):
    if rng.random() < 0.6:
        return [0.2] * 5
    p = [rng.choice([0, 0.1, 0.5, 1]) for _ in range(5)]
    if sum(p) == 0:
        p[rng.randrange(5)] = 1.0
    s = sum(p)
    if s > 1:
        p = [x / s for x in p]
    return p


def handmade_stack(rng, cfg, size, with_ints):
    """a well-formed stack bingo's generator cannot produce: INTEGER rows, CONSTANT rows with parameters other
    than -1 (as after constant renumbering), VARIABLE rows with p2 != p1 (p2 of a terminal is never read)"""
    st = G.random_stack(rng, size, cfg["D"], cfg["ops"], term_prob=rng.choice([0.1, 0.3, 0.6]),
                        const_prob=0.4, int_prob=0.15 if with_ints else 0.0,
                        n_load=min(cfg["nLoad"], size))
    if with_ints:
        for row in st:
            if row[0] == G.CONSTANT and rng.random() < 0.5:
                row[1] = row[2] = rng.choice([0, 1, 2, 7])
            elif row[0] == G.VARIABLE and rng.random() < 0.3:
                row[2] = rng.choice([-1, 0, 3])
    return st


# ----------------------------------------------------------------------------- bookkeeping


class Stats:
    def __init__(self, examples):
        self.cases = Counter()
        self.outcomes = Counter()
        self.hangs = Counter()
        self.exceptions = Counter()
        self.sizes = Counter()
        self.draw_hist = Counter()
        self.mismatches = []
        self.defects = defaultdict(lambda: {"count": 0, "examples": []})
        self.replays = Counter()
        self.examples = examples
        self.model_lines = 0
        self.checks = Counter()

    def defect(self, key, case, real, note=""):
        d = self.defects[key]
        d["count"] += 1
        ex = {"cfg": case["cfg"], "op": case["op"], "probs": case.get("probs"), "size": case.get("size"),
              "parent": case.get("parent"), "parent2": case.get("parent2"), "seed": case["seed"],
              "draws": real["draws"][:60], "n_draws": len(real["draws"]), "note": note,
              "children": real.get("stacks")}
        weight = len(case.get("parent") or []) + len(cfg_ops(case))
        d["examples"].append((weight, ex))
        d["examples"].sort(key=lambda t: t[0])
        del d["examples"][self.examples:]


def cfg_flags(cfg, brief=False):
    """which degenerate (but accepted by the constructors' argument validation) settings a configuration has;
    the secondary ones (terminal_probability 0/1, tiny or zero operator weights, <= 1 operator) are only named
    when none of the primary ones (D = 0, constant_probability 0/1, no operators) is present"""
    f = []
    if cfg["D"] == 0:
        f.append("D=0")
    if cfg["cp"] in (0, 1) and not brief:
        f.append(f"cp={cfg['cp']}")
    if len(cfg["ops"]) == 0:
        f.append("0-ops")
    if not f and not brief:
        if cfg["tp"] in (0, 1):
            f.append(f"tp={cfg['tp']}")
        if any(w is not None and w <= 0.001 for w in cfg["weights"]):
            f.append("zero/tiny-weight")
        if len(cfg["ops"]) == 1:
            f.append("1-op")
    return "+".join(f) or ("D>0" if brief else "non-degenerate")


def cfg_ops(case):
    return case["cfg"]["ops"]


def kind_label(case):
    if case["op"] != "mutate":
        return case["op"]
    if case.get("forced") is not None:
        return "mutate:" + KIND_NAMES[case["forced"]]
    return "mutate:mixed"


# ----------------------------------------------------------------------------- shrinking of mismatches


def check_sync(case, wd):
    """run the real code and the model on one case; list of mismatches"""
    real = run_real(case, wd)
    lines = model_lines(case, real)
    outs = run_driver([l for l, _, _ in lines])
    return compare(case, real, lines, outs), real


def case_fails(case, wd, seeds):
    for s in seeds:
        c = dict(case, seed=s)
        try:
            bad, _ = check_sync(c, wd)
        except Exception:  # noqa  (e.g. a shrunk configuration the constructor refuses)
            continue
        if bad:
            return c
    return None


def drop_row(stack, i):
    """remove row i when no later operator row refers to it; None otherwise"""
    if stack is None or len(stack) <= 1:
        return None
    out = []
    for j, (node, p1, p2) in enumerate(stack):
        if j == i:
            continue
        if node >= 2 and j > i:
            if p1 == i or p2 == i:
                return None
            p1 = p1 - 1 if p1 > i else p1
            p2 = p2 - 1 if p2 > i else p2
        out.append([node, p1, p2])
    return out


def shrink_case(case, wd, budget=300):
    seeds = [case["seed"]] + list(range(1, 9))
    cur = dict(case)
    steps = 0
    progress = True
    while progress and steps < budget:
        progress = False
        cands = []
        cfg = cur["cfg"]
        used_nodes = {r[0] for st in (cur.get("parent"), cur.get("parent2")) if st for r in st}
        for op in cfg["ops"]:
            if op not in used_nodes and len(cfg["ops"]) > 1:
                k = cfg["ops"].index(op)
                cands.append(dict(cur, cfg=dict(cfg, ops=cfg["ops"][:k] + cfg["ops"][k + 1:],
                                                weights=cfg["weights"][:k] + cfg["weights"][k + 1:])))
        if any(w is not None for w in cfg["weights"]):
            cands.append(dict(cur, cfg=dict(cfg, weights=[None] * len(cfg["ops"]))))
        if cfg["tp"] != 0.1:
            cands.append(dict(cur, cfg=dict(cfg, tp=0.1)))
        if cfg["cp"] is not None:
            cands.append(dict(cur, cfg=dict(cfg, cp=None)))
        if cfg["nLoad"] != 1:
            cands.append(dict(cur, cfg=dict(cfg, nLoad=1)))
        if cur["op"] == "generate" and cur["size"] > 1:
            cands.append(dict(cur, size=cur["size"] // 2))
            cands.append(dict(cur, size=cur["size"] - 1))
        if cur["op"] == "mutate":
            for i in range(len(cur["parent"]) - 1):
                st = drop_row(cur["parent"], i)
                if st is not None:
                    cands.append(dict(cur, parent=st))
        if cur["op"] == "crossover":
            for i in range(len(cur["parent"]) - 1):
                a, b = drop_row(cur["parent"], i), drop_row(cur["parent2"], i)
                if a is not None and b is not None:
                    cands.append(dict(cur, parent=a, parent2=b))
        for cand in cands:
            steps += 1
            hit = case_fails(cand, wd, seeds)
            if hit is not None:
                cur = hit
                seeds = [cur["seed"]] + list(range(1, 9))
                progress = True
                break
            if steps >= budget:
                break
    return cur


# ----------------------------------------------------------------------------- main loop


def main():
    args = sys.argv[1:]
    opts = {"--draw-cap": 4000, "--watchdog": 2.0, "--replay-frac": 0.1, "--examples": 2}
    pos = []
    i = 0
    while i < len(args):
        if args[i] in opts:
            opts[args[i]] = type(opts[args[i]])(args[i + 1])
            i += 2
        else:
            pos.append(args[i])
            i += 1
    n_cases, seed = int(pos[0]), int(pos[1])
    STATE["cap"] = opts["--draw-cap"]
    wd = opts["--watchdog"]
    install_logging()
    install_coverage()
    rng = pyrandom.Random(seed)
    st = Stats(opts["--examples"])
    sets = op_sets(rng)
    t0 = time.time()
    pending = []          # (case, real, lines)
    n_done = 0
    cfg_no = 0
    wd_hangs_in_chain = 0

    def flush():
        if not pending:
            return
        all_lines = [l for _, _, lines in pending for l, _, _ in lines]
        wf_lines = []
        for case, real, _ in pending:
            if real["kind"] == "ok":
                for s in real["stacks"]:
                    wf_lines.append(f"wfgenome ; {case['cfg']['D']} ; {ints(case['cfg']['ops'])} ; {stack_str(s)}")
        outs = run_driver(all_lines + wf_lines)
        st.model_lines += len(all_lines)
        k = 0
        w = len(all_lines)
        for case, real, lines in pending:
            o = outs[k:k + len(lines)]
            k += len(lines)
            bad = compare(case, real, lines, o)
            for _, _, lab in lines:
                st.checks[lab.split(" := ")[1].split("=")[0] + " probe" if " := " in lab else lab] += 1
            if bad:
                st.mismatches.append((case, real, bad))
            if real["kind"] == "ok":
                for s in real["stacks"]:
                    lean_wf = outs[w] == "ok 1"
                    w += 1
                    py_wf = wf_genome(s, case["cfg"]["D"], case["cfg"]["ops"])
                    if lean_wf != py_wf:
                        st.mismatches.append((case, real, [{"label": "wf-oracle", "expected": py_wf, "model": outs[w - 1]}]))
                    parents_wf = all(wf_genome(p, case["cfg"]["D"], case["cfg"]["ops"])
                                     for p in (case.get("parent"), case.get("parent2")) if p is not None)
                    if not lean_wf:
                        key = ("child-not-wf" if parents_wf else "child-not-wf(parent-not-wf)", kind_label(case))
                        st.defect(key, case, real)
        pending.clear()

    def do_case(case):
        nonlocal n_done, wd_hangs_in_chain
        case["seed"] = rng.getrandbits(31)
        case["probe"] = sorted({0, 1, 2, rng.randrange(12), rng.randrange(200), rng.randrange(200)})
        real = run_real(case, wd)
        n_done += 1
        label = kind_label(case)
        st.cases[label] += 1
        st.outcomes[(label, real["kind"])] += 1
        st.sizes[case.get("size") or len(case["parent"])] += 1
        st.draw_hist[min(len(real["draws"]), 200) // 10 * 10] += 1
        if real["kind"] == "hang":
            st.hangs[(label, real["why"])] += 1
            if real["why"] == "watchdog":
                wd_hangs_in_chain += 1
            st.defect(("hang", label, cfg_flags(case["cfg"])), case, real, real["why"])
        elif real["kind"] == "err":
            st.exceptions[(label, real["cls"])] += 1
            why = cfg_flags(case["cfg"], brief=True)
            if case["op"] == "crossover":
                why = "size<=2" if len(case["parent"]) <= 2 else "unequal lengths"
            st.defect(("exception", label, real["cls"], why), case, real, real.get("msg", ""))
        else:
            parents = [p for p in (case.get("parent"), case.get("parent2")) if p is not None]
            if real["parents_after"] != parents:
                st.defect(("parent-modified", label), case, real)
            for s in real["stacks"]:
                if parents and len(s) != len(parents[0]):
                    st.defect(("child-length-changed", label), case, real)
            if rng.random() < opts["--replay-frac"]:
                rp = run_real(case, wd, replay=real["draws"])
                okr = rp["kind"] == "ok" and rp["stacks"] == real["stacks"] and rp["draws"] == real["draws"]
                st.replays["same" if okr else "DIFFERENT"] += 1
                if not okr:
                    st.mismatches.append((case, real, [{"label": "replay-of-logged-draws", "expected": real["stacks"],
                                                        "model": str(rp)[:400]}]))
        pending.append((case, real, model_lines(case, real)))
        if len(pending) >= 400:
            flush()
        return real

    while n_done < n_cases:
        ops = sets[cfg_no % len(sets)]
        cfg_no += 1
        size = rng.randint(1, 6) if rng.random() < 0.3 else rng.randint(1, 40)
        cfg = random_cfg(rng, ops, size)
        try:
            build_cg(cfg)
        except Exception as e:  # noqa
            st.cases["config-rejected:" + type(e).__name__] += 1
            continue
        wd_hangs_in_chain = 0
        pool = []
        for _ in range(2):
            real = do_case({"cfg": cfg, "op": "generate", "size": size})
            if real["kind"] == "ok" and rng.random() < 0.75:
                pool.append(real["stacks"][0])
            else:
                pool.append(handmade_stack(rng, cfg, size, with_ints=rng.random() < 0.5))
        steps = rng.randint(0, 30)
        offset = rng.randrange(7)
        for j in range(steps):
            if n_done >= n_cases or wd_hangs_in_chain >= 2:
                break
            slot = (offset + j) % 7
            if slot < 5:
                case = {"cfg": cfg, "op": "mutate", "probs": one_hot(slot), "forced": slot, "parent": pool[0]}
            elif slot == 5:
                case = {"cfg": cfg, "op": "mutate", "probs": random_probs(rng), "forced": None, "parent": pool[0]}
            else:
                p2 = pool[1]
                if rng.random() < 0.05:
                    p2 = handmade_stack(rng, cfg, rng.randint(1, 40), with_ints=False)
                case = {"cfg": cfg, "op": "crossover", "parent": pool[0], "parent2": p2}
            real = do_case(case)
            if real["kind"] == "ok":
                if case["op"] == "mutate" and rng.random() < 0.85:
                    pool[0] = real["stacks"][0]
                    if rng.random() < 0.3:
                        pool.reverse()
                elif case["op"] == "crossover" and len(case["parent"]) == len(case["parent2"]) and rng.random() < 0.5:
                    pool[0], pool[1] = real["stacks"]
    flush()

    # ------------------------------------------------------------------------- report
    print(f"c04_diff: {n_done} real calls compared ({st.model_lines} model evaluations), {cfg_no} configurations, "
          f"seed {seed}, {time.time() - t0:.1f}s")
    print("model checks       :", dict(sorted(st.checks.items())))
    print("cases per kind     :", dict(sorted(st.cases.items())))
    print("outcomes           :", {f"{k[0]}/{k[1]}": v for k, v in sorted(st.outcomes.items())})
    print("hangs observed     :", {f"{k[0]}/{k[1]}": v for k, v in sorted(st.hangs.items())} or "none")
    print("exceptions by class:", {f"{k[0]}/{k[1]}": v for k, v in sorted(st.exceptions.items())} or "none")
    hist = defaultdict(int)
    for s, c in st.sizes.items():
        hist[f"{(s - 1) // 5 * 5 + 1}-{(s - 1) // 5 * 5 + 5}"] += c
    print("size histogram     :", dict(sorted(hist.items(), key=lambda kv: int(kv[0].split('-')[0]))))
    print("draws per call     :", {f"{k}+": v for k, v in sorted(st.draw_hist.items())})
    print("branch coverage    :", dict(sorted(COVER.items())))
    print("replay of logged draws into the real code:", dict(st.replays) or "none")
    print(f"suspected defects of the real code ({len(st.defects)} classes):")
    for key, d in sorted(st.defects.items(), key=lambda kv: str(kv[0])):
        print(f"  {key}: {d['count']}")
        for _, ex in d["examples"]:
            print(f"      {ex}")
    print(f"MISMATCHES: {len(st.mismatches)}")
    for case, real, bad in st.mismatches[:5]:
        print("  original:", {k: v for k, v in case.items()}, "real:", {k: v for k, v in real.items() if k != 'parents_after'})
        for b in bad:
            print("     ", b)
        if bad[0]["label"] not in ("wf-oracle", "replay-of-logged-draws"):
            small = shrink_case(case, wd)
            sb, sreal = check_sync(small, wd)
            print("  shrunk  :", small)
            print("     real:", {k: v for k, v in sreal.items() if k != 'parents_after'})
            for b in sb:
                print("     ", b)
    if os.environ.get("C04_JSON"):
        import json as _json
        summary = {
            "n_done": n_done, "model_lines": st.model_lines, "configs": cfg_no,
            "checks": dict(st.checks), "cases": dict(st.cases),
            "outcomes": {f"{k[0]}/{k[1]}": v for k, v in st.outcomes.items()},
            "hangs": {f"{k[0]}/{k[1]}": v for k, v in st.hangs.items()},
            "exceptions": {f"{k[0]}/{k[1]}": v for k, v in st.exceptions.items()},
            "coverage": dict(COVER), "replays": dict(st.replays),
            "defects": {str(k): {"count": d["count"], "examples": [str(e[1]) for e in d["examples"]]} for k, d in st.defects.items()},
            "mismatches": [{"case": {k: v for k, v in case.items()}, "real": {k: v for k, v in real.items() if k != "parents_after"},
                            "bad": bad} for case, real, bad in st.mismatches[:8]],
        }
        with open(os.environ["C04_JSON"], "w") as f:
            _json.dump(summary, f, default=str)
    sys.exit(0 if not st.mismatches else 1)


if __name__ == "__main__":
    main()
