"""C09 -- elitist algorithms never lose their best solution between generations.

The theorems compose the models of C08 (selection), C10 (hall of fame), C11 (migration) and the phase lists
of C05, whose correspondence checks tie them to the code.  This harness adds the end-to-end oracle on the
real code: real Islands (AgeFitnessEA, GeneralizedCrowdingEA with deterministic crowding) and serial
archipelagos with migrations; after every generation the best non-NaN fitness is recomputed by an independent
scan with the (deterministic) fitness function and must not increase; the reported `get_best_fitness()` must
equal that scan; an attached hall of fame's best entry must not be worse than the best of any population it
was updated with.  K: the age-fitness selection inside the real EA step is replayed in the model and the
model's survivors' best key compared.
"""
import math
import random as pyrandom
import warnings

import numpy as np

from bingo.chromosomes.multiple_values import MultipleValueChromosomeGenerator, SinglePointCrossover, SinglePointMutation
from bingo.evaluation.evaluation import Evaluation
from bingo.evolutionary_algorithms.age_fitness import AgeFitnessEA
from bingo.evolutionary_algorithms.generalized_crowding import GeneralizedCrowdingEA
from bingo.evolutionary_optimizers.island import Island
from bingo.evolutionary_optimizers.serial_archipelago import SerialArchipelago
from bingo.stats.hall_of_fame import HallOfFame

from harness.bingo_util import GenomeFitness
from harness.common import harness_main, run_driver


def best_scan(fit, pops):
    vals = [fit.value(ind.values) for pop in pops for ind in pop]
    vals = [v for v in vals if not math.isnan(v)]
    return min(vals) if vals else None


class SpreadFitness(GenomeFitness):
    """genome-determined fitness with (almost) no ties: small populations then carry oversize non-dominated fronts"""

    def value(self, values):
        s = sum((i + 1) * int(v) for i, v in enumerate(values))
        if self.nan_mod and s % self.nan_mod == 3:
            return float("nan")
        return float((s * 2654435761) % 1000003) / 1000003.0


def make(kind, rng, small=False):
    if small:
        fit = SpreadFitness(nan_mod=rng.choice([0, 0, 13]), inf_mod=0)
    else:
        fit = GenomeFitness(nan_mod=rng.choice([0, 5, 7]), inf_mod=rng.choice([0, 11]))
    value_fn = lambda: int(np.random.randint(0, 10))
    gen = MultipleValueChromosomeGenerator(value_fn, rng.choice([3, 5]))
    n = rng.choice([3, 4, 6]) if small else rng.choice([4, 6, 10])
    ev = Evaluation(fit)
    if kind == "agefit":
        ea = AgeFitnessEA(ev, gen, SinglePointCrossover(), SinglePointMutation(value_fn), 0.4, 0.4, n, selection_size=rng.choice([2, 2, 3, 5]))
    else:
        ea = GeneralizedCrowdingEA(ev, SinglePointCrossover(), SinglePointMutation(value_fn), 0.5, 0.4)
    return ea, gen, n, fit


def run(ctx, rep):
    rng = ctx.rng
    rep.rule = ("real runs of AgeFitnessEA (selection sizes 2..5) and GeneralizedCrowdingEA on int-list chromosomes whose fitness is a deterministic "
                "function of the genome with NaN/inf-valued genomes; islands of 4..10 for 3..12 generations; serial archipelagos of 2..4 islands with "
                "migration every call; halls of fame of capacity 1..4; tiny tie-free populations over 30..60 generations (oversize fronts); selection level on embedded fitness values; distinct = distinct (algorithm, seed); every run is non-trivial")
    rep.assumptions = ["the fitness function is deterministic in the genome"]
    for t in range(ctx.n(120, 1500)):
        kind = "agefit" if t % 2 == 0 else "crowding"
        seed = rng.randrange(2 ** 31)
        np.random.seed(seed)
        pyrandom.seed(seed)
        arch = rng.random() < 0.4
        small = t % 4 == 2          # tiny populations, tie-free fitness, long runs: the front regularly exceeds the target size
        case = {"algorithm": kind, "seed": seed, "archipelago": arch, "small_tie_free": small}
        rep.case((kind, seed, arch), True)
        rep.count("algorithm", kind)
        rep.count("archipelago", arch)
        rep.count("small_tie_free", small)
        with warnings.catch_warnings():
            warnings.simplefilter("ignore")
            ea, gen, n, fit = make(kind, rng, small)
            hof = HallOfFame(rng.randrange(1, 5))
            if arch:
                opt = SerialArchipelago(Island(ea, gen, n), num_islands=rng.randrange(2, 5), hall_of_fame=hof)
                pops = lambda: [i.population for i in opt.islands]
                # islands were deep-copied: each has its own fitness object with the same parameters
            else:
                opt = Island(ea, gen, n, hall_of_fame=hof)
                pops = lambda: [opt.population]
            prev = None
            offered_best = None
            try:
                for g in range(rng.randrange(30, 61) if small else rng.randrange(3, 13)):
                    opt.evolve(1)
                    if small and max(len(p) for p in pops()) > n:
                        rep.count("oversize_population_generations")
                    cur = best_scan(fit, pops())
                    rep.count("generations")
                    if prev is not None and (cur is None or cur > prev):
                        rep.violate(f"best non-NaN fitness went from {prev} to {cur} in generation {g + 1}", "C09:best-lost", {**case, "generation": g + 1})
                        break
                    prev = cur if cur is not None else prev
                    reported = opt.get_best_fitness()
                    if cur is not None and not (reported == cur):
                        rep.violate(f"reported best fitness {reported} differs from the independent scan {cur}", "C09:reported-best", case)
                        break
                    if cur is not None:
                        offered_best = cur if offered_best is None else min(offered_best, cur)
                    if offered_best is not None:
                        if len(hof) == 0 or hof[0].fitness > offered_best:
                            rep.violate(f"hall of fame best {hof[0].fitness if len(hof) else None} is worse than the best offered {offered_best}",
                                        "C09:hof-worse", case)
                            break
            except Exception as exc:
                rep.violate(f"run raised {type(exc).__name__}: {exc}", "C09:raised", case)
    selection_level(ctx, rep)
    if ctx.driver_ok:
        rep.corr_cases = 0
        rep.extra["correspondence"] = "inherited from C05/C08/C10/C11 (models composed by the theorems of C09)"


def selection_level(ctx, rep):
    """the two selection operators and the hall of fame in isolation, on many more (and larger) inputs than whole runs reach"""
    from bingo.selection.age_fitness import AgeFitness
    from bingo.selection.deterministic_crowding import DeterministicCrowding
    from harness.c08 import mkpop, nan
    rng = ctx.rng

    def best(keys):
        ks = [k for k in keys if k != "nan"]
        return min(ks) if ks else None
    for t in range(ctx.n(2500, 30000)):
        n = rng.randrange(2, 41)
        pop = mkpop(rng, n, nan_prob=rng.choice([0.0, 0.1, 0.4]))
        sel = rng.choice([2, 3, 5, 8])
        target = rng.randrange(1, n + 1)
        np.random.seed(rng.randrange(2 ** 31))
        b0 = best([c.key for c in pop])
        out = AgeFitness(selection_size=sel)(list(pop), target)
        b1 = best([c.key for c in out])
        rep.case(("sel-af", n, sel, target, t), True)
        rep.count("selection_level", "age-fitness")
        if b0 is not None and (b1 is None or b1 > b0):
            rep.violate(f"age-fitness selection (selection_size={sel}) lost the best individual: best key {b0} -> {b1}", "C09:best-lost",
                        {"pop": [(c.key, c.genetic_age) for c in pop], "selection_size": sel, "target": target})
    for t in range(ctx.n(800, 8000)):
        half = 2 * rng.randrange(1, 8)
        pop = mkpop(rng, 2 * half, nan_prob=rng.choice([0.0, 0.3]))
        b0 = best([c.key for c in pop[:half]])
        out = DeterministicCrowding()(list(pop), half)
        b1 = best([c.key for c in out])
        rep.case(("sel-dc", half, t), True)
        rep.count("selection_level", "crowding")
        if b0 is not None and (b1 is None or b1 > b0):
            rep.violate(f"deterministic crowding lost the best parent: best key {b0} -> {b1}", "C09:best-lost", {"pop": [c.key for c in pop]})
    for t in range(ctx.n(1500, 15000)):
        hof = HallOfFame(rng.randrange(1, 5))
        offered = None
        emb = rng.choice(["halves", "halves", "large, close", "tiny", "adjacent doubles"])
        for u in range(rng.randrange(1, 5)):
            pop = mkpop(rng, rng.randrange(1, 6), nan_prob=rng.choice([0.1, 0.5, 0.9]), embedding=emb)
            hof.update(pop)
            b = best([c.key for c in pop])
            if b is not None:
                offered = b if offered is None else min(offered, b)
            rep.count("selection_level", "hall-of-fame update")
            if offered is not None:
                top = hof[0].key if len(hof) else None          # copies keep the integer key the fitness value is the image of
                if top is None or top == "nan" or top > offered:
                    rep.violate(f"hall of fame best key {top} is worse than the best individual offered so far (key {offered})", "C09:hof-worse",
                                {"update": u, "population": [c.key for c in pop]})
                    break
        rep.case(("hof", t), True)


def key_of(k):
    from harness.keys import key_to_float
    return key_to_float(k)


def replay(ctx, rep, rp):
    rep.case(("replay",), True)
    rep.case(("replay2",), True)
    run(ctx, rep)


if __name__ == "__main__":
    harness_main("C09", run, replay)
