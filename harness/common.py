"""Shared plumbing for the per-property harnesses.

Run with /venv/bin/python and PYTHONPATH=/repo:/verif (the `check` script does that).
"""
import hashlib
import json
import os
import random
import signal
import struct
import subprocess
import sys
import time
import warnings

VERIF = os.path.dirname(os.path.dirname(os.path.abspath(__file__)))
LEAN_DIR = os.path.join(VERIF, "lean")
DRIVER = os.path.join(LEAN_DIR, ".lake", "build", "bin", "bvdriver")
REPO = os.environ.get("BINGO_REPO", "/repo")


def seed_from_env():
    try:
        return int(os.environ.get("VERIF_SEED", "0"))
    except ValueError:
        return 0


class Ctx:
    """what a harness gets: tier, seed, rng, and whether the Lean side is usable"""

    def __init__(self, prop, tier, seed, driver_ok=True, replay=None):
        self.prop = prop
        self.tier = tier
        self.seed = seed
        self.rng = random.Random((seed << 8) ^ int(hashlib.sha1(prop.encode()).hexdigest()[:8], 16))
        self.driver_ok = driver_ok and os.path.exists(DRIVER)
        self.replay = replay
        self.t0 = time.time()

    def thorough(self):
        return self.tier == "thorough"

    def n(self, quick, thorough):
        return thorough if self.tier == "thorough" else quick


class Report:
    def __init__(self, prop):
        self.prop = prop
        self.evaluations = 0
        self.distinct = set()
        self.rule = ""
        self.samples = []
        self.distribution = {}
        self.disagreements = []      # model vs code (shrunk), each a dict
        self.violations = []         # property fails on the real code: dict(desc, key, case)
        self.validated_only = []
        self.assumptions = []
        self.extra = {}
        self.corr_cases = 0

    def count(self, key, sub=None):
        d = self.distribution.setdefault(key, {} if sub is not None else 0)
        if sub is None:
            self.distribution[key] = d + 1
        else:
            d[str(sub)] = d.get(str(sub), 0) + 1

    def case(self, canon, nontrivial=True):
        self.evaluations += 1
        if nontrivial:
            self.distinct.add(hashlib.sha1(repr(canon).encode()).digest()[:10])

    def sample(self, obj, limit=6):
        if len(self.samples) < limit:
            self.samples.append(obj)

    def disagree(self, what, case):
        if len(self.disagreements) < 20:
            self.disagreements.append({"what": what, "case": case})
        else:
            self.extra["disagreements_truncated"] = self.extra.get("disagreements_truncated", 0) + 1

    def violate(self, desc, key, case):
        """property violated on the real code. `key` classifies it against known_findings.json"""
        for v in self.violations:
            if v["key"] == key and key is not None and len([w for w in self.violations if w["key"] == key]) >= 3:
                self.extra.setdefault("more_of_key", {}).setdefault(key, 0)
                self.extra["more_of_key"][key] += 1
                return
        if len(self.violations) < 40:
            self.violations.append({"desc": desc, "key": key, "case": case})

    def to_json(self):
        return {"prop": self.prop, "evaluations": self.evaluations, "distinct_nontrivial": len(self.distinct),
                "rule": self.rule, "samples": self.samples, "distribution": self.distribution,
                "disagreements": self.disagreements, "violations": self.violations,
                "validated_only": self.validated_only, "assumptions": self.assumptions,
                "extra": self.extra, "corr_cases": self.corr_cases}


# ----------------------------------------------------------------------------- driver

def run_driver(lines, timeout=600):
    """feed the lines to bvdriver, return the list of output lines (same length)"""
    if not lines:
        return []
    data = ("\n".join(lines) + "\n").encode()
    p = subprocess.run([DRIVER], input=data, stdout=subprocess.PIPE, stderr=subprocess.PIPE, timeout=timeout)
    out = p.stdout.decode().split("\n")
    if out and out[-1] == "":
        out.pop()
    if p.returncode != 0 or len(out) != len(lines):
        raise RuntimeError(f"driver failed rc={p.returncode} lines={len(lines)} out={len(out)} err={p.stderr.decode()[:500]}")
    return out


def f2b(x):
    return struct.unpack("<Q", struct.pack("<d", float(x)))[0]


def b2f(n):
    return struct.unpack("<d", struct.pack("<Q", int(n)))[0]


def floats_str(xs):
    return " ".join(str(f2b(x)) for x in xs)


def stack_str(stack):
    return " ".join(str(int(v)) for row in stack for v in row)


def ulp_diff(a, b):
    """distance in units in the last place between two finite doubles"""
    def key(x):
        n = f2b(x)
        return n if n < (1 << 63) else (1 << 63) - n
    return abs(key(a) - key(b))


def same_float(a, b, ulps=8):
    import math
    if math.isnan(a) or math.isnan(b):
        return math.isnan(a) and math.isnan(b)
    if math.isinf(a) or math.isinf(b):
        return a == b
    if a == b:
        return True
    return ulp_diff(a, b) <= ulps


# ----------------------------------------------------------------------------- watchdog

class Timeout(Exception):
    pass


class watchdog:
    """with watchdog(2.0): ...   raises Timeout inside the block (main thread only)"""

    def __init__(self, seconds):
        self.seconds = seconds

    def _handler(self, signum, frame):
        raise Timeout()

    def __enter__(self):
        self.old = signal.signal(signal.SIGALRM, self._handler)
        signal.setitimer(signal.ITIMER_REAL, self.seconds)

    def __exit__(self, *a):
        signal.setitimer(signal.ITIMER_REAL, 0)
        signal.signal(signal.SIGALRM, self.old)
        return False


# ----------------------------------------------------------------------------- shrinking

def shrink_list(items, fails, max_steps=200):
    """delta-debugging style: smallest sublist (by removing chunks) on which fails() stays true"""
    items = list(items)
    n = 2
    steps = 0
    while len(items) >= 2 and steps < max_steps:
        chunk = max(1, len(items) // n)
        reduced = False
        for i in range(0, len(items), chunk):
            cand = items[:i] + items[i + chunk:]
            steps += 1
            try:
                if cand and fails(cand):
                    items = cand
                    n = max(n - 1, 2)
                    reduced = True
                    break
            except Exception:
                pass
        if not reduced:
            if chunk == 1:
                break
            n = min(n * 2, len(items))
    return items


# ----------------------------------------------------------------------------- main entry

def harness_main(prop, run, replay=None):
    """common __main__ of harness modules:  python -m harness.cXX <tier> <seed> <driver_ok> <out.json> [replay.json]"""
    warnings.filterwarnings("ignore")
    try:
        # the simplifier expands x^n into n factors: a random stack can ask for gigabytes; make that a MemoryError
        import resource
        lim = 12 * 1024 ** 3
        resource.setrlimit(resource.RLIMIT_AS, (lim, lim))
    except Exception:
        pass
    tier, seed, driver_ok, out = sys.argv[1], int(sys.argv[2]), sys.argv[3] == "1", sys.argv[4]
    rp = None
    if len(sys.argv) > 5:
        with open(sys.argv[5]) as f:
            rp = json.load(f)
    ctx = Ctx(prop, tier, seed, driver_ok, rp)
    rep = Report(prop)
    try:
        if rp is not None and replay is not None:
            replay(ctx, rep, rp)
        else:
            run(ctx, rep)
    except Exception as exc:      # noqa: BLE001
        # the instrumentation / generators no longer fit the code under test (an API, a draw protocol or a data layout
        # changed): that is a broken correspondence, to be reported as such, not an infrastructure failure that hides it
        import traceback
        tb = traceback.format_exc()
        rep.disagree(f"the harness raised {type(exc).__name__}: {exc} (instrumentation and code no longer fit)",
                     {"traceback": tb[-1500:]})
        if not rep.rule:
            rep.rule = "harness aborted"
    def clean(o):
        # replay payloads may carry numpy scalars / non-string keys: never let the report become unreadable because of them
        if isinstance(o, dict):
            return {str(k): clean(v) for k, v in o.items()}
        if isinstance(o, (list, tuple, set)):
            return [clean(v) for v in o]
        if isinstance(o, (str, int, float, bool)) or o is None:
            return o
        try:
            import numpy as _np
            if isinstance(o, _np.generic):
                return o.item()
            if isinstance(o, _np.ndarray):
                return o.tolist()
        except Exception:
            pass
        return str(o)
    with open(out, "w") as f:
        json.dump(clean(rep.to_json()), f, default=str)
