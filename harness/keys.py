"""Integer <-> float keys.  Model keys are ints (order-preserving images of non-NaN floats) or 'nan'."""
import math

INF = 10 ** 6


def key_to_float(k, rng=None):
    if k == "nan":
        return float("nan")
    if k >= INF:
        return float("inf")
    if k <= -INF:
        return float("-inf")
    if k == 0 and rng is not None and rng.random() < 0.3:
        return -0.0
    return k / 2.0          # halves are exact in binary


def float_to_key(f):
    if isinstance(f, float) and math.isnan(f):
        return "nan"
    if f == float("inf"):
        return INF
    if f == float("-inf"):
        return -INF
    return int(round(f * 2))


def random_key(rng, nan_prob=0.12, small=True):
    r = rng.random()
    if r < nan_prob:
        return "nan"
    if r < nan_prob + 0.04:
        return INF
    if r < nan_prob + 0.08:
        return -INF
    return rng.randrange(-2, 5) if small else rng.randrange(-40, 40)


def kstr(k):
    return "nan" if k == "nan" else str(k)
