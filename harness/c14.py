"""C14 -- the optimization result truthfully reports why and when evolution stopped.

K: the real `EvolutionaryOptimizer.evolve_until_convergence` (real CheckpointController) driven by a scripted
subclass (best fitness, evaluation count and clock follow a seeded script; the clock only advances inside
`_do_evolution`) against `Converge.run`, for one or two consecutive calls on the same optimizer.
Oracle (independent): min generations, status criterion holds at return, success <=> best <= threshold,
reported fitness / ngen, and no `_do_evolution` after a check at which a criterion held.
"""
import datetime as real_datetime
import math
import warnings

from bingo.evolutionary_algorithms.ea_diagnostics import EaDiagnostics
from bingo.evolutionary_optimizers import evolutionary_optimizer as eo_mod
from bingo.evolutionary_optimizers import checkpoint_controller as cc_mod
from bingo.evolutionary_optimizers.evolutionary_optimizer import EvolutionaryOptimizer

from harness.common import harness_main, run_driver
from harness.keys import key_to_float, float_to_key, random_key, kstr


class FakeClock:
    def __init__(self):
        self.ms = 0

    def now(self):
        return real_datetime.datetime(2020, 1, 1) + real_datetime.timedelta(milliseconds=self.ms)


CLOCK = FakeClock()


class FakeDatetime:
    @staticmethod
    def now():
        return CLOCK.now()


class Scripted(EvolutionaryOptimizer):
    def __init__(self, script):
        super().__init__()
        self.script = script          # list of (best_key, evals_increment, ms_per_generation) per round
        self.round = 0
        self.best_key = script[0][0]
        self.evals = 0
        self.calls = []               # generations per _do_evolution
        self.entry_ms = 0             # clock time the next get_best_fitness() costs (evaluation of the initial population)
        self._diag = EaDiagnostics()

    def _do_evolution(self, num_generations):
        self.round += 1
        b, de, dt = self.script[min(self.round, len(self.script) - 1)]
        self.generational_age += num_generations
        self.best_key = b
        self.evals += de
        CLOCK.ms += dt * num_generations
        self.calls.append(num_generations)

    def _get_potential_hof_members(self):
        return []

    def get_best_individual(self):
        return None

    def get_best_fitness(self):
        if self.entry_ms:
            CLOCK.ms += self.entry_ms
            self.entry_ms = 0
        return key_to_float(self.best_key)

    def get_fitness_evaluation_count(self):
        return self.evals

    def get_ea_diagnostic_info(self):
        return self._diag


class Recorder:
    """wraps CheckpointController methods to record what they returned"""

    def __init__(self):
        self.est = []
        self.gens = []

    def __enter__(self):
        self.o_est = cc_mod.CheckpointController.estimate_remaining_checkpoints
        self.o_gens = cc_mod.CheckpointController.get_gens_to_evolve
        me = self

        def est(self_):
            v = me.o_est(self_)
            me.est.append((CLOCK.ms, v))
            return v

        def gens(self_):
            v = me.o_gens(self_)
            me.gens.append(v)
            return v
        cc_mod.CheckpointController.estimate_remaining_checkpoints = est
        cc_mod.CheckpointController.get_gens_to_evolve = gens
        self.o_check = eo_mod.EvolutionaryOptimizer._check_exit_criteria
        self.checks = []

        def check(self_, *a):
            me.checks.append(a[-1])          # estimated_remaining_checkpoints as passed to this check
            return me.o_check(self_, *a)
        eo_mod.EvolutionaryOptimizer._check_exit_criteria = check
        self.dt1, self.dt2 = eo_mod.datetime, cc_mod.datetime
        eo_mod.datetime = FakeDatetime
        cc_mod.datetime = FakeDatetime
        return self

    def __exit__(self, *a):
        cc_mod.CheckpointController.estimate_remaining_checkpoints = self.o_est
        cc_mod.CheckpointController.get_gens_to_evolve = self.o_gens
        eo_mod.EvolutionaryOptimizer._check_exit_criteria = self.o_check
        eo_mod.datetime, cc_mod.datetime = self.dt1, self.dt2
        return False


def opt(v):
    return "none" if v is None else str(v)


def gen_cfg(rng):
    cfg = {
        "max": rng.choice([1, 2, 3, 5, 7, 10, 16]),
        "thr": random_key(rng, nan_prob=0.05, small=False),
        "freq": rng.choice([1, 1, 2, 3, 4]),
        "min": rng.choice([0, 0, 0, 1, 3, 8, 20]),
        "stag": rng.choice([None, None, 1, 2, 4]),
        "evals": rng.choice([None, None, 5, 30, 100]),
        "time": rng.choice([None, None, 1, 3, 10, 0.25, 1.5, 2.5]),    # seconds (non-integer limits: seed C14-I)
        "entry_ms": rng.choice([0, 0, 0, 300, 1200, 2700]),            # cost of the first best-fitness query of the call
    }
    return cfg


def one_call(optimizer, cfg):
    age0 = optimizer.generational_age
    calls0 = len(optimizer.calls)
    t0 = CLOCK.ms
    optimizer.entry_ms = cfg.get("entry_ms", 0)
    with warnings.catch_warnings():
        warnings.simplefilter("ignore")
        res = optimizer.evolve_until_convergence(
            max_generations=cfg["max"], fitness_threshold=key_to_float(cfg["thr"]),
            convergence_check_frequency=cfg["freq"], min_generations=cfg["min"],
            stagnation_generations=cfg["stag"], max_fitness_evaluations=cfg["evals"], max_time=cfg["time"])
    return res, age0, optimizer.calls[calls0:], t0


def run(ctx, rep):
    rng = ctx.rng
    rep.rule = ("random configurations (criteria already met at entry, freq not dividing max, min > max, time limits that shorten rounds, "
                "NaN bests, stagnation, evaluation budgets) x scripted best/evals/clock sequences x one or two consecutive calls; "
                "distinct = distinct (configuration, script, call index); non-trivial = at least one evolve round")
    rep.assumptions = ["the wall clock is non-decreasing and advances during evolution and at the first best-fitness query of a call (fake clock)",
                       "CheckpointController's float estimate is recorded from the real object, not re-derived"]
    lines, meta = [], []
    with Recorder() as rec:
        for case_i in range(ctx.n(2500, 30000)):
            cfgs = [gen_cfg(rng) for _ in range(rng.choice([1, 1, 2]))]
            n_script = 80
            level = rng.randrange(-5, 40)
            script = []
            for _ in range(n_script):
                r = rng.random()
                if r < 0.35:
                    level -= rng.randrange(0, 4)
                elif r < 0.45:
                    level += rng.randrange(0, 3)
                b = "nan" if rng.random() < 0.07 else level
                script.append((b, rng.choice([0, 1, 3, 10]), rng.choice([0, 10, 100, 400, 1500])))
            CLOCK.ms = 0
            o = Scripted(script)
            for ci, cfg in enumerate(cfgs):
                rec.est.clear()
                rec.gens.clear()
                rec.checks.clear()
                pre = {"age": o.generational_age, "improv": o._fitness_improvement_age,
                       "best": None if o._best_fitness is None else float_to_key(o._best_fitness),
                       "round": o.round, "evals": o.evals}
                entry_obs = (o.best_key, o.evals)
                try:
                    res, age0, calls, t0 = one_call(o, cfg)
                except Exception as exc:
                    rep.violate(f"evolve_until_convergence raised {type(exc).__name__}: {exc}", "C14:raised",
                                {"cfg": cfg, "script": script[:10]})
                    break
                case = {"cfg": {k: (kstr(v) if k == "thr" else v) for k, v in cfg.items()}, "call": ci,
                        "script": [(kstr(b), de, dt) for b, de, dt in script[:len(o.calls) + 2]], "pre": pre,
                        "result": {"status": res.status, "ngen": res.ngen, "fitness": repr(res.fitness), "success": res.success},
                        "rounds": calls}
                rep.case((str(case["cfg"]), str(case["script"]), ci), len(calls) > 0)
                rep.count("status", res.status)
                rep.count("calls", ci)
                rep.count("rounds", min(len(calls), 10))
                rep.sample(case)
                # ---------- oracle
                ngen = o.generational_age - age0
                thr = key_to_float(cfg["thr"])
                best_now = o.get_best_fitness()
                if res.ngen != ngen or sum(calls) != ngen:
                    rep.violate(f"reported ngen {res.ngen}, evolved {ngen} (rounds {calls})", "C14:ngen", case)
                if ngen < cfg["min"]:
                    rep.violate(f"ran {ngen} generations, minimum is {cfg['min']}", "C14:min-generations", case)
                if not (res.fitness == best_now or (math.isnan(res.fitness) and math.isnan(best_now))):
                    rep.violate(f"reported fitness {res.fitness} but the optimizer's best is {best_now}", "C14:fitness", case)
                if res.success != (best_now <= thr):
                    rep.violate(f"success={res.success} but best {best_now} <= threshold {thr} is {best_now <= thr}", "C14:success", case)
                elapsed = (CLOCK.ms - t0) / 1000.0
                holds = {
                    0: best_now <= thr,
                    1: cfg["stag"] is not None and o.generational_age - o._fitness_improvement_age >= cfg["stag"],
                    2: ngen >= cfg["max"],
                    3: cfg["evals"] is not None and o.evals >= cfg["evals"],
                    4: cfg["time"] is not None and elapsed >= cfg["time"],
                    5: cfg["time"] is not None and len(rec.checks) > 0 and rec.checks[-1] is not None and rec.checks[-1] < 0.25,
                }
                if res.status not in holds or not holds[res.status]:
                    rep.violate(f"status {res.status} names a criterion that does not hold at return", "C14:status-untrue", case)
                # no further round once a criterion was reached at a check: replay the script independently
                check_no_extra_round(rep, cfg, script, pre, calls, case, entry_obs)   # incl. the hard time limit (clock only advances in evolution)
                # ---------- correspondence line
                if ctx.driver_ok:
                    obs = []
                    # round 0 = entry; round k = after k-th evolve of this call
                    ests = [e for (_, e) in rec.est]
                    # estimate calls: one at the check between the loops, then one per main-loop round
                    # (get_gens_to_evolve also calls it when a time limit exists) -- align by clock value instead
                    t = t0 + cfg.get("entry_ms", 0)
                    times = [t]
                    ev = pre["evals"]
                    evs = [ev]
                    bests = [entry_obs[0]]
                    rr = pre["round"]
                    for g in calls:
                        rr += 1
                        b, de, dt = script[min(rr, len(script) - 1)]
                        t += dt * g
                        ev += de
                        times.append(t)
                        evs.append(ev)
                        bests.append(b)
                    gens_iter = list(rec.gens)
                    # min-loop rounds do not call get_gens_to_evolve
                    n_min = 0
                    acc = 0
                    while acc < cfg["min"]:
                        acc += cfg["freq"]
                        n_min += 1
                    for k in range(len(calls) + 1):
                        ci_ = k - n_min          # index of the check that follows round k (checks start after the min phase)
                        e = rec.checks[ci_] if 0 <= ci_ < len(rec.checks) else None
                        if e is None or cfg["time"] is None:
                            es = "none"
                        else:
                            es = str(math.floor(e * 10000)) if math.isfinite(e) else ("1000000000" if e > 0 else "-1000000000")
                        gi = k - n_min
                        g = gens_iter[gi] if 0 <= gi < len(gens_iter) else 1
                        obs.append(f"{kstr(bests[k])} {evs[k]} {times[k] - t0} {es} {g}")
                    cfg_s = f"{cfg['max']} {cfg['min']} {cfg['freq']} {kstr(cfg['thr'])} {opt(cfg['stag'])} {opt(cfg['evals'])} " \
                            f"{opt(None if cfg['time'] is None else int(round(cfg['time'] * 1000)))}"
                    st_s = f"{pre['age']} {pre['improv']} {'None' if pre['best'] is None else kstr(pre['best'])}"
                    lines.append(f"converge ; {cfg_s} ; {st_s} ; " + " ; ".join(obs))
                    want = f"ok {res.status} {res.ngen} {kstr(float_to_key(res.fitness))} {1 if res.success else 0} ; " \
                           f"{' '.join(map(str, calls))} ; {o.generational_age} {o._fitness_improvement_age}"
                    meta.append((case, want))
    if ctx.driver_ok:
        outs = run_driver(lines)
        rep.corr_cases = len(lines)
        for line, o_, (case, want) in zip(lines, outs, meta):
            norm = lambda s: " ".join(s.split())
            if norm(o_) != norm(want):
                rep.disagree(f"model '{o_}' vs code '{want}'", {"line": line, **case})


def check_no_extra_round(rep, cfg, script, pre, calls, case, entry_obs):
    """independent replay: after the min-generation phase, a round may start only if no criterion held at the
    previous check (threshold, stagnation, budget, max generations and the hard time limit; the pre-emptive estimate criterion is
    not re-derived here)"""
    thr = key_to_float(cfg["thr"])
    age = pre["age"]
    best = entry_obs[0]
    last_best = pre["best"]
    improv = pre["improv"]

    def upd(b):
        nonlocal last_best, improv
        bf = key_to_float(b)
        if last_best is None or bf < key_to_float(last_best):
            improv = age
        last_best = b
    upd(best)
    ev = pre["evals"]
    rr = pre["round"]
    ngen = 0
    elapsed_ms = cfg.get("entry_ms", 0)   # since the start of this call; the fake clock advances at the entry query and in _do_evolution
    for idx, g in enumerate(calls):
        # before starting round idx (past the min phase) no hard criterion may hold
        if ngen >= cfg["min"]:
            hit = (key_to_float(last_best) <= thr) or (cfg["stag"] is not None and age - improv >= cfg["stag"]) \
                or (cfg["evals"] is not None and ev >= cfg["evals"]) or ngen >= cfg["max"] \
                or (cfg["time"] is not None and elapsed_ms >= cfg["time"] * 1000)
            if hit:
                rep.violate(f"round {idx} was started although a stopping criterion held at the preceding check "
                            f"(ngen={ngen}, best={last_best}, evals={ev})", "C14:extra-round", case)
                return
        rr += 1
        b, de, dt = script[min(rr, len(script) - 1)]
        age += g
        ngen += g
        ev += de
        elapsed_ms += dt * g
        upd(b)


def replay(ctx, rep, rp):
    case = rp.get("case", {})
    rep.case(("replay",), True)
    rep.case(("replay2",), True)
    if "cfg" not in case:
        return
    conv = lambda s: "nan" if s == "nan" else int(s)
    cfg = dict(case["cfg"])
    cfg["thr"] = conv(cfg["thr"])
    script = [(conv(b), de, dt) for b, de, dt in case["script"]]
    with Recorder():
        CLOCK.ms = 0
        o = Scripted(script)
        res, age0, calls, t0 = one_call(o, cfg)
        print("replay:", res.status, res.ngen, res.fitness, res.success, calls)
        best_now = o.get_best_fitness()
        if res.success != (best_now <= key_to_float(cfg["thr"])):
            rep.violate("success flag wrong", rp.get("key"), case)
        if res.ngen != o.generational_age - age0 or res.ngen < cfg["min"]:
            rep.violate("ngen wrong", rp.get("key"), case)


if __name__ == "__main__":
    harness_main("C14", run, replay)
