"""negative control for c16_diff: perturb the Python side, expect mismatches (and shrinking to work)"""
import sys, runpy
from bingo.symbolic_regression.agraph import string_generation as SG, string_parsing as SP
which = sys.argv[1]
if which == "prec": SP.precedence["*"] = 0
if which == "tmpl": SG.SYMPY_PRINT_MAP[2] = "{} +{}"
if which == "neg":
    import re; SP.negative_pattern = re.compile(r"-([^\s\d.])")
if which == "assoc": SP.operators.discard("^"); SP.operators.add("^")  # no-op control
sys.argv = ["c16_diff.py", "300", "5"]
runpy.run_path("/tmp/pa_c16/harness/c16_diff.py", run_name="__main__")
