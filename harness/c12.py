"""C12 -- parallel archipelago evolution terminates cleanly under every interleaving.

K by TRACE VALIDATION: the real `ParallelArchipelago` runs on `harness/mpi_stub/mpi4py` (a deterministic stand-in
for mpi4py: one thread per rank, a central scheduler that switches only at communication calls, buffered
non-overtaking delivery, dill-pickled messages; mpi4py itself is not installed) under random, round-robin,
weighted and adversarial schedules plus exhaustive schedules for tiny cases; every communication event of
every non-blocking call is replayed through `ParArch.step` (driver op `partrace`), `_get_migration_partner`
against `ParArch.partner`.  Oracle on the real runs: no deadlock, every rank returns, mailboxes empty after each
call, island ages (blocking: +n each; non-blocking: cumulative bound and per-call mean), all ranks agree on best
fitness / evaluation count / generational age / hall of fame, best = NaN-aware minimum over islands, migration
conserves individuals and island sizes.  (harness/c12_run.py + harness/pa_scenario.py do the work.)
"""
import json
import os
import shutil
import subprocess
import sys
import tempfile

from harness.common import harness_main, VERIF, REPO

KEYMAP = {"F10": "C12:F10-second-call-mean-age", "F16": "C12:F16-zero-generation-helper"}


def run(ctx, rep):
    rep.rule = ("R in {2,3,4,5}, sync in {1,2,10}, n in {1,3,10,25}, blocking and non-blocking, 1-3 consecutive evolve calls, halls of fame, "
                "random / round-robin / weighted / PCT schedules with the property's speed assumption implemented as a per-generation cost, "
                "exhaustive schedules (partial-order reduced, fairness bound) for tiny cases, directed schedules for the known findings; "
                "distinct = distinct (configuration, schedule); every run is non-trivial (messages are exchanged)")
    rep.assumptions = ["the MPI runtime is the thread-based stand-in (buffered delivery, non-overtaking per source and tag, instant visibility): my code, not mpi4py",
                       "helpers do not produce age updates faster than rank 0 can receive them (generation cost c with c*sync >= 2R)"]
    rep.validated_only = ["that the schedulers of the stand-in satisfy the speed bound of the liveness theorem (terminates_fair); the reporting collectives after the call"]
    out_json = tempfile.mktemp(suffix=".json")
    out_dir = tempfile.mkdtemp(prefix="c12out_")
    env = dict(os.environ)
    env["C12_JSON"] = out_json
    env["PYTHONPATH"] = os.path.join(VERIF, "harness", "mpi_stub") + os.pathsep + REPO + os.pathsep + VERIF
    n = ctx.n(120, 1500)
    args = [sys.executable, os.path.join(VERIF, "harness", "c12_run.py"), str(n), str(ctx.seed + 1), "--out", out_dir,
            "--budget", str(ctx.n(120, 1500))]
    p = subprocess.run(args, stdout=subprocess.PIPE, stderr=subprocess.STDOUT, env=env, timeout=3 * 3600 if ctx.thorough() else 1300)
    text = p.stdout.decode(errors="replace")
    shutil.rmtree(out_dir, ignore_errors=True)
    if not os.path.exists(out_json):
        rep.disagree("c12_run.py produced no summary: " + text[-400:], {})
        return
    d = json.load(open(out_json))
    os.remove(out_json)
    rep.evaluations += d["runs"]
    for i in range(d["runs"]):
        rep.distinct.add(repr(("run", i)).encode())
    rep.corr_cases = d["traces"] + d["partner_checks"]
    rep.extra["traces_validated_against_impl"] = d["validated"]
    rep.distribution["verdicts"] = d["verdicts"]
    rep.distribution["traces"] = {"validated": d["validated"], "prefix_validated_of_cut_runs": d["prefix_validated"], "rejected": d["rejected"],
                                  "partner_checks": d["partner_checks"], "scheduler_steps": d["steps"]}
    for line in text.split("\n"):
        if line.startswith("model:") or line.startswith("exhaustive") or line.startswith("directed"):
            rep.sample(line[:300], limit=12)
    if d["rejected"]:
        rep.disagree(f"{d['rejected']} traces of the real code are not runs of the model", {"see": "c12_run.py output", "tail": text[-600:]})
    for key, count in d["violations"].items():
        det = d["details"].get(key) or {}
        case = {"cfg": det.get("cfg"), "policy": det.get("policy"), "schedule_len": len(det.get("schedule") or []),
                "schedule": (det.get("schedule") or [])[:400], "what": (det.get("violation") or {}).get("desc", "")[:500]}
        if key in KEYMAP:
            rep.violate(f"{key}: {count} runs", KEYMAP[key], case)
        elif key.startswith("trace") or key.startswith("partner") or key == "stub-nondeterminism":
            rep.disagree(f"{key}: {count} runs: {case['what'][:200]}", case)
        else:
            rep.violate(f"{key}: {count} runs: {case['what'][:300]}", "C12:" + key, case)


def replay(ctx, rep, rp):
    rep.case(("replay",), True)
    rep.case(("replay2",), True)
    run(ctx, rep)


if __name__ == "__main__":
    harness_main("C12", run, replay)
