"""C19 -- every individual is evaluated when due and counted once per evaluation.

K: the real `Evaluation.__call__` (serial, redundant/non-redundant; multiprocess with delays that permute the
completion order) against `Pipeline.serialEval`/`multiprocessEval`: flags, fitness, slot identity and count.
Oracle: a counting wrapper around the base fitness function's entry points versus
`get_fitness_evaluation_count()` over islands, serial archipelagos, random-subset evaluation and
locally-optimizing fitness (optimizer invocations included).
"""
import math
import time
import warnings

import numpy as np

from bingo.chromosomes.multiple_values import MultipleValueChromosome
from bingo.evaluation.evaluation import Evaluation
from bingo.evaluation.fitness_function import FitnessFunction
from bingo.evolutionary_optimizers.serial_archipelago import SerialArchipelago

from harness.bingo_util import simple_island
from harness.common import harness_main, run_driver


class CostFitness(FitnessFunction):
    """fitness = genome value; one call costs (g % costmod + 1) counted evaluations (as local optimization does)"""

    def __init__(self, costmod, delay=False):
        super().__init__()
        self.costmod = costmod
        self.delay = delay
        self.invocations = 0

    def __call__(self, individual):
        g = int(individual.values[0])
        c = 1 if self.costmod == 0 else g % self.costmod + 1
        self.eval_count += c
        self.invocations += c
        if self.delay:
            time.sleep(((g * 7919) % 5) * 0.004)
        return float("nan") if g % 13 == 12 else float(g)


class OffsetFitness(FitnessFunction):
    """fitness = genome + offset, where `offset` is state of the fitness-function OBJECT that the caller changes in place between
    evaluation calls (as RandomSubsetEvaluation and the predictor island do with the training data)"""

    def __init__(self, offset=0.0):
        super().__init__()
        self.offset = offset

    def __call__(self, individual):
        self.eval_count += 1
        return float(individual.values[0]) + self.offset


def changing_function(ctx, rep):
    """the SAME evaluator is called again after its fitness function was changed in place: every due slot gets the value of the
    function as it is NOW, in worker processes as in serial evaluation"""
    rng = ctx.rng
    for t in range(ctx.n(6, 40)):
        nproc = rng.choice([False, 1, 2, 3])
        fit = OffsetFitness(0.0)
        ev = Evaluation(fit, redundant=rng.random() < 0.5, multiprocess=nproc)
        offsets = [float(rng.randrange(-5, 6)) for _ in range(rng.randrange(2, 5))]
        case = {"multiprocess": nproc, "offsets": offsets, "redundant": ev._redundant}
        rep.case(("changing-function", t, str(nproc)), True)
        rep.count("changing_function", f"multiprocess={nproc}")
        pop = [MultipleValueChromosome([rng.randrange(20)]) for _ in range(rng.randrange(2, 7))]
        for k, off in enumerate(offsets):
            fit.offset = off                       # in place: the evaluator keeps the same function object
            for c in pop:
                c.fit_set = False
            with warnings.catch_warnings():
                warnings.simplefilter("ignore")
                ev(pop)
            bad = [(int(c.values[0]), c.fitness) for c in pop if not (c.fit_set and c.fitness == float(c.values[0]) + off)]
            if bad:
                rep.violate(f"call {k + 1} of one evaluator (multiprocess={nproc}) after the fitness function's state was set to offset {off}: "
                            f"slots hold (genome, fitness) {bad[:3]}, expected genome + {off}", "C19:stale-fitness-function", {**case, "call": k + 1})
                break


class EffectFitness(FitnessFunction):
    """a fitness function that CHANGES the individual it is called on (as local optimization does): values = [genome, state];
    state' = (7 g + 3 s + 1) % 11 is stored in the individual, the returned fitness is a function of g and state' (NaN when
    (g + s) % 9 = 4), one call costs 1 + (g + s) % 3 counted evaluations.  Mirrors the fixed function of the driver op `evaleffect`."""

    def __init__(self, delay=False):
        super().__init__()
        self.delay = delay

    @staticmethod
    def apply(g, s):
        s2 = (7 * g + 3 * s + 1) % 11
        f = float("nan") if (g + s) % 9 == 4 else float((g + 2 * s2) % 13)
        return s2, f, 1 + (g + s) % 3

    def __call__(self, individual):
        g, st = int(individual.values[0]), int(individual.values[1])
        s2, f, c = self.apply(g, st)
        individual.values[1] = s2
        self.eval_count += c
        if self.delay:
            time.sleep(((g * 7919) % 5) * 0.004)
        return f


def effect_correspondence(ctx, rep):
    """serial and multi-process evaluation with a fitness function that changes the individual: what every slot holds afterwards
    (genome, changed state, fitness, flag) and the count, against `EvalEffect.serialEvalE` / `multiprocessEvalE`"""
    rng = ctx.rng
    lines, meta = [], []

    def show(c):
        f = c._fitness
        fs = "-" if f is None else ("nan" if math.isnan(f) else str(int(f)))
        return f"{int(c.values[0])}:{int(c.values[1])}:{fs}:{1 if c._fit_set else 0}"
    n_serial, n_mp = ctx.n(400, 4000), ctx.n(8, 60)
    for t in range(n_serial + n_mp):
        mp = t >= n_serial
        pop = []
        for _ in range(rng.randrange(0, 9) if not mp else rng.randrange(2, 8)):
            g, st = rng.randrange(30), rng.randrange(11)
            c = MultipleValueChromosome([g, st])
            r = rng.random()
            if r < 0.3:
                c.fitness = EffectFitness.apply(g, st)[1] if rng.random() < 0.6 else float(rng.randrange(13))
            elif r < 0.4:
                c.fitness = float(rng.randrange(13))
                c.fit_set = False
            pop.append(c)
        redundant = rng.random() < 0.3
        before = [show(c) for c in pop]
        fit = EffectFitness(delay=mp)
        ev = Evaluation(fit, redundant=redundant, multiprocess=rng.choice([2, 3]) if mp else False)
        case = {"before": before, "redundant": redundant, "multiprocess": mp}
        rep.case(("effect", str(case)), any(w.endswith(":0") for w in before) or redundant)
        rep.count("effect_mode", "multiprocess" if mp else "serial")
        try:
            with warnings.catch_warnings():
                warnings.simplefilter("ignore")
                ev(pop)
        except Exception as exc:
            rep.violate(f"evaluation with a state-changing fitness function raised {type(exc).__name__}: {exc}", "C19:raised", case)
            continue
        after = [show(c) for c in pop]
        # oracle, independent of the model: a slot that was due holds the individual the function was applied to
        want_count = 0
        for i, (b, c) in enumerate(zip(before, pop)):
            g, st, f0, fl0 = b.split(":")
            g, st = int(g), int(st)
            if redundant or fl0 == "0":
                s2, f, cst = EffectFitness.apply(g, st)
                want_count += cst
                ok = c._fit_set and int(c.values[0]) == g and int(c.values[1]) == s2 and (c._fitness == f or (math.isnan(f) and math.isnan(c._fitness)))
                if not ok:
                    rep.violate(f"slot {i} was due: it should hold genome {g} with state {s2} and fitness {f}, marked evaluated; it holds {show(c)} "
                                "(the fitness must be the function's value for the individual IN THE SLOT)", "C19:slot-not-the-evaluated-individual", case)
                    break
            elif show(c) != b:
                rep.violate(f"slot {i} was marked evaluated but was touched: {b} -> {show(c)}", "C19:touched", case)
                break
        if ev.eval_count != want_count:
            rep.violate(f"evaluation count {ev.eval_count}, the function's own tally is {want_count}", "C19:count", case)
        lines.append(f"evaleffect ; {1 if redundant else 0} ; {' '.join(before)}")
        meta.append((case, ev.eval_count, after))
    if ctx.driver_ok and lines:
        outs = run_driver(lines)
        if outs and outs[0] == "bad-op":
            rep.extra["evaleffect"] = "driver op not available"
            return
        rep.corr_cases = getattr(rep, "corr_cases", 0) + len(lines)
        for line, o, (case, cnt, after) in zip(lines, outs, meta):
            head, _, body = o.partition(" ; ")
            toks = head.split()
            if len(toks) < 4 or toks[0] != "ok" or int(toks[1]) != cnt or int(toks[2]) != cnt or toks[3] != "1" or body.split() != after:
                rep.disagree(f"evaluation with a state-changing fitness function: model '{o}' vs code count={cnt} slots={after}", {"line": line, **case})


def mkpop(rng, n):
    pop = []
    for _ in range(n):
        g = rng.randrange(0, 60)
        c = MultipleValueChromosome([g])
        if rng.random() < 0.4:
            c.fitness = 999.0 if rng.random() < 0.3 else (float("nan") if g % 13 == 12 else float(g))
        pop.append(c)
    return pop


def fit_str(f):
    if f is None:
        return "nan"
    if isinstance(f, float) and math.isnan(f):
        return "nan"
    return str(int(f))


def run(ctx, rep):
    rng = ctx.rng
    rep.rule = ("random populations (0..12 slots, some already evaluated, some carrying a stale value) x redundant/non-redundant x serial/multiprocess "
                "(2-4 workers, job delays permuting completion order) x per-call cost 1..4; islands and serial archipelagos of 2-4 islands over "
                "random histories incl. regenerated populations; a state-changing fitness function (serial and pools); multi-process local optimization; distinct = distinct (population, mode); non-trivial = at least one individual is due for evaluation")
    rep.assumptions = ["multiprocessing.Pool returns each job's own result (completion order arbitrary)"]
    lines, meta = [], []
    n_serial = ctx.n(1500, 15000)
    n_mp = ctx.n(12, 80)
    for t in range(n_serial + n_mp):
        mp = t >= n_serial
        pop = mkpop(rng, rng.randrange(0, 13) if not mp else rng.randrange(2, 9))
        redundant = rng.random() < 0.3
        costmod = rng.choice([0, 0, 3, 4])
        aliased = False
        if len(pop) >= 3 and rng.random() < (0.5 if mp else 0.15):
            pop[0].fit_set = False
            pop[rng.randrange(1, len(pop))] = pop[0]           # the same (unevaluated) object in two slots
            aliased = True
        before = [(c.values[0], c.fit_set, c.fitness) for c in pop]
        ids = [id(c) for c in pop]
        fit = CostFitness(costmod, delay=mp)
        nproc = rng.choice([2, 3, 4]) if mp else False
        if rng.random() < 0.3:
            # the sub-sampling phase is the same evaluation phase behind a change of the training data: the same individuals are
            # due, the same count is owed, evaluated individuals stay untouched unless redundant evaluation was requested
            from bingo.evaluation.random_subset_evaluation import RandomSubsetEvaluation
            fit.training_data = np.arange(12)
            ev = RandomSubsetEvaluation(fit, subset_size=rng.randrange(1, 12), redundant=redundant, multiprocess=nproc)
            rep.count("phase", "RandomSubsetEvaluation")
        else:
            ev = Evaluation(fit, redundant=redundant, multiprocess=nproc)
            rep.count("phase", "Evaluation")
        with warnings.catch_warnings():
            warnings.simplefilter("ignore")
            warm = 0
            if mp and rng.random() < 0.6:
                # the evaluator has been used before (an island calls it every generation)
                wp = mkpop(rng, rng.randrange(2, 5))
                ev(wp)
                warm = ev.eval_count
            ev(pop)
            ev.eval_count -= warm
        after = [(c.values[0], c.fit_set, c.fitness) for c in pop]
        due = [i for i, (g, fs, f) in enumerate(before) if redundant or not fs]
        case = {"before": [(g, fs, fit_str(f)) for g, fs, f in before], "redundant": redundant, "costmod": costmod, "multiprocess": mp}
        rep.case((str(case),), len(due) > 0)
        rep.count("mode", "multiprocess" if mp else "serial")
        rep.count("redundant", redundant)
        rep.sample(case)
        # ---------- oracle
        if aliased:
            # slots sharing one object: every slot must end up evaluated with the right fitness; the count must equal the invocations
            # (serial evaluation evaluates the shared object once, worker processes evaluate each slot's copy)
            for i, (g1, fs1, f1) in enumerate(after):
                w = float("nan") if g1 % 13 == 12 else float(g1)
                if (i in due) and (not fs1 or not (f1 == w or (math.isnan(w) and math.isnan(f1)))):
                    rep.violate(f"slot {i} (an object that also sits in another slot) was due but holds fit_set={fs1}, fitness={f1}", "C19:not-evaluated", case)
            if not mp and ev.eval_count != fit.invocations - 0:
                rep.violate(f"evaluation count {ev.eval_count} differs from the invocations {fit.invocations}", "C19:count", case)
            continue
        want_count = sum((1 if costmod == 0 else before[i][0] % costmod + 1) for i in due)
        if ev.eval_count != want_count:
            rep.violate(f"evaluation count {ev.eval_count}, fitness function invoked {want_count} times", "C19:count", case)
        if len(after) != len(before):
            rep.violate("population length changed", "C19:slots", case)
        for i, ((g0, fs0, f0), (g1, fs1, f1)) in enumerate(zip(before, after)):
            if g1 != g0:
                rep.violate(f"slot {i} holds genome {g1}, was {g0}", "C19:slots", case)
            if i in due:
                w = float("nan") if g0 % 13 == 12 else float(g0)
                if not fs1 or not (f1 == w or (math.isnan(w) and math.isnan(f1))):
                    rep.violate(f"slot {i} was due but holds fit_set={fs1}, fitness={f1}", "C19:not-evaluated", case)
            else:
                if (fs1, fit_str(f1)) != (fs0, fit_str(f0)) or (not mp and id(pop[i]) != ids[i]):
                    rep.violate(f"slot {i} was marked evaluated but was touched", "C19:touched", case)
        if ctx.driver_ok and not aliased:
            lines.append(f"evalphase ; {1 if redundant else 0} ; {costmod} ; " + " ".join(f"{g}:{1 if fs else 0}" for g, fs, _ in before))
            meta.append((case, ev.eval_count, [(g, fs) for g, fs, _ in after], due))
    if ctx.driver_ok:
        outs = run_driver(lines)
        rep.corr_cases = len(lines)
        for line, o, (case, cnt, after, due) in zip(lines, outs, meta):
            head, _, body = o.partition(" ; ")
            toks = head.split()
            mflags = [(int(w.split(":")[0]), w.split(":")[1] == "1") for w in body.split()]
            if toks[0] != "ok" or int(toks[1]) != cnt or int(toks[2]) != cnt or toks[3] != "1" or mflags != after:
                rep.disagree(f"evaluation phase: model '{o}' vs code count={cnt} flags={after}", {"line": line, **case})
    effect_correspondence(ctx, rep)
    changing_function(ctx, rep)
    optimizer_counts(ctx, rep)


class CountingWrapper:
    """counts real invocations of a fitness object's __call__ from outside"""

    def __init__(self, fit):
        self.fit = fit
        self.n = 0
        self.orig = fit.__class__.__call__

    def install(self):
        me = self
        cls = self.fit.__class__

        class Counted(cls):
            def __call__(self_, ind):
                me.n += 1
                return cls.__call__(self_, ind)
        self.fit.__class__ = Counted


def optimizer_counts(ctx, rep):
    rng = ctx.rng
    for t in range(ctx.n(30, 300)):
        np.random.seed(rng.randrange(2 ** 31))
        kind = rng.choice(["island", "arch", "arch-evaluated-template"])
        with warnings.catch_warnings():
            warnings.simplefilter("ignore")
            isl, fit = simple_island(rng.choice([4, 8]))
            if kind == "island":
                for _ in range(rng.randrange(1, 4)):
                    isl.evolve(rng.randrange(1, 4))
                    if rng.random() < 0.4:
                        isl.regenerate_population()       # a restart of a stagnated island: the evaluations already made still count
                        rep.count("optimizer_history", "population regenerated between evolve calls")
                rep.case(("opt", kind, t), True)
                rep.count("optimizer", kind)
                if isl.get_fitness_evaluation_count() != fit.calls:
                    rep.violate(f"island reports {isl.get_fitness_evaluation_count()} evaluations, fitness function was invoked {fit.calls} times",
                                "C19:island-total", {"kind": kind})
            else:
                pre = 0
                if kind == "arch-evaluated-template":
                    isl.evaluate_population()
                    pre = fit.calls
                arch = SerialArchipelago(isl, num_islands=rng.randrange(2, 5))
                fits = [i._ea.evaluation.fitness_function for i in arch.islands]
                base = [f.calls for f in fits]
                for _ in range(rng.randrange(1, 3)):
                    arch.evolve(rng.randrange(1, 3))
                    if rng.random() < 0.4:
                        rng.choice(arch.islands).regenerate_population()
                        rep.count("optimizer_history", "one island of the archipelago regenerated between evolve calls")
                actual = sum(f.calls - b for f, b in zip(fits, base))
                reported = arch.get_fitness_evaluation_count()
                rep.case(("opt", kind, t), True)
                rep.count("optimizer", kind)
                if reported != actual:
                    key = "C19:F13-template-counter" if (pre > 0 and reported == actual + pre * len(arch.islands)) else "C19:archipelago-total"
                    rep.violate(f"archipelago reports {reported} evaluations, fitness functions were invoked {actual} times "
                                f"(template island had {pre} evaluations before the archipelago was built)", key, {"kind": kind, "template_evals": pre})
    # local optimization: the count includes invocations made by the optimizer
    try:
        from bingo.local_optimizers.local_opt_fitness import LocalOptFitnessFunction
        from bingo.local_optimizers.scipy_optimizer import ScipyOptimizer
        from bingo.symbolic_regression.agraph.agraph import AGraph
        from bingo.symbolic_regression.explicit_regression import ExplicitRegression, ExplicitTrainingData
        for t in range(ctx.n(10, 80)):
            x = np.linspace(0.2, 2, 9).reshape(-1, 1)
            y = 2.5 * x + 0.5
            base = ExplicitRegression(ExplicitTrainingData(x, y))
            cw = CountingWrapper(base)
            calls = {"n": 0}
            for name in ("evaluate_fitness_vector", "get_fitness_vector_and_jacobian"):
                orig = getattr(base, name)

                def wrapped(ind, _o=orig):
                    calls["n"] += 1
                    return _o(ind)
                setattr(base, name, wrapped)
            lo = LocalOptFitnessFunction(base, ScipyOptimizer(base, method=rng.choice(["lm", "BFGS", "Nelder-Mead"])))
            ev = Evaluation(lo)
            pop = []
            for _ in range(3):
                a = AGraph(equation=rng.choice(["1.0*X_0 + 1.0", "X_0*X_0", "2.0*X_0", "sin(X_0) + 1.0"]))
                pop.append(a)
            np.random.seed(rng.randrange(2 ** 31))
            with warnings.catch_warnings():
                warnings.simplefilter("ignore")
                ev(pop)
            rep.case(("localopt", t), True)
            rep.count("optimizer", "local-opt evaluation")
            if ev.eval_count != calls["n"]:
                rep.violate(f"evaluation count {ev.eval_count} but the base fitness entry points were invoked {calls['n']} times (local optimization)",
                            "C19:local-opt-count", {"trial": t})
            # redundant evaluation of the (now marked) population after the training data was replaced: every individual is evaluated
            # AGAIN by the fitness function, on the data it has now
            y2 = y * 2.0 + 1.0
            lo.training_data = ExplicitTrainingData(x, y2)
            ev2 = Evaluation(lo, redundant=True)
            before_calls = calls["n"]
            with warnings.catch_warnings():
                warnings.simplefilter("ignore")
                ev2(pop)
            ref2 = ExplicitRegression(ExplicitTrainingData(x, y2))
            stale = [i for i, a in enumerate(pop) if not (abs(float(a.fitness) - float(ref2(a.copy()))) <= 1e-9 * max(1.0, abs(float(ref2(a.copy())))))]
            rep.count("optimizer", "redundant re-evaluation through the local-optimization wrapper")
            if stale or calls["n"] - before_calls < len(pop):
                rep.violate(f"redundant evaluation through the local-optimization wrapper after the data was replaced: slots {stale} keep the old "
                            f"fitness; the base fitness entry points were invoked {calls['n'] - before_calls} times for {len(pop)} individuals",
                            "C19:not-evaluated", {"trial": t})
        # multi-process evaluation with a locally optimizing fitness function: what a slot holds after the phase must be the
        # individual the fitness was computed ON (its constants are the optimized ones, it no longer asks for optimization,
        # its stored fitness is the base fitness of the constants it holds), and the count includes the workers' invocations
        for t in range(ctx.n(4, 30)):
            x = np.linspace(0.2, 2, 9).reshape(-1, 1)
            y = 2.5 * x + 0.5
            base = ExplicitRegression(ExplicitTrainingData(x, y))
            method = rng.choice(["lm", "BFGS"])
            lo = LocalOptFitnessFunction(base, ScipyOptimizer(base, method=method))
            ev = Evaluation(lo, multiprocess=2)
            eqs = [rng.choice(["1.0*X_0 + 1.0", "X_0*X_0", "2.0*X_0", "sin(X_0) + 1.0", "X_0 + X_0"]) for _ in range(rng.randrange(2, 6))]
            pop = [AGraph(equation=e) for e in eqs]
            np.random.seed(rng.randrange(2 ** 31))
            with warnings.catch_warnings():
                warnings.simplefilter("ignore")
                ev(pop)
            rep.case(("localopt-mp", t), True)
            rep.count("optimizer", "local-opt multi-process evaluation")
            ref = ExplicitRegression(ExplicitTrainingData(x, y))
            for i, ind in enumerate(pop):
                case = {"equations": eqs, "slot": i, "method": method}
                if not ind.fit_set:
                    rep.violate(f"multi-process evaluation with local optimization left slot {i} unevaluated", "C19:slot-unevaluated", case)
                    break
                if ind.needs_local_optimization():
                    rep.violate(f"multi-process evaluation with local optimization: slot {i} ({eqs[i]}) is marked evaluated but the individual in the "
                                "slot still requests local optimization (the fitness was computed on another object)", "C19:slot-not-the-evaluated-individual", case)
                    break
                want = float(ref(ind.copy()))
                got = float(ind.fitness)
                if not (got == want or abs(got - want) <= 1e-9 * max(1.0, abs(want))):
                    rep.violate(f"multi-process evaluation with local optimization: slot {i} ({eqs[i]}) stores fitness {got} but the fitness function's "
                                f"value for the individual in the slot is {want}", "C19:slot-not-the-evaluated-individual", case)
                    break
            if ev.eval_count <= 0:
                rep.violate("multi-process evaluation with local optimization reported no fitness evaluations", "C19:local-opt-count", {"equations": eqs})
    except Exception as exc:
        rep.extra["local_opt_count_error"] = repr(exc)


def replay(ctx, rep, rp):
    rep.case(("replay",), True)
    rep.case(("replay2",), True)
    optimizer_counts(ctx, rep)


if __name__ == "__main__":
    harness_main("C19", run, replay)
