"""Scenario runner for C12: the REAL bingo ParallelArchipelago on the deterministic mpi4py stub.

`run_scenario(cfg, policy)` runs `cfg.calls` consecutive `evolve(n)` calls on `cfg.R` rank threads and
returns the stub's RunResult; every rank's program returns a list of per-call observation dicts.
Instrumentation is added by wrapping methods of the bingo classes in this process (nothing in /repo
is modified):

* `Island._execute_generational_step`  : `cost` scheduling points (`MPI.yield_point()`) before every
  generation  -- the speed model of property C12's assumption;
* `Island.evolve`                      : logs `("evolve", requested, age_delta)` when a slice is done;
* `ParallelArchipelago._non_blocking_execution` : logs `("nb-begin", n, arch_age, sync, island_age)`
  and `("nb-end", island_age)` -- the section that the Lean model `Bingo.ParArch` describes;
* `ParallelArchipelago._coordinate_migration_between_islands` : tags every individual with a fresh id
  and logs `("mig-before", ids)` / `("mig-after", ids)`.
"""
import math
import threading

import numpy as np
from mpi4py import MPI

from bingo.evolutionary_optimizers import parallel_archipelago as pa_mod
from bingo.evolutionary_optimizers.island import Island
from bingo.evolutionary_optimizers.parallel_archipelago import ParallelArchipelago
from bingo.stats.hall_of_fame import HallOfFame

from harness.bingo_util import simple_island

_cfg = threading.local()      # per rank thread: .cost
_installed = False


class Cfg:
    def __init__(self, R, sync, calls, nb=True, cost=1, pop=6, hof=True, suppress=True, pre_evaluate=True,
                 rng_seed=0, sync_collectives=True, max_steps=200000, wall_limit=60.0):
        self.R, self.sync, self.calls, self.nb, self.cost = R, sync, list(calls), nb, cost
        self.pop, self.hof, self.suppress, self.pre_evaluate = pop, hof, suppress, pre_evaluate
        self.rng_seed, self.sync_collectives = rng_seed, sync_collectives
        self.max_steps, self.wall_limit = max_steps, wall_limit

    def to_dict(self):
        return dict(self.__dict__)

    @staticmethod
    def from_dict(d):
        c = Cfg(d["R"], d["sync"], d["calls"])
        c.__dict__.update(d)
        return c

    def __repr__(self):
        return (f"R={self.R} sync={self.sync} calls={self.calls} nb={int(self.nb)} cost={self.cost} pop={self.pop} "
                f"hof={int(self.hof)} suppress={int(self.suppress)} preeval={int(self.pre_evaluate)} "
                f"rng={self.rng_seed} synccoll={int(self.sync_collectives)}")


def install_wrappers():
    global _installed
    if _installed:
        return
    _installed = True

    orig_step = Island._execute_generational_step

    def step_with_cost(self):
        for _ in range(getattr(_cfg, "cost", 0)):
            MPI.yield_point()
        return orig_step(self)

    Island._execute_generational_step = step_with_cost

    orig_evolve = Island.evolve

    def evolve_logged(self, num_generations, *a, **kw):
        age0 = self.generational_age
        out = orig_evolve(self, num_generations, *a, **kw)
        MPI.log_event("evolve", num_generations, self.generational_age - age0)
        return out

    Island.evolve = evolve_logged

    orig_nb = ParallelArchipelago._non_blocking_execution

    def nb_logged(self, num_steps):
        MPI.log_event("nb-begin", num_steps, self.generational_age, self._sync_frequency, self.island.generational_age)
        out = orig_nb(self, num_steps)
        MPI.log_event("nb-end", self.island.generational_age)
        return out

    ParallelArchipelago._non_blocking_execution = nb_logged

    orig_mig = ParallelArchipelago._coordinate_migration_between_islands

    def mig_logged(self):
        ids = []
        for indv in self.island.population:
            _cfg.next_id = getattr(_cfg, "next_id", 0) + 1     # per rank thread => deterministic per run
            indv._vid = (self.comm_rank, _cfg.next_id)
            ids.append(indv._vid)
        MPI.log_event("mig-before", tuple(ids))
        out = orig_mig(self)
        MPI.log_event("mig-after", tuple(getattr(i, "_vid", None) for i in self.island.population))
        return out

    ParallelArchipelago._coordinate_migration_between_islands = mig_logged

    orig_partner = ParallelArchipelago._get_migration_partner

    def partner_logged(self):
        p = orig_partner(self)
        MPI.log_event("mig-partner", -1 if p is None else p)
        return p

    ParallelArchipelago._get_migration_partner = partner_logged

    orig_shuffle = ParallelArchipelago._shuffle_island_indices

    def shuffle_logged(self):
        order = orig_shuffle(self)
        MPI.log_event("mig-order", tuple(int(i) for i in order))
        return order

    ParallelArchipelago._shuffle_island_indices = shuffle_logged


def fit_key(f):
    """hashable, NaN-aware representation of a fitness value"""
    if f is None:
        return "None"
    f = float(f)
    if math.isnan(f):
        return "nan"
    return repr(f)


def make_prog(cfg):
    def prog(rank):
        _cfg.cost = cfg.cost
        _cfg.next_id = 0
        island, _fit = simple_island(pop_size=cfg.pop)
        if cfg.pre_evaluate:
            island.evaluate_population()
        hof = HallOfFame(5) if cfg.hof else None
        arch = ParallelArchipelago(island, hall_of_fame=hof, non_blocking=cfg.nb, sync_frequency=cfg.sync)
        out = []
        for j, n in enumerate(cfg.calls):
            rec = {"call": j, "n": n, "island_age0": island.generational_age, "arch_age0": arch.generational_age,
                   "pop0": len(island.population)}
            MPI.log_event("call-begin", j, n)
            arch.evolve(n, suppress_logging=cfg.suppress)
            MPI.log_event("call-end", j)
            rec["mailbox"] = MPI.my_mailbox()
            rec["island_age1"] = island.generational_age
            rec["arch_age1"] = arch.generational_age
            rec["pop1"] = len(island.population)
            rec["sync_after"] = arch._sync_frequency
            # what every rank reports (these are collectives)
            rec["best"] = fit_key(arch.get_best_fitness())
            rec["island_best"] = fit_key(island.get_best_fitness())
            rec["evals"] = int(arch.get_fitness_evaluation_count())
            rec["island_evals"] = int(island.get_fitness_evaluation_count())
            rec["hof"] = None if arch.hall_of_fame is None else \
                [(fit_key(i.fitness), tuple(int(v) for v in i.values)) for i in arch.hall_of_fame]
            rec["mailbox_after_reports"] = MPI.my_mailbox()
            out.append(rec)
        return out
    return prog


def run_scenario(cfg, policy):
    install_wrappers()
    return MPI.run_ranks(cfg.R, make_prog(cfg), policy, max_steps=cfg.max_steps, wall_limit=cfg.wall_limit,
                         sync_collectives=cfg.sync_collectives, rng_seed=cfg.rng_seed)
