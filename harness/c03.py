"""C03 -- simplification and reduction preserve the functions an equation can express.

K: `get_utilized_commands`, `reduce_stack`, `AGraph._update` (renumbering, constant count) against the Lean
model, exact; the CAS against its Lean port (exact output) when the port is present in the driver.
Oracle on the real code: reduced == original bit-for-bit at random points and length == number of reachable
rows (independent reachability); CAS output well-formed, no more constants, terminates, and -- on
constant-free stacks (also with constants turned into extra variables) -- equal to the original in 80-digit
arithmetic wherever the original is defined (power-free) / wherever both are defined (with powers).
"""
import math
import warnings
import signal

import mpmath
import numpy as np

from bingo.symbolic_regression.agraph.agraph import AGraph
from bingo.symbolic_regression.agraph.evaluation_backend import evaluation_backend as eb
from bingo.symbolic_regression.agraph.simplification_backend import simplification_backend as sb

from harness import gen_stacks as G
from harness.mpeval import mp_eval, UNDEF, Skip, int_overflow
from harness.common import harness_main, run_driver, stack_str, f2b, watchdog, Timeout


def wf_genome(stack, D, ops=None):
    if len(stack) == 0:
        return False
    for i, (node, p1, p2) in enumerate(stack):
        if node == G.VARIABLE:
            if not (0 <= p1 < D):
                return False
        elif node in (G.CONSTANT, G.INTEGER):
            pass
        elif 2 <= node <= 15:
            if not (0 <= p1 < i and 0 <= p2 < i):
                return False
            if ops is not None and node not in ops:
                return False
        else:
            return False
    return True


def parse_stack(tokens):
    v = [int(t) for t in tokens]
    return [v[i:i + 3] for i in range(0, len(v), 3)]


def consts_to_vars(stack, D):
    """replace every CONSTANT row by its own fresh variable: a constant-free stack over D + #consts variables"""
    out, k = [], 0
    for node, p1, p2 in stack:
        if node == G.CONSTANT:
            out.append([G.VARIABLE, D + k, D + k])
            k += 1
        else:
            out.append([node, p1, p2])
    return out, D + k


def has_power(stack):
    used = G.utilized(stack)
    return any(u and r[0] in (G.POW, G.SPOW) for u, r in zip(used, stack))


def gen_cases(ctx, n):
    rng = ctx.rng
    cases = [("hand", st, 2) for st in G.hand_shapes(D=2)]
    # targeted CAS shapes
    X, C, I = G.VARIABLE, G.CONSTANT, G.INTEGER
    T = [
        [[X, 0, 0], [G.DIV, 0, 0]], [[X, 0, 0], [G.SUB, 0, 0]], [[X, 0, 0], [G.ADD, 0, 0], [G.DIV, 1, 0]],
        [[X, 0, 0], [I, 2, 2], [I, 3, 3], [G.POW, 0, 1], [G.POW, 3, 2]],
        [[X, 0, 0], [I, 2, 2], [G.POW, 0, 1], [I, 3, 3], [G.POW, 0, 3], [G.MUL, 2, 4]],
        [[X, 0, 0], [X, 1, 1], [G.ADD, 0, 1], [G.ADD, 1, 0], [G.SUB, 2, 3]],
        [[X, 0, 0], [X, 1, 1], [G.MUL, 0, 1], [G.MUL, 1, 0], [G.ADD, 2, 3], [G.DIV, 4, 2]],
        [[X, 0, 0], [G.EXP, 0, 0], [G.LOG, 1, 1]], [[X, 0, 0], [G.LOG, 0, 0], [G.EXP, 1, 1]],
        [[I, 0, 0], [G.SIN, 0, 0], [G.COS, 0, 0], [G.ADD, 1, 2], [X, 0, 0], [G.MUL, 3, 4]],
        [[X, 0, 0], [I, -1, -1], [G.POW, 0, 1], [G.MUL, 0, 2]],
        [[X, 0, 0], [I, 0, 0], [G.POW, 0, 1]], [[X, 0, 0], [I, 1, 1], [G.POW, 0, 1]], [[I, 1, 1], [X, 0, 0], [G.POW, 0, 1]],
        [[X, 0, 0], [I, 3, 3], [G.SPOW, 0, 1]], [[X, 0, 0], [I, 2, 2], [G.SPOW, 0, 1], [G.SQRT, 2, 2]],
        [[X, 0, 0], [G.ABS, 0, 0], [G.ABS, 1, 1]], [[X, 0, 0], [X, 1, 1], [G.SPOW, 0, 1], [G.SPOW, 2, 1]],
        [[C, -1, -1], [C, -1, -1], [G.ADD, 0, 1], [X, 0, 0], [G.MUL, 2, 3]],
        [[C, -1, -1], [X, 0, 0], [G.MUL, 0, 1], [C, -1, -1], [G.MUL, 2, 3], [G.ADD, 4, 0]],
        [[C, -1, -1], [I, 2, 2], [G.MUL, 0, 1], [X, 0, 0], [G.ADD, 2, 3], [G.SIN, 4, 4], [C, -1, -1], [G.MUL, 5, 6]],
        [[X, 0, 0], [C, -1, -1], [G.POW, 0, 1], [C, -1, -1], [G.POW, 2, 3]],
        [[C, -1, -1], [X, 0, 0], [X, 1, 1], [G.SIN, 0, 0], [G.MUL, 3, 1], [G.MUL, 0, 2], [G.ADD, 4, 5], [C, -1, -1], [G.ADD, 6, 7]],   # sin(c0)*x0 + c0*x1 + c1
        [[C, -1, -1], [X, 0, 0], [X, 1, 1], [G.MUL, 0, 0], [G.MUL, 3, 1], [G.MUL, 0, 2], [G.ADD, 4, 5], [C, -1, -1], [G.MUL, 6, 7]],   # (c0^2*x0 + c0*x1)*c1
        [[X, 0, 0], [I, 2, 2], [G.POW, 0, 1], [C, -1, -1], [G.POW, 2, 3]],     # (x^2)^c   (F19)
        [[X, 0, 0], [C, -1, -1], [G.POW, 0, 1], [I, 3, 3], [G.POW, 2, 3]],     # (x^c)^3
        [[X, 0, 0], [X, 1, 1], [G.MUL, 0, 1], [I, 2, 2], [G.POW, 2, 3], [C, -1, -1], [G.POW, 4, 5]],   # ((xy)^2)^c
        [[I, 3, 3], [G.POW, 0, 0], [G.POW, 1, 1]],     # 27^27: int64 wrap (known finding)
    ]
    cases += [("targeted", st, 2) for st in T]
    for k in range(n):
        D = rng.choice([1, 2, 3])
        ops = rng.choice(G.OP_SUBSETS)
        size = rng.choice([2, 3, 4, 6, 8, 12, 16, 24, 32, 48, 64])
        st = G.random_stack(rng, size, D, ops, term_prob=rng.choice([0.15, 0.3, 0.5]),
                            const_prob=rng.choice([0.0, 0.0, 0.3, 0.6]), int_prob=rng.choice([0.0, 0.2, 0.4]),
                            n_load=rng.choice([1, 2]), share_bias=rng.choice([0.0, 0.4]))
        cases.append(("random", st, D))
    # collection-heavy expression trees (like terms / like bases over compound terms, nested)
    for k in range(max(n // 2, 200)):
        D = rng.choice([2, 3, 4])
        tree = G.collect_tree(rng, D, with_div=rng.random() < 0.5, with_pow=rng.random() < 0.25, with_const=rng.random() < 0.25,
                              depth=rng.choice([1, 2, 2, 3]))
        st = G.tree_to_stack(tree, share=rng.random() < 0.7)
        if len(st) <= 90:
            cases.append(("collect", st, D))
    # twins: sibling terms identical up to one integer leaf (equality / hashing of expressions; (-1, -2) collide in CPython's hash)
    for k in range(max(n // 3, 150)):
        D = rng.choice([2, 3])
        st = G.tree_to_stack(G.twin_tree(rng, D), share=rng.random() < 0.7)
        cases.append(("twins", st, D))
    # the same constants in several places (constant folding counts occurrences)
    for k in range(max(n // 3, 150)):
        D = rng.choice([1, 2])
        st = G.tree_to_stack(G.shared_const_tree(rng, D), share=rng.random() < 0.7)
        cases.append(("shared constants", st, D))
    # stale constant numbers: what crossover and command-copying mutation between parsed or already evaluated equations leave in
    # the genome (each CONSTANT row is its own constant whatever number it carries; `_update` renumbers by stack order)
    stale = []
    for origin, st, D in cases:
        if any(r[0] == G.CONSTANT for r in st) and rng.random() < 0.25:
            st2 = [list(r) for r in st]
            for r in st2:
                if r[0] == G.CONSTANT:
                    r[1] = r[2] = rng.choice([0, 0, 1, 2, -1])
            stale.append((origin + ", stale constant numbers", st2, D))
    return cases + stale


def py_reduce(stack):
    arr = np.array(stack, dtype=int).reshape(-1, 3)
    try:
        u = sb.get_utilized_commands(arr)
    except Exception:
        u = None
    try:
        r = sb.reduce_stack(arr)
        r = [[int(v) for v in row] for row in r]
    except Exception:
        r = None
    return u, r


def run(ctx, rep):
    rng = ctx.rng
    rep.rule = ("generated stacks (12 operator subsets x sizes 2..64, with/without constants and integer rows), hand shapes and "
                "CAS-targeted shapes (collection-heavy trees, twin terms that differ in one integer, the same constants in several places); distinct = distinct stacks; non-trivial = the reduction removes a row or the CAS changes the stack")
    rep.assumptions = ["80-digit mpmath evaluation stands for exact real arithmetic in the CAS oracle",
                       "CAS soundness with free constants is checked through constants-as-variables and structure (count, well-formedness), "
                       "not by searching witness constants"]
    rep.validated_only = ["full CAS soundness with power operators and real exponents (oracle only: agreement where both are defined)",
                          "CAS termination (watchdog)"]
    cases = gen_cases(ctx, ctx.n(1500, 40000))
    lines, meta = [], []
    for origin, st, D in cases:
        rep.count("origin", origin)
        u, r = py_reduce(st)
        nontrivial = r is not None and len(r) < len(st)
        # ---------- oracle (a): reduction
        reach = G.utilized(st)
        case = {"stack": st, "D": D}
        if u is None or r is None:
            rep.violate("reduce_stack / get_utilized_commands raised on a well-formed stack", "C03:reduce-raise", case)
        else:
            if list(map(bool, u)) != reach:
                rep.violate(f"utilized mask {list(map(bool, u))} differs from reachability {reach}", "C03:util-mask", case)
            if len(r) != sum(reach):
                rep.violate(f"reduced length {len(r)} != number of reachable rows {sum(reach)}", "C03:reduce-length", case)
            if not wf_genome(r, D):
                rep.violate("reduced stack is not well-formed", "C03:reduce-wf", case)
            else:
                full, L = G.renumber(st)
                cvals = G.random_consts(rng, L, special_prob=0.1)
                # constants of utilized rows, in order
                used_c = [cvals[row[1]] for row, uu in zip(full, reach) if uu and row[0] == G.CONSTANT]
                red, L2 = G.renumber(r)
                x = G.random_data(rng, 3, D, special_prob=0.15)
                def ev(stk, cs):
                    try:
                        return eb.evaluate(np.array(stk, dtype=int), x, tuple(np.float64(v) for v in cs))
                    except ArithmeticError:
                        return "raised"   # Python-float ZeroDivisionError (INTEGER rows)
                try:
                    o1, o2 = ev(full, cvals), ev(red, used_c)
                    if isinstance(o1, str):
                        # the original may raise because of an *unused* row; the reduced stack is what AGraph evaluates
                        rep.count("reduce_eval", "original raised")
                    elif isinstance(o2, str):
                        rep.violate("reduced stack raises although the original evaluates", "C03:reduce-eval",
                                    {**case, "x": x.tolist(), "consts": cvals})
                    else:
                        same = o1.shape == o2.shape and all(f2b(a) == f2b(b) or (math.isnan(a) and math.isnan(b))
                                                            for a, b in zip(o1.ravel(), o2.ravel()))
                        rep.count("reduce_eval", "compared")
                        if not same:
                            rep.violate("reduced stack evaluates differently from the original", "C03:reduce-eval",
                                        {**case, "x": x.tolist(), "consts": cvals})
                except Exception as exc:
                    rep.violate(f"evaluation of original/reduced raised {type(exc).__name__}", "C03:reduce-eval-raise", case)
        # ---------- K lines
        if ctx.driver_ok:
            ss = stack_str(st)
            lines.append(f"util ; {ss}")
            meta.append(("util", case, u))
            lines.append(f"reduce ; {ss}")
            meta.append(("reduce", case, r))
        # ---------- AGraph._update without simplification
        ag = AGraph()
        ag.command_array = np.array(st, dtype=int).reshape(-1, 3)
        nconst = ag.get_number_local_optimization_params()
        simp = [[int(v) for v in row] for row in ag._simplified_command_array]
        if r is not None:
            exp, L2 = G.renumber(r)
            if simp != exp or nconst != L2:
                rep.violate("AGraph._update: simplified command array is not renumber(reduce(stack)) or constant count differs",
                            "C03:update-renumber", case)
            if ctx.driver_ok:
                lines.append(f"renumber ; {stack_str(r)}")
                meta.append(("renumber", case, (nconst, simp)))
        # ---------- oracle (b): CAS
        changed = cas_oracle(ctx, rep, st, D, case)
        cas_constants_oracle(ctx, rep, st, D, case)
        cas_folding_oracle(ctx, rep, st, D, case)
        rep.case(st, nontrivial or changed)
        rep.sample({"stack": G.describe(st), "reduced": None if r is None else G.describe(r)})
    # malformed stream for util / reduce
    for k in range(ctx.n(400, 4000)):
        st = G.random_stack(rng, rng.randrange(1, 9), 2, G.ALL_OPS)
        i = rng.randrange(len(st))
        st[i] = list(st[i])
        st[i][rng.choice([1, 2])] = rng.choice([-9, -3, -2, -1, i, i + 1, len(st), len(st) + 2])
        if rng.random() < 0.15:
            st[i][0] = rng.choice([16, 17, -2, 40])
        u, r = py_reduce(st)
        rep.count("malformed", f"util={'ok' if u is not None else 'err'},reduce={'ok' if r is not None else 'err'}")
        rep.case(("malformed", st), False)
        if ctx.driver_ok:
            lines.append(f"util ; {stack_str(st)}")
            meta.append(("util", {"stack": st}, u))
            lines.append(f"reduce ; {stack_str(st)}")
            meta.append(("reduce", {"stack": st}, r))
    if ctx.driver_ok:
        outs = run_driver(lines)
        rep.corr_cases = len(lines)
        for line, o, (kind, case, exp) in zip(lines, outs, meta):
            toks = o.split()
            if kind == "util":
                got = None if toks[0] == "err" else [t == "1" for t in toks[1:]]
                want = None if exp is None else [bool(b) for b in exp]
                if got != want:
                    rep.disagree(f"get_utilized_commands: model {got} vs code {want}", {"line": line, **case})
            elif kind == "reduce":
                got = None if toks[0] == "err" else parse_stack(toks[1:])
                if got != exp:
                    rep.disagree(f"reduce_stack: model {got} vs code {exp}", {"line": line, **case})
            elif kind == "renumber":
                nconst, simp = exp
                parts = o.split(";")
                got_n = int(parts[0].split()[1])
                got = parse_stack(parts[1].split())
                if got_n != nconst or got != simp:
                    rep.disagree(f"_update renumbering: model ({got_n}, {got}) vs code ({nconst}, {simp})", {"line": line, **case})
    cas_correspondence(ctx, rep, cases)


SLOW = {"n": 0}


def cas_simplify(stack):
    arr = np.array(stack, dtype=int).reshape(-1, 3)
    try:
        try:
            with watchdog(5.0):
                out = sb.simplify_stack(arr)
        except Timeout:
            # slow is not divergent (termination is a theorem, C03Term): a loaded machine or a big expansion of integer powers can
            # exceed 5 s; only a run that also exceeds 120 s is reported
            SLOW["n"] += 1
            with watchdog(120.0):
                out = sb.simplify_stack(arr)
        return "ok", [[int(v) for v in row] for row in out]
    except Timeout:
        return "timeout", None
    except RecursionError:
        return "recursion", None
    except Exception as exc:
        return "raise:" + type(exc).__name__, None


def port_says_overflow(ctx, stack):
    """exact classifier of the int64-wrap finding F3b: the Lean port of the CAS re-runs the simplification in strict mode
    and reports whether some int64 operation wrapped to a different value (`ovf=1`); needs the driver"""
    if not ctx.driver_ok:
        return False
    try:
        o = run_driver([f"simplifyr ; {stack_str(stack)}"], timeout=120)[0]
    except Exception:
        return False
    return "ovf=1" in o


def cas_oracle(ctx, rep, st, D, case):
    rng = ctx.rng
    status, out = cas_simplify(st)
    rep.count("cas_status", status)
    if status == "timeout":
        rep.violate("algebraic simplification did not terminate within 120 s", "C03:cas-timeout", case)
        return False
    if status != "ok":
        key = "C03:F3b-int64-wrap" if status in ("raise:MemoryError", "raise:OverflowError") else "C03:cas-raise"
        rep.violate(f"algebraic simplification raised ({status})", key, case)
        return False
    changed = out != [list(r) for r in st]
    if not wf_genome(out, D):
        rep.violate(f"simplified stack is not well-formed: {out}", "C03:cas-wf", case)
        return changed
    nc_in = sum(1 for row, u in zip(st, G.utilized(st)) if u and row[0] == G.CONSTANT)
    nc_out = sum(1 for row in out if row[0] == G.CONSTANT)
    if nc_out > nc_in:
        rep.violate(f"simplified stack has {nc_out} constants, original uses {nc_in}", "C03:cas-more-constants", {**case, "simplified": out})
    if not all(G.utilized(out)):
        rep.count("cas_output_has_unused_rows")
    # pointwise on the constant-free version (constants -> fresh variables)
    cf, D2 = consts_to_vars(st, D)
    s2, o2 = (status, out) if D2 == D else cas_simplify(cf)
    if s2 != "ok":
        if s2 == "timeout":
            rep.violate("algebraic simplification did not terminate within 120 s", "C03:cas-timeout", {"stack": cf, "D": D2})
        else:
            key = "C03:F3b-int64-wrap" if s2 in ("raise:MemoryError", "raise:OverflowError") else "C03:cas-raise"
            rep.violate(f"algebraic simplification raised ({s2})", key, {"stack": cf, "D": D2})
        return changed
    if any(r[0] == G.CONSTANT for r in o2) or not wf_genome(o2, D2):
        rep.violate("constant-free stack simplified to a stack with constants / ill-formed", "C03:cas-wf", {"stack": cf, "D": D2, "simplified": o2})
        return changed
    power = has_power(cf)
    ovf = int_overflow(cf) or any(r[0] == G.INTEGER and abs(r[1]) >= 2 ** 53 for r in o2)
    npts = 3 if D2 == D else 6
    for ipt in range(npts):
        x = [G.nice_value(rng) for _ in range(D2)]
        if ipt >= 3:
            # constants (now variables D..D2-1) at half-integers, data at small integers: points where power expressions
            # such as (x^2)^c are finite on both sides although the base is negative
            x = [float(rng.choice([-3, -2, -1, 1, 2, 3])) if rng.random() < 0.7 else G.nice_value(rng) for _ in range(D)] + \
                [rng.choice([0.5, 1.5, -0.5, 2.5, -1.5]) for _ in range(D2 - D)]
        try:
            a, mx = mp_eval(cf, x, [], want_max=True)
            b = mp_eval(o2, x, [])
        except Skip:
            rep.count("cas_point", "skipped")
            continue
        except Exception:
            rep.count("cas_point", "skipped")
            continue
        if a is UNDEF:
            rep.count("cas_point", "original undefined")
            continue
        bad = None
        if b is UNDEF:
            if not power:
                bad = "simplified is undefined where the power-free original is defined"
            else:
                rep.count("cas_point", "simplified undefined (powers)")
                continue
        else:
            tol = mpmath.mpf("1e-30") * max(1, abs(a), abs(b)) + mpmath.mpf("1e-55") * mx
            if abs(a - b) > tol:
                bad = f"values differ: original {mpmath.nstr(a, 15)} vs simplified {mpmath.nstr(b, 15)}"
        if bad is None:
            rep.count("cas_point", "agree")
        else:
            key = "C03:F3b-int64-wrap" if (ovf or port_says_overflow(ctx, cf)) else "C03:cas-value"
            rep.violate("CAS: " + bad, key, {"stack": cf, "D": D2, "simplified": o2, "x": [float(v) for v in x]})
            break
    return changed


def expr_has_power(e):
    if e.operator in (G.INTEGER, G.VARIABLE, G.CONSTANT):
        return False
    return e.operator in (G.POW, G.SPOW) or any(expr_has_power(o) for o in e.operands)


def expr_has_kink(e):
    from bingo.symbolic_regression.agraph.operator_definitions import ABS, SQRT, LOGARITHM, SAFE_POWER
    if getattr(e, "operator", None) in (ABS, SQRT, LOGARITHM, SAFE_POWER):
        return True
    ops = getattr(e, "operands", None) or []
    return any(expr_has_kink(o) for o in ops if hasattr(o, "operator"))


def cas_constants_oracle(ctx, rep, st, D, case):
    """`automatic_simplify` with the constants KEPT as constants (rewrites that fire only for CONSTANT operands, e.g.
    power-of-a-power with a constant exponent, are invisible once constants are turned into variables): the expression
    before and after `automatic_simplify` carries the same constant ids, so both are evaluated with the same generic
    constant values -- no witness search is needed at this stage"""
    if not any(r[0] == G.CONSTANT for r in st):
        return
    from bingo.symbolic_regression.agraph.simplification_backend.interpreter import build_cas_expression
    from bingo.symbolic_regression.agraph.simplification_backend.automatic_simplification import automatic_simplify
    from harness.mpeval import mp_eval_expr
    rng = ctx.rng
    try:
        with watchdog(5.0):
            e0 = build_cas_expression(np.array(st, dtype=int).reshape(-1, 3))
            e1 = automatic_simplify(e0)
    except Timeout:
        return
    except Exception:
        return          # raising is reported by cas_oracle
    power = expr_has_power(e0) or any(r[0] in (G.POW, G.SPOW) for r, u in zip(st, G.utilized(st)) if u)
    ovf = int_overflow(st)
    cvals = {}
    for ipt in range(5):
        half = ipt >= 2
        x = [float(rng.choice([-3, -2, -1, 1, 2, 3])) if (half and rng.random() < 0.7) else G.nice_value(rng) for _ in range(D)]
        cvals.clear()

        def cval(i):
            if i not in cvals:
                cvals[i] = rng.choice([0.5, 1.5, -0.5, 2.5, -1.5]) if half else G.nice_value(rng) * 1.0371
            return cvals[i]
        try:
            a = mp_eval_expr(e0, x, cval)
            b = mp_eval_expr(e1, x, cval)
        except (Skip, RecursionError):
            rep.count("cas_const_point", "skipped")
            continue
        except Exception:
            rep.count("cas_const_point", "skipped")
            continue
        if a is UNDEF:
            rep.count("cas_const_point", "original undefined")
            continue
        if b is UNDEF:
            if power:
                rep.count("cas_const_point", "simplified undefined (powers)")
                continue
            bad = "automatic_simplify result is undefined where the power-free original is defined"
        else:
            tol = mpmath.mpf("1e-30") * max(1, abs(a), abs(b))
            bad = None if abs(a - b) <= tol else f"automatic_simplify changes the value with the constants kept: {mpmath.nstr(a, 15)} vs {mpmath.nstr(b, 15)}"
        if bad is None:
            rep.count("cas_const_point", "agree")
        else:
            rep.violate("CAS: " + bad, "C03:F3b-int64-wrap" if (ovf or port_says_overflow(ctx, st)) else "C03:cas-value",
                        {**case, "x": x, "constants_by_row": {str(int(k)): float(v) for k, v in cvals.items()}})
            break


def cas_folding_oracle(ctx, rep, st, D, case):
    """constant folding must not lose expressiveness: for generic values of the constants of the expression before
    `fold_constants` there must be values of the (fewer) constants after it that reproduce it.  The search for those values is
    only trusted where it is EXACT: when the folded expression is affine in its constants (checked numerically) the witness is
    a linear least-squares problem, and a positive residual on the sample points proves that no witness exists."""
    if sum(1 for r in st if r[0] == G.CONSTANT) < 2:
        return
    from bingo.symbolic_regression.agraph.simplification_backend.interpreter import build_cas_expression
    from bingo.symbolic_regression.agraph.simplification_backend.automatic_simplification import automatic_simplify
    from bingo.symbolic_regression.agraph.simplification_backend.constant_folding import fold_constants, _get_constants
    from harness.mpeval import mp_eval_expr
    rng = ctx.rng
    try:
        with watchdog(5.0):
            e1 = automatic_simplify(build_cas_expression(np.array(st, dtype=int).reshape(-1, 3)))
            ids1 = sorted(_get_constants(e1))
            e2 = fold_constants(e1.copy() if hasattr(e1, "copy") else e1)
            ids2 = sorted(_get_constants(e2))
    except Timeout:
        return
    except Exception:
        return
    if not ids2 or len(ids2) > 4 or expr_has_power(e1) or int_overflow(st):
        return
    if expr_has_kink(e2):
        # |.|, sqrt|.|, log|.| make the folded expression only PIECEWISE affine in its constants: the linear solve is exact on one
        # piece and says nothing about the others (false alarm of the thorough tier on |c - x|): inconclusive
        rep.count("cas_folding", "piecewise (abs / sqrt / log): inconclusive")
        return
    cv = {i: G.nice_value(rng) * 1.0371 for i in ids1}
    npts = 2 * len(ids2) + 6
    xs = [[G.nice_value(rng) for _ in range(D)] for _ in range(npts)]

    def f2(x, vals):
        return mp_eval_expr(e2, x, lambda i: vals[ids2.index(i)])
    try:
        target = [mp_eval_expr(e1, x, lambda i: cv[i]) for x in xs]
        zero = [0.0] * len(ids2)
        base = [f2(x, zero) for x in xs]
        cols = []
        for k in range(len(ids2)):
            unit = [1.0 if j == k else 0.0 for j in range(len(ids2))]
            cols.append([f2(x, unit) for x in xs])
        probe = [rng.uniform(-2, 2) for _ in ids2]
        lin = [f2(x, probe) for x in xs]
    except Exception:
        rep.count("cas_folding", "skipped (evaluation)")
        return
    vals_all = target + base + lin + [v for c in cols for v in c]
    if any(v is UNDEF for v in vals_all):
        rep.count("cas_folding", "skipped (undefined point)")
        return
    # affine in the constants?  f(probe) = f(0) + sum probe_k (f(e_k) - f(0))
    for r in range(npts):
        pred = base[r] + sum(mpmath.mpf(probe[k]) * (cols[k][r] - base[r]) for k in range(len(ids2)))
        if abs(pred - lin[r]) > mpmath.mpf("1e-40") * max(1, abs(lin[r])):
            rep.count("cas_folding", "not affine in the folded constants (inconclusive)")
            return
    A = mpmath.matrix(npts, len(ids2))
    b = mpmath.matrix(npts, 1)
    for r in range(npts):
        for k in range(len(ids2)):
            A[r, k] = cols[k][r] - base[r]
        b[r] = target[r] - base[r]
    try:
        sol = mpmath.lu_solve(A, b)          # least squares for over-determined systems
        resid = max(abs(v) for v in (A * sol - b))
    except Exception:
        rep.count("cas_folding", "skipped (singular)")
        return
    scale = max([1] + [abs(v) for v in target])
    if resid > mpmath.mpf("1e-30") * scale:
        rep.violate(f"constant folding lost expressiveness: no values of the {len(ids2)} folded constants reproduce the expression with "
                    f"{len(ids1)} generic constants on {npts} points (least-squares residual {mpmath.nstr(resid, 5)}; the folded expression is "
                    f"affine in its constants, so the search is exact)", "C03:cas-value", {**case, "constants_by_row": {str(int(k)): float(v) for k, v in cv.items()}})
    else:
        rep.count("cas_folding", "witness found (affine case)")


def guided_witness_search(ctx, rep, st, code_out, model_out, budget=[12]):
    """failing-input search guided by a broken correspondence: the code's simplified stack differs from the Lean port's (whose
    output is proved to preserve the expressible functions on the proved fragment).  For generic values of the original constants,
    look for values of the constants of the CODE's output that reproduce the original on sample points (multi-start least squares).
    It only runs when the correspondence is already broken, so it cannot raise an alarm on the unchanged tree."""
    if budget[0] <= 0:
        return
    budget[0] -= 1
    try:
        from scipy.optimize import least_squares
        from bingo.symbolic_regression.agraph.evaluation_backend import evaluation_backend as eb_
    except Exception:
        return
    rng = ctx.rng
    st0, L0 = G.renumber(st)
    L1 = sum(1 for r in code_out if r[0] == G.CONSTANT)
    D = max([r[1] + 1 for r in st0 if r[0] == G.VARIABLE] + [1])
    a0, a1 = np.array(st0, dtype=int).reshape(-1, 3), np.array(code_out, dtype=int).reshape(-1, 3)
    for attempt in range(3):
        c0 = np.array([G.nice_value(rng) * 1.0371 for _ in range(L0)])
        X = np.array([[rng.uniform(0.4, 2.2) for _ in range(D)] for _ in range(3 * max(L1, 1) + 10)])
        with np.errstate(all="ignore"), warnings.catch_warnings():
            warnings.simplefilter("ignore")
            target = eb_.evaluate(a0, X, c0).ravel()
            if not np.isfinite(target).all():
                continue
            scale = max(1.0, float(np.max(np.abs(target))))
            if L1 == 0:
                best = float(np.max(np.abs(eb_.evaluate(a1, X, np.zeros(0)).ravel() - target)))
            else:
                def resid(c):
                    v = eb_.evaluate(a1, X, c).ravel() - target
                    return np.where(np.isfinite(v), v, 1e6)
                best = float("inf")
                starts = [np.array([G.nice_value(rng) for _ in range(L1)]) for _ in range(40)]
                starts += [np.array(list(c0[:L1]) + [1.0] * max(0, L1 - L0)), -np.array(list(c0[:L1]) + [1.0] * max(0, L1 - L0))]
                for s0 in starts:
                    try:
                        r = least_squares(resid, s0, method="lm" if len(X) >= L1 else "trf", max_nfev=400)
                    except Exception:
                        continue
                    best = min(best, float(np.max(np.abs(r.fun))))
                    if best <= 1e-7 * scale:
                        break
        if best > 1e-5 * scale:
            rep.violate(f"CAS: the simplified stack differs from the Lean port's and no values of its {L1} constants reproduce the original "
                        f"(generic constants {c0.tolist()}) on {len(X)} points: best maximal deviation {best:.3g} over 42 least-squares starts "
                        "(numerical search, started because the correspondence with the proved port is broken)", "C03:cas-value",
                        {"stack": st, "code_output": code_out, "port_output": model_out, "original_constants": c0.tolist(), "points": X.tolist()})
            return


def cas_correspondence(ctx, rep, cases):
    """exact comparison with the Lean port of the CAS (only if the driver knows the op)"""
    if not ctx.driver_ok:
        return
    probe = run_driver(["simplifyr ; 0 0 0"])
    if probe[0] == "bad-op":
        rep.extra["cas_port"] = "absent"
        return
    rep.extra["cas_port"] = "present"
    lines, meta = [], []
    for origin, st, D in cases:
        status, out = cas_simplify(st)
        if status == "timeout":
            continue
        lines.append(f"simplifyr ; {stack_str(st)}")
        meta.append((st, status, out))
    outs = run_driver(lines, timeout=1800)
    rep.corr_cases += len(lines)
    for line, o, (st, status, out) in zip(lines, outs, meta):
        if status != "ok":
            if not o.startswith("err"):
                rep.disagree(f"CAS: code raised ({status}) but the model returned {o[:80]}", {"stack": st})
            continue
        if o.startswith("err"):
            rep.disagree(f"CAS: model error {o} but the code returned a stack", {"stack": st})
            continue
        got = parse_stack(o.split(";")[0].split()[1:])
        want, _ = G.renumber(out)
        if got != want:
            rep.disagree("CAS output differs between the Lean port and simplify_stack", {"stack": st, "model": got, "code": want})
            guided_witness_search(ctx, rep, st, want, got)
        if "ovf=1" in o:
            rep.count("cas_port_overflow_flag")


def replay(ctx, rep, rp):
    case = rp.get("case", {})
    st, D = case.get("stack"), case.get("D", 2)
    rep.case(("replay",), True)
    rep.case(("replay2",), True)
    if st is None:
        return
    u, r = py_reduce(st)
    print("replay: utilized", u, "reduced", r)
    status, out = cas_simplify(st)
    print("replay: simplify_stack ->", status, out)
    cas_oracle(ctx, rep, st, D, case)
    if r is not None and len(r) != sum(G.utilized(st)):
        rep.violate("reduced length differs from reachable rows", rp.get("key"), case)


if __name__ == "__main__":
    harness_main("C03", run, replay)
