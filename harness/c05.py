"""C05 -- a stored fitness is never stale: it equals the fitness of the current genome.

K (translator tie): the phase list of each algorithm regenerated from the source is compared with the call
sequence OBSERVED on the real object (variation / evaluation(pop|offspring) / diagnostics / selection(args) /
shuffle), and the abstract interpreter's verdict is reported.
Oracle on the real code: a read monitor on `Chromosome.fitness` (every read during selection, diagnostics,
best-individual queries and hall-of-fame updates must be of an individual with fit_set) and an audit at every
generation boundary (`fit_set -> fitness == f(genome)`) over populations, offspring and halls of fame, for both
chromosome families, every algorithm, islands and serial archipelagos with migration.
"""
import math
import warnings

import numpy as np

from bingo.chromosomes.chromosome import Chromosome
from bingo.chromosomes.multiple_values import (MultipleValueChromosomeGenerator, SinglePointCrossover, SinglePointMutation)
from bingo.evaluation.evaluation import Evaluation
from bingo.evolutionary_algorithms.age_fitness import AgeFitnessEA
from bingo.evolutionary_algorithms.evolutionary_algorithm import EvolutionaryAlgorithm
from bingo.evolutionary_algorithms.generalized_crowding import GeneralizedCrowdingEA
from bingo.evolutionary_algorithms.mu_comma_lambda import MuCommaLambda
from bingo.evolutionary_algorithms.mu_plus_lambda import MuPlusLambda
from bingo.evolutionary_optimizers.island import Island
from bingo.evolutionary_optimizers.serial_archipelago import SerialArchipelago
from bingo.selection.tournament import Tournament
from bingo.stats.hall_of_fame import HallOfFame
from bingo.variation.var_or import VarOr

from harness.bingo_util import GenomeFitness
from harness.common import harness_main, run_driver
from harness.varphase import variation_correspondence


class ReadMonitor:
    """records reads of `.fitness` of individuals whose fit_set is False, with the phase they happened in"""

    def __init__(self):
        self.bad = []
        self.phase = "?"
        self.active = True

    def __enter__(self):
        self.orig = Chromosome.fitness
        me = self
        getter = self.orig.fget

        def fget(self_):
            if me.active and not self_._fit_set:
                me.bad.append(me.phase)
            return getter(self_)
        Chromosome.fitness = property(fget, self.orig.fset)
        return self

    def __exit__(self, *a):
        Chromosome.fitness = self.orig
        return False


def make_ea(kind, family, rng):
    if family == "ints":
        fit = GenomeFitness(nan_mod=rng.choice([0, 7]), inf_mod=rng.choice([0, 11]))
        value_fn = lambda: int(np.random.randint(0, 10))
        gen = MultipleValueChromosomeGenerator(value_fn, 4)
        cx, mut = SinglePointCrossover(), SinglePointMutation(value_fn)
        truth = lambda ind: fit.value(ind.values)
    else:
        from bingo.symbolic_regression.agraph.component_generator import ComponentGenerator
        from bingo.symbolic_regression.agraph.crossover import AGraphCrossover
        from bingo.symbolic_regression.agraph.generator import AGraphGenerator
        from bingo.symbolic_regression.agraph.mutation import AGraphMutation
        from bingo.symbolic_regression.explicit_regression import ExplicitRegression, ExplicitTrainingData
        x = np.linspace(-1, 1, 9).reshape(-1, 1)
        y = x * x + 1
        fit = ExplicitRegression(ExplicitTrainingData(x, y))
        cg = ComponentGenerator(1)
        for op in ("+", "-", "*", "/"):
            cg.add_operator(op)
        gen = AGraphGenerator(8, cg)
        cx, mut = AGraphCrossover(), AGraphMutation(cg)
        ref = ExplicitRegression(ExplicitTrainingData(x, y))
        truth = lambda ind: float(ref(ind.copy()))
    ev = Evaluation(fit)
    n = rng.choice([4, 6, 8])
    if kind == "MuPlusLambda":
        ea = MuPlusLambda(ev, Tournament(2), cx, mut, 0.4, 0.4, n)
    elif kind == "MuCommaLambda":
        ea = MuCommaLambda(ev, Tournament(2), cx, mut, 0.4, 0.4, n)
    elif kind == "AgeFitnessEA":
        ea = AgeFitnessEA(ev, gen, cx, mut, 0.4, 0.4, n)
    elif kind == "GeneralizedCrowdingEA":
        ea = GeneralizedCrowdingEA(ev, cx, mut, 0.4, 0.4)
    else:
        ea = EvolutionaryAlgorithm(VarOr(cx, mut, 0.4, 0.4), ev, Tournament(2))
    return ea, gen, n, truth


KINDS = ["EvolutionaryAlgorithm", "MuPlusLambda", "MuCommaLambda", "AgeFitnessEA", "GeneralizedCrowdingEA"]


def instrument(ea, mon, log):
    """log the phase sequence of one generational step and tell the monitor which phase is running"""
    pop_ref = {}

    class Proxy:
        """callable stand-in that forwards every attribute (offspring_parents, eval_count, ...) to the real phase object"""

        def __init__(self, orig, label_fn):
            object.__setattr__(self, "_orig", orig)
            object.__setattr__(self, "_label_fn", label_fn)

        def __call__(self, *a, **k):
            lab = self._label_fn(*a)
            log.append(lab)
            old = mon.phase
            mon.phase = lab
            try:
                return self._orig(*a, **k)
            finally:
                mon.phase = old

        def __getattr__(self, name):
            return getattr(object.__getattribute__(self, "_orig"), name)

        def __setattr__(self, name, value):
            setattr(object.__getattribute__(self, "_orig"), name, value)

    def wrap(name, obj, label_fn):
        setattr(ea, name, Proxy(getattr(ea, name), label_fn))
    wrap("variation", ea, lambda pop, n: (pop_ref.__setitem__("pop", pop) or "variation"))

    def eval_label(pop):
        return "evalPop" if pop is pop_ref.get("pop") else "evalOff"
    wrap("evaluation", ea, eval_label)

    def sel_label(src, n):
        p = pop_ref.get("pop")
        if src is p:
            return "select(pop)"
        if p is not None and len(src) > len(p) and all(a is b for a, b in zip(src, p)):
            return "select(pop+off)"
        return "select(off)"
    wrap("selection", ea, sel_label)
    wrap("update_diagnostics", ea, lambda pop, off: "diagnostics")


def audit(rep, truth, containers, where, case):
    for name, inds in containers:
        for ind in inds:
            if ind.fit_set:
                w = truth(ind)
                f = ind._fitness
                ok = f is not None and (f == w or (isinstance(f, float) and math.isnan(f) and math.isnan(w)) or
                                        (math.isfinite(w) and abs(f - w) <= 1e-12 * max(1, abs(w))))
                if not ok:
                    rep.violate(f"{where}: an individual in {name} is marked evaluated with fitness {f} but f(genome) = {w}", "C05:stale-fitness", case)
                    return


def run(ctx, rep):
    rng = ctx.rng
    rep.rule = ("real runs of the 5 algorithm classes x 2 chromosome families (int lists with NaN/inf-valued genomes, AGraph) x populations 4..8 x "
                "1..6 generations, with and without a prior evaluation by the caller, islands with halls of fame, serial archipelagos of 2..4 "
                "islands with migrations; scripted-draw runs of VarAnd / VarOr / AddRandomIndividuals; predictor islands (plain and delegating fitness functions, alone and in serial archipelagos), local optimization with worker pools; distinct = distinct (algorithm, family, seed); every run is non-trivial (reads happen)")
    rep.assumptions = ["the fitness function is deterministic in the genome (true for the functions used)"]
    observed = {}
    with ReadMonitor() as mon:
        for t in range(ctx.n(60, 600)):
            kind = KINDS[t % len(KINDS)]
            family = "ints" if (t // len(KINDS)) % 3 != 2 else "agraph"
            seed = rng.randrange(2 ** 31)
            np.random.seed(seed)
            import random as pyrandom
            pyrandom.seed(seed)
            pre_eval = rng.random() < 0.4
            use_arch = rng.random() < 0.3 and kind != "GeneralizedCrowdingEA"
            case = {"algorithm": kind, "family": family, "seed": seed, "pre_evaluated": pre_eval, "archipelago": use_arch}
            rep.case((kind, family, seed, pre_eval, use_arch), True)
            rep.count("algorithm", kind)
            rep.count("family", family)
            mon.bad.clear()
            mon.phase = "setup"
            with warnings.catch_warnings():
                warnings.simplefilter("ignore")
                ea, gen, n, truth = make_ea(kind, family, rng)
                log = []
                instrument(ea, mon, log)
                try:
                    if use_arch:
                        tmpl = Island(ea, gen, n)
                        opt = SerialArchipelago(tmpl, num_islands=rng.randrange(2, 5), hall_of_fame=HallOfFame(3))
                        islands = opt.islands
                    else:
                        opt = Island(ea, gen, n, hall_of_fame=HallOfFame(3))
                        islands = [opt]
                    if pre_eval:
                        mon.phase = "caller-evaluation"
                        for isl in islands:
                            isl.evaluate_population()
                    if rng.random() < 0.4:
                        # a hall-of-fame update (or an evolve call of zero generations) on an optimizer that has never evolved
                        mon.phase = "hall-of-fame update before the first generation"
                        log.append("event")
                        if rng.random() < 0.5:
                            opt.update_hall_of_fame()
                        else:
                            opt.evolve(0)
                        rep.count("history_event", "hof update on a fresh optimizer")
                    for g in range(rng.randrange(1, 7)):
                        mon.phase = "evolve"
                        opt.evolve(1)
                        mon.phase = "best-individual"
                        opt.get_best_fitness()
                        if rng.random() < 0.3:
                            # reset_fitness (what a migration does) directly followed by a hall-of-fame update
                            log.append("event")
                            for isl in islands:
                                isl.reset_fitness()
                            mon.phase = "hall-of-fame update after reset_fitness"
                            opt.update_hall_of_fame()
                            rep.count("history_event", "hof update after reset_fitness")
                        mon.active = False
                        audit(rep, truth, [("population", isl.population) for isl in islands] +
                              [("hall of fame", list(opt.hall_of_fame))], f"generation {g + 1}", case)
                        mon.active = True
                except Exception as exc:
                    unevaluated = "NoneType" in str(exc)
                    key = "C05:F5-mucommalambda-diagnostics" if (kind == "MuCommaLambda" and unevaluated) else "C05:raised"
                    rep.violate(f"{kind}: {type(exc).__name__}: {exc}", key, case)
                    continue
            if not use_arch and "variation" in log:
                a = log.index("variation")
                b = next((i for i in range(a + 1, len(log)) if log[i] in ("variation", "event")), len(log))
                step = log[a:b]
                if any(p.startswith("select") for p in step):       # a complete generational step
                    observed.setdefault(kind, set()).add(tuple(p for p in step))
            if mon.bad:
                phases = sorted(set(mon.bad))
                key = "C05:F5-mucommalambda-diagnostics" if (kind == "MuCommaLambda" and phases == ["diagnostics"]) else "C05:unevaluated-read"
                rep.violate(f"{kind}: fitness of an individual that is not marked evaluated was read during {phases}", key, case)
    special_islands(ctx, rep)
    rep.extra["observed_phase_lists"] = {k: [list(s) for s in v] for k, v in observed.items()}
    if ctx.driver_ok:
        out = run_driver(["phases"])[0]
        rep.corr_cases = 1
        gen_lists = {}
        for part in out[3:].split(" ; "):
            name, rest = part.split(": ", 1)
            ph, verdict = rest.split(" | ")
            gen_lists[name] = (ph.split(", "), verdict)
        rep.extra["generated_phase_lists"] = {k: {"phases": v[0], "abstract_interpreter": v[1]} for k, v in gen_lists.items()}
        alias = {"AgeFitnessEA": "MuPlusLambda"}
        for kind, seqs in observed.items():
            want = gen_lists.get(alias.get(kind, kind))
            if want is None:
                continue
            rep.corr_cases += len(seqs)
            gen_seq = [p for p in want[0] if p != "shuffle"]
            for s in seqs:
                if list(s) != gen_seq:
                    rep.disagree(f"{kind}: observed phase sequence {list(s)} differs from the regenerated phase list {gen_seq}", {"algorithm": kind})
    variation_correspondence(ctx, rep)


def special_islands(ctx, rep):
    """(a) FitnessPredictorIsland: a stored fitness must be the value of the island's CURRENT fitness function (current predictor
    subset) at every generation boundary, hall-of-fame entries the full-data value; (b) AGraph island with local optimization and
    multi-process evaluation: a stored fitness must be the plain regression fitness of the individual's CURRENT constants."""
    from bingo.evolutionary_optimizers.fitness_predictor_island import FitnessPredictorIsland
    from bingo.local_optimizers.local_opt_fitness import LocalOptFitnessFunction
    from bingo.local_optimizers.scipy_optimizer import ScipyOptimizer
    from bingo.symbolic_regression.agraph.component_generator import ComponentGenerator
    from bingo.symbolic_regression.agraph.crossover import AGraphCrossover
    from bingo.symbolic_regression.agraph.generator import AGraphGenerator
    from bingo.symbolic_regression.agraph.mutation import AGraphMutation
    from bingo.symbolic_regression.explicit_regression import ExplicitRegression, ExplicitTrainingData
    rng = ctx.rng

    def close(a, b):
        return a == b or (math.isnan(a) and math.isnan(b)) or (math.isfinite(a) and math.isfinite(b) and abs(a - b) <= 1e-9 * max(1.0, abs(b)))

    def parts(seed, n_points):
        np.random.seed(seed)
        x = np.linspace(-2, 2, n_points).reshape(-1, 1)
        y = x ** 2 + 0.5 * x
        cg = ComponentGenerator(1)
        for op in ("+", "-", "*"):
            cg.add_operator(op)
        return x, y, cg, AGraphGenerator(8, cg)

    for t in range(ctx.n(8, 40)):
        seed = rng.randrange(2 ** 31)
        x, y, cg, gen = parts(seed, rng.choice([30, 60]))
        fit = ExplicitRegression(training_data=ExplicitTrainingData(x.copy(), y.copy()))
        wrapped = t % 2 == 1
        if wrapped:
            # the fitness function SymbolicRegressor uses: a wrapper that delegates `training_data` to an inner function
            cgw = ComponentGenerator(1, constant_probability=0.4)
            for op in ("+", "*"):
                cgw.add_operator(op)
            cg, gen = cgw, AGraphGenerator(6, cgw)
            fit = LocalOptFitnessFunction(fit, ScipyOptimizer(fit, method="lm"))
        ea = AgeFitnessEA(Evaluation(fit), gen, AGraphCrossover(), AGraphMutation(cg), 0.4, 0.4, 10)
        case = {"kind": "fitness-predictor island", "seed": seed, "local_optimization_wrapper": wrapped}
        rep.case(("fpi", seed), True)
        rep.count("special", "fitness-predictor island" + (" with a delegating (local optimization) fitness function" if wrapped else ""))
        full_ref = ExplicitRegression(training_data=ExplicitTrainingData(x.copy(), y.copy()))
        try:
            with warnings.catch_warnings():
                warnings.simplefilter("ignore")
                isl = FitnessPredictorIsland(ea, gen, 10, predictor_population_size=4, predictor_update_frequency=rng.choice([2, 3]),
                                             predictor_size_ratio=rng.choice([0.1, 0.3]), predictor_computation_ratio=rng.choice([0.5, 0.9]),
                                             trainer_population_size=3, trainer_update_frequency=rng.choice([2, 4]), hall_of_fame=HallOfFame(3))
                for g in range(ctx.n(9, 16)):
                    isl.evolve(1)
                    cur = ExplicitRegression(training_data=isl._fitness_function.training_data)
                    bad = 0
                    for ind in isl.population:
                        if ind.fit_set and not close(float(ind._fitness), float(cur(ind.copy()))):
                            bad += 1
                    if bad:
                        rep.violate(f"fitness-predictor island, generation {g + 1}: {bad} individuals are marked evaluated but their stored fitness is "
                                    "not the value of the island's current fitness function", "C05:stale-fitness", {**case, "generation": g + 1})
                        break
                    # the island's private hall of fame of PREDICTED fitness values is ranked by the current predictor: its members
                    # carry the current fitness function's value (it is emptied whenever the predictor changes)
                    priv = getattr(isl, "_hof_w_predicted_fitness", None)
                    if priv is not None:
                        off = [(float(e.fitness), float(cur(e.copy()))) for e in priv if e.fit_set and not close(float(e.fitness), float(cur(e.copy())))]
                        if off:
                            rep.violate(f"fitness-predictor island, generation {g + 1}: a member of the predicted-fitness hall of fame is marked evaluated "
                                        f"with fitness {off[0][0]}, the island's current fitness function gives {off[0][1]} ({len(off)} such members)",
                                        "C05:stale-fitness", {**case, "generation": g + 1})
                            break
                    # what the island hands out as TRUE fitness (hall of fame, best individual) is the full-data value of the genome
                    handed = [("hall-of-fame entry", e) for e in isl.hall_of_fame] + [("reported best individual", isl.get_best_individual())]
                    wrong = [(what, float(e.fitness), float(full_ref(e.copy()))) for what, e in handed
                             if e.fit_set and not close(float(e.fitness), float(full_ref(e.copy())))]
                    if wrong:
                        rep.violate(f"fitness-predictor island, generation {g + 1}: {wrong[0][0]} is marked evaluated with fitness {wrong[0][1]}, "
                                    f"the full-data fitness of its genome is {wrong[0][2]} ({len(wrong)} such values)", "C05:stale-fitness",
                                    {**case, "generation": g + 1})
                        break
        except Exception as exc:
            rep.violate(f"fitness-predictor island raised {type(exc).__name__}: {exc}", "C05:raised", case)
    # (a') a serial archipelago of predictor islands: every island evaluates with its OWN current predictor subset, so an immigrant's
    # stored fitness (computed on the island it left) is stale on arrival unless the migration clears it
    for t in range(ctx.n(4, 20)):
        seed = rng.randrange(2 ** 31)
        x, y, cg, gen = parts(seed, 40)
        fit = ExplicitRegression(training_data=ExplicitTrainingData(x.copy(), y.copy()))
        ea = MuPlusLambda(Evaluation(fit), Tournament(2), AGraphCrossover(), AGraphMutation(cg), 0.4, 0.4, 8)
        case = {"kind": "serial archipelago of fitness-predictor islands", "seed": seed}
        rep.case(("fpi-arch", seed), True)
        rep.count("special", "serial archipelago of fitness-predictor islands")
        try:
            with warnings.catch_warnings():
                warnings.simplefilter("ignore")
                tmpl = FitnessPredictorIsland(ea, gen, 8, predictor_population_size=4, predictor_update_frequency=2,
                                              predictor_size_ratio=0.2, predictor_computation_ratio=0.5, trainer_population_size=3,
                                              trainer_update_frequency=3)
                arch = SerialArchipelago(tmpl, num_islands=rng.choice([2, 3, 4]))
                for g in range(ctx.n(10, 18)):
                    arch.evolve(1)
                    bad = None
                    for k, isl in enumerate(arch.islands):
                        cur = ExplicitRegression(training_data=isl._fitness_function.training_data)
                        n_bad = sum(1 for ind in isl.population if ind.fit_set and not close(float(ind._fitness), float(cur(ind.copy()))))
                        if n_bad:
                            bad = (k, n_bad)
                            break
                    if bad:
                        rep.violate(f"archipelago of predictor islands, generation {g + 1} (after the migration): {bad[1]} individuals of island {bad[0]} are "
                                    "marked evaluated but their stored fitness is not the value of that island's current fitness function", "C05:stale-fitness",
                                    {**case, "generation": g + 1})
                        break
        except Exception as exc:
            rep.violate(f"archipelago of predictor islands raised {type(exc).__name__}: {exc}", "C05:raised", case)
    for t in range(ctx.n(3, 20)):
        seed = rng.randrange(2 ** 31)
        x, y, cg, gen = parts(seed, 12)
        cgc = ComponentGenerator(1, constant_probability=0.6)
        for op in ("+", "*"):
            cgc.add_operator(op)
        gen = AGraphGenerator(6, cgc)
        base = ExplicitRegression(training_data=ExplicitTrainingData(x, y))
        lo = LocalOptFitnessFunction(base, ScipyOptimizer(base, method="lm"))
        nproc = rng.choice([False, 2, 2])
        ea = AgeFitnessEA(Evaluation(lo, multiprocess=nproc), gen, AGraphCrossover(), AGraphMutation(cgc), 0.4, 0.4, 8)
        case = {"kind": "local optimization", "multiprocess": nproc, "seed": seed}
        rep.case(("lo", seed, nproc), True)
        rep.count("special", f"local-opt island multiprocess={nproc}")
        try:
            with warnings.catch_warnings():
                warnings.simplefilter("ignore")
                isl = Island(ea, gen, 8, hall_of_fame=HallOfFame(3))
                ref = ExplicitRegression(training_data=ExplicitTrainingData(x, y))
                for g in range(3):
                    isl.evolve(1)
                    bad = sum(1 for ind in list(isl.population) + list(isl.hall_of_fame)
                              if ind.fit_set and not close(float(ind._fitness), float(ref(ind.copy()))))
                    if bad:
                        rep.violate(f"island with local optimization (multiprocess={nproc}), generation {g + 1}: {bad} individuals are marked evaluated but "
                                    "their stored fitness is not the fitness of the constants they hold", "C05:stale-fitness", {**case, "generation": g + 1})
                        break
        except Exception as exc:
            rep.violate(f"local-optimization island raised {type(exc).__name__}: {exc}", "C05:raised", case)


def replay(ctx, rep, rp):
    rep.case(("replay",), True)
    rep.case(("replay2",), True)
    run(ctx, rep)


if __name__ == "__main__":
    harness_main("C05", run, replay)
