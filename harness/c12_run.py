"""C12 schedule-search harness: the real bingo ParallelArchipelago on the deterministic mpi4py stub.

usage:  c12_run.py <n_schedules> <seed> [--budget N] [--fair K] [--no-exhaustive] [--no-directed] [--out DIR]
        c12_run.py --replay <replay.json>

* random part: `n_schedules` runs, cycling through the (seed-shuffled) grid
  R in {2,3,4,5} x sync in {1,2,10} x n in {1,3,10,25} x {blocking, non-blocking} x {1,2,3 calls},
  each under a random / round-robin / weighted-random schedule;
* exhaustive part: for tiny cases all schedules (modulo a sound partial-order reduction, with a
  starvation bound K at branch points) by depth-first re-execution;
* directed part: re-confirmation of the known findings (F10, F16) and of the livelock that the
  property's speed assumption excludes (generation cost 0, >= 3 ranks).

Checks on every completed run, per evolve call: no deadlock, every rank returned, own mailbox empty at
return, island ages (blocking: +n exactly; non-blocking: sum of advances >= R*n and cumulatively
R*arch_age <= sum of island ages), archipelago age +n, all ranks agree on best fitness / evaluation
count / generational age / hall of fame, best fitness = NaN-aware minimum over islands, evaluation
count = sum over islands, migration conserves the multiset of individual ids and the island sizes,
partner relation symmetric.  Every non-blocking call's event trace is replayed through the Lean model
(`bvdriver` op `partrace`); migration orders through `parpartner`.

Every violation is printed with a replay file (config + the exact schedule, re-run with
`ExplicitPolicy`).
"""
import json
import math
import os
import random
import subprocess
import sys
import time
import warnings

from mpi4py import MPI

HERE = os.path.dirname(os.path.abspath(__file__))
ROOT = os.path.dirname(HERE)
DRIVER = os.path.join(ROOT, "lean", ".lake", "build", "bin", "bvdriver")

from harness.pa_scenario import Cfg, run_scenario  # noqa: E402

KNOWN = {
    "F10": "non-blocking: mean island age advanced by less than n in a call after the first "
           "(target computed from the archipelago age while islands overshot earlier)",
    "F16": "non-blocking: helper saw the exit notification at its first probe, evolved 0 generations; "
           "hall-of-fame update on never evaluated individuals raises TypeError",
}


# ----------------------------------------------------------------------------- driver

def run_driver(lines, timeout=600):
    if not lines:
        return []
    data = ("\n".join(lines) + "\n").encode()
    p = subprocess.run([DRIVER], input=data, stdout=subprocess.PIPE, stderr=subprocess.PIPE, timeout=timeout)
    out = p.stdout.decode().split("\n")
    if out and out[-1] == "":
        out.pop()
    if p.returncode != 0 or len(out) != len(lines):
        raise RuntimeError(f"driver failed rc={p.returncode} lines={len(lines)} out={len(out)} err={p.stderr.decode()[:300]}")
    return out


# ----------------------------------------------------------------------------- trace extraction

def event_token(ev):
    """stub log tuple -> driver event text (None: not a protocol event)"""
    _, r, kind = ev[:3]
    if kind == "yield":
        return f"t {r}"
    if kind == "evolve":
        return f"e {r} {ev[4]}"
    if kind == "isend":
        return f"s {r} {ev[3]} {ev[4]}"
    if kind == "iprobe":
        src = "*" if ev[3] == MPI.ANY_SOURCE else str(ev[3])
        found = "-" if ev[5] is None else str(ev[5])
        return f"p {r} {src} {ev[4]} {found}"
    if kind == "recv":
        return f"r {r} {ev[3]} {ev[4]}"
    if kind == "barrier-enter":
        return f"be {r}"
    if kind == "barrier-leave":
        return f"bl {r}"
    return f"x {r} {kind}"


def extract_nb_traces(log, R):
    """the events of each `_non_blocking_execution` call (between nb-begin and nb-end of each rank)"""
    in_sec = [False] * R
    idx = [-1] * R
    calls = {}
    for ev in log:
        r, kind = ev[1], ev[2]
        if kind == "nb-begin":
            in_sec[r] = True
            idx[r] += 1
            c = calls.setdefault(idx[r], {"hdr": {}, "end": {}, "events": []})
            c["hdr"][r] = ev[3:]          # (n, arch_age, sync, island_age)
        elif kind == "nb-end":
            in_sec[r] = False
            calls[idx[r]]["end"][r] = ev[3]
        elif in_sec[r]:
            calls[idx[r]]["events"].append(event_token(ev))
    return [calls[k] for k in sorted(calls)]


def trace_line(call, R):
    hdr = call["hdr"]
    if len(hdr) != R:
        return None, "not every rank entered the non-blocking section"
    base = {h[:3] for h in hdr.values()}
    if len(base) != 1:
        return None, f"ranks disagree on (n, arch_age, sync): {sorted(base)}"
    n, arch, sync = next(iter(base))
    ages = " ".join(str(hdr[r][3]) for r in range(R))
    return f"partrace ; {R} {sync} {n} ; {ages} ; " + " ; ".join(call["events"]), None


def parse_final_ages(out):
    for tok in out.split():
        if tok.startswith("ages="):
            return [int(x) for x in tok[5:].split(",") if x != ""]
    return None


# ----------------------------------------------------------------------------- checks on a run

def nan_min(keys):
    vals = [float(k) for k in keys if k not in ("nan", "None")]
    if any(k == "None" for k in keys):
        return "None"
    return repr(min(vals)) if vals else "nan"


def check_run(cfg, res):
    """returns (violations, driver_jobs); violation = dict(key, desc); driver_job = (kind, line, meta)"""
    v = []
    jobs = []
    R = cfg.R

    def bad(key, desc):
        v.append({"key": key, "desc": desc})

    calls = extract_nb_traces(res.log, R) if cfg.nb else []
    for ci, call in enumerate(calls):
        line, err = trace_line(call, R)
        if line is None:
            if res.verdict == "ok":
                bad("trace-header", f"call {ci}: {err}")
            continue
        jobs.append(("partrace", line, {"call": ci, "end": call["end"], "complete": len(call["end"]) == R}))
    for ev in res.log:
        if ev[2] == "mig-order":
            jobs.append(("parpartner", "parpartner ; " + " ".join(str(i) for i in ev[3]), {"order": ev[3]}))

    if res.verdict == "error":
        errs = [(r, e) for r, e in enumerate(res.errors) if e is not None]
        f16 = False
        for r, e in errs:
            if e[0] == "TypeError" and "hall_of_fame" in e[2] and cfg.nb and r != 0:
                ends = [c["end"].get(r) for c in calls]
                hdrs = [c["hdr"].get(r) for c in calls]
                if ends and ends[-1] == 0 and hdrs[-1][3] == 0:
                    f16 = True
        if f16:
            bad("F16", f"rank(s) {[r for r, _ in errs]} raised TypeError in the hall-of-fame update at island age 0; "
                       f"others: {res.blocked}")
        else:
            for r, e in errs:
                bad("rank-exception", f"rank {r}: {e[0]}: {e[1]} :: {e[2][-600:]}")
        return v, jobs
    if res.verdict == "deadlock":
        bad("deadlock", f"blocked at {res.blocked} stacks={res.stacks}")
        return v, jobs
    if res.verdict != "ok":
        return v, jobs      # step-limit / wallclock: classified by the caller

    if any(res.leftover[r] for r in range(R)):
        bad("leftover-messages", f"mailboxes at the end: {[[(s, t) for s, t, _ in m] for m in res.leftover]}")
    recs = res.results
    if any(rr is None or len(rr) != len(cfg.calls) for rr in recs):
        bad("missing-result", "a rank did not return all call records")
        return v, jobs
    for j, n in enumerate(cfg.calls):
        row = [recs[r][j] for r in range(R)]
        for r in range(R):
            # AGE_UPDATE (2) / EXIT_NOTIFICATION (3) messages must all have been consumed.  A MIGRATION (4)
            # message may legitimately be waiting: a partner that is already in the NEXT call's sendrecv
            # (possible with loose collectives); it is checked by the next call and by the final leftover check
            stale = [m for m in row[r]["mailbox"] if m[1] != 4]
            if stale:
                bad("mailbox-not-empty", f"call {j}: rank {r} returned from evolve with waiting messages {stale}")
            if [m for m in row[r]["mailbox"] if m[1] == 4] and j == len(cfg.calls) - 1:
                bad("mailbox-not-empty", f"last call: rank {r} has a waiting MIGRATION message {row[r]['mailbox']}")
            # after the reporting collectives rank 0 may already be in the NEXT call (a bcast root does not wait
            # with loose collectives) and may even have sent that call's EXIT_NOTIFICATION, so only a stray
            # AGE_UPDATE is an error here (a helper cannot start the next call before rank 0's bcast)
            stale = [m for m in row[r]["mailbox_after_reports"] if m[1] == 2]
            if stale:
                bad("mailbox-not-empty", f"call {j}: rank {r} has waiting messages after the reports {stale}")
            if row[r]["arch_age1"] != row[r]["arch_age0"] + n:
                bad("arch-age", f"call {j}: rank {r} archipelago age {row[r]['arch_age0']} -> {row[r]['arch_age1']}, n={n}")
            if row[r]["pop1"] != row[r]["pop0"]:
                bad("island-size", f"call {j}: rank {r} population size {row[r]['pop0']} -> {row[r]['pop1']}")
        adv = [row[r]["island_age1"] - row[r]["island_age0"] for r in range(R)]
        if not cfg.nb:
            if any(a != n for a in adv):
                bad("blocking-age", f"call {j}: island age advances {adv}, expected exactly {n}")
        else:
            if sum(adv) < R * n:
                bad("F10" if j > 0 else "nb-mean-age-first-call",
                    f"call {j}: island age advances {adv} (sum {sum(adv)}) < R*n = {R * n}; ages before "
                    f"{[row[r]['island_age0'] for r in range(R)]}, archipelago age before {row[0]['arch_age0']}")
            tot = sum(row[r]["island_age1"] for r in range(R))
            if R * row[0]["arch_age1"] > tot:
                bad("nb-cumulative-age", f"call {j}: R*arch_age = {R * row[0]['arch_age1']} > sum of island ages {tot}")
        for field in ("best", "evals", "arch_age1", "hof", "sync_after"):
            vals = [row[r][field] for r in range(R)]
            if any(x != vals[0] for x in vals):
                bad("ranks-disagree-" + field, f"call {j}: {field} differs across ranks: {vals}")
        want = nan_min([row[r]["island_best"] for r in range(R)])
        if row[0]["best"] != want:
            bad("best-not-min", f"call {j}: reported best {row[0]['best']}, island bests {[row[r]['island_best'] for r in range(R)]}")
        if row[0]["evals"] != sum(row[r]["island_evals"] for r in range(R)):
            bad("eval-count", f"call {j}: reported {row[0]['evals']} != sum {[row[r]['island_evals'] for r in range(R)]}")

    # migration bookkeeping: k-th mig-before / mig-after / mig-partner of every rank belong to call k
    per = {k: [[] for _ in range(R)] for k in ("mig-before", "mig-after", "mig-partner")}
    for ev in res.log:
        if ev[2] in per:
            per[ev[2]][ev[1]].append(ev[3])
    for j in range(len(cfg.calls)):
        try:
            before = [per["mig-before"][r][j] for r in range(R)]
            after = [per["mig-after"][r][j] for r in range(R)]
            partners = [per["mig-partner"][r][j] for r in range(R)]
        except IndexError:
            bad("migration-log", f"call {j}: missing migration events")
            continue
        if sorted(x for b in before for x in b) != sorted(x for a in after for x in a if x is not None) or \
                any(x is None for a in after for x in a):
            bad("migration-multiset", f"call {j}: ids before {before} after {after}")
        if [len(b) for b in before] != [len(a) for a in after]:
            bad("migration-sizes", f"call {j}: sizes {[len(b) for b in before]} -> {[len(a) for a in after]}")
        for r in range(R):
            p = partners[r]
            if p >= 0 and (p == r or partners[p] != r):
                bad("migration-partner", f"call {j}: partners {partners} not symmetric")
            if p >= 0:
                kept = [x for x in after[r] if x in before[r]]
                got = [x for x in after[r] if x not in before[r]]
                if any(x not in before[p] for x in got) or len(kept) + len(got) != len(after[r]):
                    bad("migration-pairing", f"call {j}: rank {r} got individuals not from partner {p}")
            elif sorted(before[r]) != sorted(after[r]):
                bad("migration-pairing", f"call {j}: partnerless rank {r} changed population")
        if sum(1 for p in partners if p < 0) != R % 2:
            bad("migration-partner", f"call {j}: partners {partners}")
    return v, jobs


def judge_driver(jobs, outs, verdict):
    """violations from the driver's answers"""
    v = []
    for (kind, line, meta), out in zip(jobs, outs):
        if kind == "partrace":
            if out.startswith("ok "):
                ages = parse_final_ages(out)
                end = meta["end"]
                if ages != [end.get(r) for r in range(len(ages))]:
                    v.append({"key": "model-final-ages", "desc": f"call {meta['call']}: model ages {ages} vs real {end}"})
            elif out.startswith("incomplete") and verdict != "ok":
                pass          # run was cut (step limit / crash elsewhere): the prefix is a valid model run
            else:
                v.append({"key": "trace-rejected", "desc": f"call {meta['call']}: {out[:600]}"})
        elif kind == "parpartner":
            if "symmetric=1" not in out or "perm=1" not in out:
                v.append({"key": "model-partner", "desc": f"order {meta['order']}: {out}"})
    return v


# ----------------------------------------------------------------------------- grid

def auto_cost(R, sync):
    """smallest-ish generation cost c with c*sync >= 2R (> 2(R-1) - 2): rank 0 (2 steps per message)
    keeps up with R-1 helpers (one message per c*sync + 2 steps)"""
    return max(1, -(-2 * R // sync))


def grid(seed):
    g = [(R, sync, n, nb, k) for R in (2, 3, 4, 5) for sync in (1, 2, 10) for n in (1, 3, 10, 25)
         for nb in (True, False) for k in (1, 2, 3)]
    random.Random(seed).shuffle(g)
    return g


def make_policy(desc):
    kind = desc[0]
    if kind == "random":
        return MPI.RandomPolicy(desc[1])
    if kind == "weighted":
        return MPI.RandomPolicy(desc[1], weights=desc[2])
    if kind == "rr":
        return MPI.RoundRobinPolicy()
    if kind == "pct":
        return MPI.PriorityPolicy(desc[1], desc[2], desc[3])
    if kind == "explicit":
        return MPI.ExplicitPolicy(desc[1])
    raise ValueError(desc)


class Tally:
    def __init__(self, out_dir):
        self.out_dir = out_dir
        self.runs = 0
        self.verdicts = {}
        self.traces = 0
        self.traces_ok = 0
        self.traces_prefix = 0
        self.partner_checks = 0
        self.viol = {}            # key -> count
        self.first = {}           # key -> replay path
        self.steps = 0
        self.pending = []         # (cfg, policy_desc, res-lite, jobs, violations) waiting for the driver

    def add(self, cfg, policy_desc, res, label):
        self.runs += 1
        self.steps += res.steps
        self.verdicts[res.verdict] = self.verdicts.get(res.verdict, 0) + 1
        v, jobs = check_run(cfg, res)
        self.pending.append((cfg, policy_desc, res.schedule, res.verdict, jobs, v, label))
        if len(self.pending) >= 50:
            self.flush()

    def flush(self):
        lines = [j[1] for p in self.pending for j in p[4]]
        outs = run_driver(lines)
        k = 0
        for cfg, pdesc, schedule, verdict, jobs, v, label in self.pending:
            o = outs[k:k + len(jobs)]
            k += len(jobs)
            for (kind, _, _), out in zip(jobs, o):
                if kind == "partrace":
                    self.traces += 1
                    if out.startswith("ok "):
                        self.traces_ok += 1
                    elif out.startswith("incomplete") and verdict != "ok":
                        self.traces_prefix += 1
                else:
                    self.partner_checks += 1
            v = v + judge_driver(jobs, o, verdict)
            for viol in v:
                self.report(cfg, pdesc, schedule, verdict, viol, label)
        self.pending = []

    def report(self, cfg, pdesc, schedule, verdict, viol, label):
        key = viol["key"]
        self.viol[key] = self.viol.get(key, 0) + 1
        if self.viol[key] > 2:
            return
        os.makedirs(self.out_dir, exist_ok=True)
        path = os.path.join(self.out_dir, f"replay_{key}_{self.viol[key]}.json")
        with open(path, "w") as f:
            json.dump({"cfg": cfg.to_dict(), "policy": pdesc, "schedule": schedule, "verdict": verdict,
                       "violation": viol, "label": label}, f)
        known = " (KNOWN finding)" if key in KNOWN else ""
        sched = schedule if len(schedule) <= 60 else schedule[:60] + ["..."]
        print(f"VIOLATION{known} key={key} [{label}] cfg=({cfg}) verdict={verdict}\n   {viol['desc'][:700]}\n"
              f"   replay={path} schedule({len(schedule)} steps)={sched}", flush=True)


# ----------------------------------------------------------------------------- exhaustive (stateless DFS)

BRANCH_KINDS = ("iprobe", "isend")
AGE_TAG, EXIT_TAG = 2, 3


class DFSPolicy:
    """follows `prefix`, afterwards takes the first candidate; records the candidate list of every step.

    Candidates among the enabled ranks:
    1. partial-order reduction: if some enabled rank's pending operation is independent of everything other
       ranks can do (anything but iprobe/isend: recv of an already present message, yield, the halves of
       collectives / sendrecv), only the lowest such rank runs, without branching;
    2. the property's speed assumption ("helpers do not produce age updates faster than rank 0 can receive
       them") as a gate: while rank 0 is in its main loop (pending AGE_UPDATE iprobe/recv or evolving),
       helper h may send its next age update only after rank 0 has made at least R AGE_UPDATE probes since
       h's previous one (R-1 receptions + the empty probe that ends `_gather_updated_ages`).  The gate
       depends only on the relative order of h's isend and rank 0's probes, i.e. on dependent operations;
    3. starvation bound: a candidate passed over `fair` times in a row at branch points is forced."""

    def __init__(self, prefix, fair, R, por=True, gate=True):
        self.prefix, self.fair, self.R, self.por, self.gate = list(prefix), fair, R, por, gate
        self.reset()

    def reset(self):
        self.cands = []
        self.passed = {}
        self.probes_since = {}

    def _rank0_in_loop(self, sched, enabled):
        if 0 not in enabled:
            return False
        kind, _, _, args = sched.pending[0]
        if kind == "yield":
            return True
        return kind in ("iprobe", "recv") and args[1] == AGE_TAG

    def choose(self, step, enabled, sched):
        pend = {q: sched.pending[q] for q in enabled}
        safe = [q for q in enabled if pend[q][0] not in BRANCH_KINDS] if self.por else []
        if safe:
            cands = [safe[0]]
        else:
            cands = list(enabled)
            if self.gate and self._rank0_in_loop(sched, enabled):
                cands = [q for q in cands if not (q != 0 and pend[q][0] == "isend" and pend[q][3] == (0, AGE_TAG)
                                                  and self.probes_since.get(q, self.R) < self.R)]
            starving = [q for q in cands if self.passed.get(q, 0) >= self.fair]
            if starving:
                cands = [max(starving, key=lambda q: (self.passed.get(q, 0), -q))]
        pick = self.prefix[step] if step < len(self.prefix) else cands[0]
        if pick not in cands:
            raise RuntimeError(f"DFS prefix diverged at step {step}: {pick} not in {cands}")
        if not safe:
            for q in enabled:
                self.passed[q] = 0 if q == pick else self.passed.get(q, 0) + 1
        kind, _, _, args = pend[pick]
        if pick == 0 and kind == "iprobe" and args[1] == AGE_TAG:
            for q in range(1, self.R):
                self.probes_since[q] = self.probes_since.get(q, self.R) + 1
        if pick != 0 and kind == "isend" and args == (0, AGE_TAG):
            self.probes_since[pick] = 0
        self.cands.append(cands)
        return pick


def exhaustive(cfg, tally, budget, fair, label):
    stack = [[]]
    runs = 0
    cut = 0
    while stack and runs < budget:
        prefix = stack.pop()
        pol = DFSPolicy(prefix, fair, cfg.R)
        res = run_scenario(cfg, pol)
        runs += 1
        if res.verdict == "step-limit":
            cut += 1
        tally.add(cfg, ("explicit", list(res.schedule)), res, label)
        for i in range(len(res.schedule) - 1, len(prefix) - 1, -1):
            for alt in pol.cands[i]:
                if alt != res.schedule[i]:
                    stack.append(res.schedule[:i] + [alt])
    return runs, not stack, cut


# ----------------------------------------------------------------------------- directed scenarios

def starve_schedule(cfg, victim, until_kind):
    """explicit schedule: run everybody but `victim` whenever possible (the victim moves only if it is
    the only enabled rank) -- built by running a priority policy"""
    class Starve:
        def reset(self):
            pass

        def choose(self, step, enabled, sched):
            others = [q for q in enabled if q != victim]
            return others[0] if others else victim
    return Starve()


def directed(tally, out):
    results = {}
    # F16: fresh archipelago with hall of fame, helper 1 starved => sees EXIT at its first probe
    cfg = Cfg(R=2, sync=1, calls=[1], nb=True, cost=1, hof=True, pre_evaluate=False, rng_seed=5, max_steps=20000)
    res = run_scenario(cfg, starve_schedule(cfg, 1, None))
    tally.add(cfg, ("explicit", list(res.schedule)), res, "directed-F16")
    if res.verdict in ("step-limit", "wallclock", "stub-stall"):
        # the starved helper finds its exit notification at its first probe: the call must still return on every rank
        tally.report(cfg, ("explicit", list(res.schedule)), res.schedule, res.verdict,
                     {"key": "no-return-under-fair-schedule",
                      "desc": f"helper starved until the exit notification was sent: verdict {res.verdict} after {res.steps} steps; blocked: {res.blocked}"},
                     "directed-F16")
    results["F16"] = (res.verdict, [e[0] if e else None for e in res.errors])
    # F10: two non-blocking calls, rank 0 slow in the first one => helpers overshoot
    cfg = Cfg(R=3, sync=1, calls=[3, 3], nb=True, cost=6, hof=True, pre_evaluate=True, rng_seed=6)
    res = run_scenario(cfg, MPI.RandomPolicy(11))
    tally.add(cfg, ("explicit", list(res.schedule)), res, "directed-F10")
    if res.verdict in ("step-limit", "wallclock", "stub-stall"):
        tally.report(cfg, ("explicit", list(res.schedule)), res.schedule, res.verdict,
                     {"key": "no-return-under-fair-schedule", "desc": f"verdict {res.verdict} after {res.steps} steps; blocked: {res.blocked}"}, "directed-F10")
    results["F10"] = (res.verdict, [[(c["island_age0"], c["island_age1"]) for c in rr] for rr in res.results]
                      if res.verdict == "ok" else None)
    # speed assumption violated: generation cost 0, three ranks, round-robin => rank 0 never stops draining
    cfg = Cfg(R=3, sync=1, calls=[1], nb=True, cost=0, hof=False, rng_seed=7, max_steps=6000)
    res = run_scenario(cfg, MPI.RoundRobinPolicy())
    last0 = [ev for ev in res.log if ev[1] == 0][-4:]
    results["cost0-R3-roundrobin"] = (res.verdict, res.steps, last0)
    tally.runs += 1
    tally.verdicts["expected-livelock:" + res.verdict] = tally.verdicts.get("expected-livelock:" + res.verdict, 0) + 1
    v, jobs = check_run(cfg, res)
    outs = run_driver([j[1] for j in jobs])
    results["cost0-R3-roundrobin-trace"] = [o[:40] for o in outs]
    # boundary of the assumption 2(R-1) < c*sync + 2 under strict alternation: R=2, c=0 is exactly at
    # equality (one message produced per 2 steps, one consumed per 2 steps) and never terminates; c=1 does
    cfg = Cfg(R=2, sync=1, calls=[2], nb=True, cost=0, hof=False, rng_seed=7, max_steps=6000)
    res = run_scenario(cfg, MPI.RoundRobinPolicy())
    results["cost0-R2-roundrobin"] = (res.verdict, res.steps)
    tally.runs += 1
    tally.verdicts["expected-livelock:" + res.verdict] = tally.verdicts.get("expected-livelock:" + res.verdict, 0) + 1
    cfg = Cfg(R=2, sync=1, calls=[2], nb=True, cost=1, hof=False, rng_seed=7, max_steps=6000)
    res = run_scenario(cfg, MPI.RoundRobinPolicy())
    tally.add(cfg, ("explicit", list(res.schedule)), res, "directed-cost1-R2")
    results["cost1-R2-roundrobin"] = (res.verdict, res.steps)
    # the same cost-0 configuration terminates under a random schedule with 2 ranks
    cfg = Cfg(R=2, sync=1, calls=[2], nb=True, cost=0, hof=False, rng_seed=7, max_steps=6000)
    res = run_scenario(cfg, MPI.RandomPolicy(3))
    tally.add(cfg, ("explicit", list(res.schedule)), res, "directed-cost0-R2-random")
    results["cost0-R2-random"] = (res.verdict, res.steps)
    return results


# ----------------------------------------------------------------------------- main

def replay(path):
    with open(path) as f:
        rp = json.load(f)
    cfg = Cfg.from_dict(rp["cfg"])
    res = run_scenario(cfg, MPI.ExplicitPolicy(rp["schedule"]))
    print("replayed:", res.verdict, "steps", res.steps, "same schedule:", res.schedule == rp["schedule"])
    v, jobs = check_run(cfg, res)
    outs = run_driver([j[1] for j in jobs])
    v += judge_driver(jobs, outs, res.verdict)
    for x in v:
        print("  VIOLATION", x["key"], x["desc"][:800])
    for (kind, _, meta), o in zip(jobs, outs):
        if kind == "partrace":
            print("  trace call", meta["call"], "->", o[:200])
    if res.verdict != "ok":
        print("  blocked:", res.blocked)
        for e in res.errors:
            if e:
                print(e[2])
    return 0


def main(argv):
    warnings.filterwarnings("ignore")
    if argv and argv[0] == "--replay":
        return replay(argv[1])
    n_sched, seed = int(argv[0]), int(argv[1])
    opts = argv[2:]

    def opt(name, default):
        return type(default)(opts[opts.index(name) + 1]) if name in opts else default
    budget = opt("--budget", 1500)
    fair = opt("--fair", 4)
    out = opt("--out", os.path.join(ROOT, "out"))
    t0 = time.time()
    tally = Tally(out)
    rng = random.Random(seed * 7919 + 13)
    g = grid(seed)
    kinds = {}
    unfair_cut = 0
    determinism_checks = 0
    stuck = 0
    for i in range(n_sched):
        R, sync, n, nb, k = g[i % len(g)]
        # second and third calls use different n to exercise the sync_frequency adjustment
        ns = [n] + [rng.choice((1, 3, 10, 25)) if rng.random() < 0.3 else n for _ in range(k - 1)]
        pk = rng.random()
        s = rng.randrange(1 << 30)
        if pk < 0.62:
            pdesc = ("random", s)
        elif pk < 0.72:
            pdesc = ("rr",)
        elif pk < 0.82:   # adversarial, unfair: only deadlock-freedom and trace conformance are meaningful
            pdesc = ("pct", s, rng.choice((1, 2, 4)), rng.choice((60, 300, 1500)))
        else:   # helpers up to 1.5x faster or slower than rank 0, within the speed assumption's margin
            pdesc = ("weighted", s, [1.0] + [rng.choice((0.7, 1.0, 1.5)) for _ in range(R - 1)])
        cost = auto_cost(R, sync if min(ns) >= sync else 1) * (2 if pdesc[0] == "weighted" else 1)
        cfg = Cfg(R=R, sync=sync, calls=ns, nb=nb, cost=cost, pop=rng.choice((4, 6, 7)),
                  hof=rng.random() < 0.8, suppress=rng.random() < 0.6, pre_evaluate=rng.random() < 0.5,
                  rng_seed=rng.randrange(1 << 20), sync_collectives=rng.random() < 0.7,
                  max_steps=8000 if pdesc[0] == "pct" else 400000, wall_limit=45.0)
        res = run_scenario(cfg, make_policy(pdesc))
        kinds[pdesc[0]] = kinds.get(pdesc[0], 0) + 1
        tally.add(cfg, pdesc, res, "random")
        if pdesc[0] == "pct" and res.verdict == "step-limit":
            unfair_cut += 1
            continue
        if i % 10 == 0:      # determinism: same policy again, and the recorded schedule through ExplicitPolicy
            again = run_scenario(cfg, make_policy(pdesc))
            rep = run_scenario(cfg, MPI.ExplicitPolicy(res.schedule))
            determinism_checks += 1
            if again.log != res.log or rep.log != res.log or repr(again.results) != repr(res.results):
                tally.report(cfg, pdesc, res.schedule, res.verdict,
                             {"key": "stub-nondeterminism", "desc": "same policy/seed or explicit replay gave a different log"}, "random")
        if res.verdict not in ("ok", "error"):
            print(f"NOTE verdict={res.verdict} cfg=({cfg}) policy={pdesc[:2]} steps={res.steps} blocked={res.blocked}", flush=True)
        if res.verdict in ("step-limit", "wallclock", "stub-stall"):
            # a fair schedule within the speed assumption under which the call did not return on every rank (e.g. some ranks
            # blocked in the migration exchange while another spins in the next call): the property's termination clause
            stuck += 1
            tally.report(cfg, pdesc, res.schedule, res.verdict,
                         {"key": "no-return-under-fair-schedule",
                          "desc": f"verdict {res.verdict} after {res.steps} scheduler steps; blocked ranks: {res.blocked}"}, "random")
            if stuck >= 3:
                print(f"NOTE stopping the random part after {stuck} runs that did not return", flush=True)
                break
    tally.flush()
    print(f"random part: runs={tally.runs} policies={kinds} verdicts={tally.verdicts} steps={tally.steps} "
          f"traces={tally.traces} validated={tally.traces_ok} prefix-validated={tally.traces_prefix} "
          f"partner-checks={tally.partner_checks} unfair-pct-runs-cut-at-step-limit={unfair_cut} "
          f"determinism-checks={determinism_checks} time={time.time() - t0:.1f}s", flush=True)

    # the model on its own: bounded exhaustive exploration + exchange interleavings (sanity of the model)
    mlines = ["parexplore ; 2 1 1 60", "parexplore ; 2 1 3 40", "parexplore ; 3 1 1 26", "parexplore ; 3 2 2 24 ; 4 0 7",
              "parexplore ; 4 1 1 18", "parexchange ; 0 1 ; 6 6", "parexchange ; 2 0 3 1 4 ; 6 6 6 6 6",
              "parexchange ; 3 1 0 2 ; 7 7 7 7", "parexchange ; 1 0 2 ; 3 6 5"]
    for ln, o in zip(mlines, run_driver(mlines)):
        print(f"model: {ln} -> {o}", flush=True)

    if "--no-exhaustive" not in opts:
        tiny = [
            Cfg(R=2, sync=1, calls=[1], nb=True, cost=1, hof=False, suppress=True, rng_seed=1, max_steps=400),
            Cfg(R=2, sync=1, calls=[2], nb=True, cost=1, hof=True, suppress=True, rng_seed=2, max_steps=500),
            Cfg(R=2, sync=2, calls=[2], nb=True, cost=1, hof=False, suppress=True, rng_seed=3, max_steps=500),
            Cfg(R=2, sync=1, calls=[1, 1], nb=True, cost=1, hof=False, suppress=True, rng_seed=4, max_steps=600),
            Cfg(R=3, sync=1, calls=[1], nb=True, cost=2, hof=False, suppress=True, rng_seed=5, max_steps=600),
            Cfg(R=2, sync=1, calls=[2], nb=False, cost=1, hof=True, suppress=False, rng_seed=6, max_steps=600),
            # fresh archipelago with a hall of fame: the enumeration reaches the F16 schedules by itself
            Cfg(R=2, sync=1, calls=[1], nb=True, cost=1, hof=True, suppress=True, pre_evaluate=False, rng_seed=8,
                max_steps=400),
        ]
        for cfg in tiny:
            before = dict(tally.verdicts)
            t1 = time.time()
            runs, complete, cut = exhaustive(cfg, tally, budget, fair, "exhaustive")
            tally.flush()
            delta = {k: tally.verdicts.get(k, 0) - before.get(k, 0) for k in tally.verdicts
                     if tally.verdicts.get(k, 0) != before.get(k, 0)}
            print(f"exhaustive (fair={fair}) cfg=({cfg}): schedules={runs} "
                  f"{'ALL explored' if complete else 'budget exhausted'} verdicts={delta} time={time.time() - t1:.1f}s",
                  flush=True)

    if "--no-directed" not in opts:
        d = directed(tally, out)
        tally.flush()
        for k, val in d.items():
            print(f"directed {k}: {val}", flush=True)

    new = {k: c for k, c in tally.viol.items() if k not in KNOWN}
    known = {k: c for k, c in tally.viol.items() if k in KNOWN}
    print(f"SUMMARY runs={tally.runs} steps={tally.steps} verdicts={tally.verdicts} traces={tally.traces} "
          f"validated={tally.traces_ok} prefix-validated={tally.traces_prefix} "
          f"rejected={tally.traces - tally.traces_ok - tally.traces_prefix} partner-checks={tally.partner_checks} "
          f"known-findings={known} NEW-violations={new} time={time.time() - t0:.1f}s")
    if os.environ.get("C12_JSON"):
        details = {}
        for key, path in [(k, os.path.join(out, f"replay_{k}_1.json")) for k in tally.viol]:
            try:
                with open(path) as f:
                    details[key] = json.load(f)
            except Exception:
                details[key] = None
        with open(os.environ["C12_JSON"], "w") as f:
            json.dump({"runs": tally.runs, "steps": tally.steps, "verdicts": tally.verdicts, "traces": tally.traces,
                       "validated": tally.traces_ok, "prefix_validated": tally.traces_prefix,
                       "rejected": tally.traces - tally.traces_ok - tally.traces_prefix, "partner_checks": tally.partner_checks,
                       "violations": tally.viol, "known_keys": list(KNOWN), "details": details}, f, default=str)
    return 1 if new else 0


if __name__ == "__main__":
    sys.exit(main(sys.argv[1:]))
