"""Correspondence of `Model/VariationPhase.lean` with `VarAnd`, `VarOr`, `AddRandomIndividuals`, `SinglePointCrossover`
and `SinglePointMutation` (C05: the offspring handed to evaluation never carry a stale fitness).

The real operators run on multiple-value chromosomes with every random draw SCRIPTED (the `np.random` functions they use are
replaced by a queue of typed draws; a call that does not match the next scripted draw is reported), the model runs on the same
population and the same draws, and the two offspring lists are compared attribute by attribute (values, stored fitness,
fit_set, genetic age).  Oracles on the real code alone: every offspring marked evaluated carries f(values); the parents are
left exactly as they were; the number of offspring is the one the model theorems state.
"""
import math

import numpy as np

from bingo.chromosomes.multiple_values import MultipleValueChromosome, SinglePointCrossover, SinglePointMutation
from bingo.variation.add_random_individuals import AddRandomIndividuals
from bingo.variation.var_and import VarAnd
from bingo.variation.var_or import VarOr

from harness.common import run_driver


class ProtocolError(Exception):
    pass


class Script:
    """typed queue of draws standing in for np.random.random / rand / randint"""

    def __init__(self, draws):
        self.draws = list(draws)
        self.pos = 0
        self.trouble = None

    def _next(self, kind, arg=None):
        if self.pos >= len(self.draws):
            self.trouble = f"the code asked for a {kind} draw after the {len(self.draws)} scripted draws were used"
            raise ProtocolError(self.trouble)
        k, v = self.draws[self.pos]
        if k != kind:
            self.trouble = f"draw {self.pos}: the code asked for {kind}, the script (the model's order of draws) has {k}"
            raise ProtocolError(self.trouble)
        self.pos += 1
        if kind == "randint":
            if arg is None or arg <= 0:
                raise ValueError("low >= high")
            return v % arg
        return v

    def __enter__(self):
        self.saved = (np.random.random, np.random.rand, np.random.randint)
        me = self

        def w_random(*a, **k):
            return me._next("random")

        def w_rand(*a, **k):
            return me._next("rand")

        def w_randint(low, high=None, *a, **k):
            if high is not None:
                return low + me._next("randint", high - low)
            return me._next("randint", low)
        np.random.random, np.random.rand, np.random.randint = w_random, w_rand, w_randint
        return self

    def __exit__(self, *a):
        np.random.random, np.random.rand, np.random.randint = self.saved
        return False


def fit_of(values):
    return sum((i + 1) * v for i, v in enumerate(values)) % 97


def make_pop(rng, size, length):
    pop = []
    for _ in range(size):
        vals = [rng.randrange(16) for _ in range(length)]
        c = MultipleValueChromosome(list(vals))
        c.genetic_age = rng.randrange(6)
        state = rng.choice(["evaluated", "evaluated", "fresh", "stale-unflagged"])
        if state == "evaluated":
            c.fitness = fit_of(vals)                     # sets fit_set
        elif state == "stale-unflagged":
            c.fitness = rng.randrange(97)
            c.fit_set = False
        pop.append(c)
    return pop


def show(c):
    f = c._fitness
    fs = "-" if f is None else ("nan" if isinstance(f, float) and math.isnan(f) else str(int(f)))
    return f"{'.'.join(str(int(v)) for v in c.values)}:{fs}:{1 if c._fit_set else 0}:{int(c.genetic_age)}"


def bool_draw(rng, p, truth):
    """a value of np.random.random() with `value <= p` == truth, boundary values included"""
    if truth:
        return rng.choice([p, p * 0.5, 0.0])
    return rng.choice([float(np.nextafter(p, 2.0)), (1.0 + p) / 2])


def gen_case(rng):
    kind = rng.choice(["and", "or"])
    length = rng.randrange(1, 6)
    size = rng.randrange(1, 6)
    n = rng.choice([0, 1, 2, 3, 4, 5, 6, 7, 9])
    pop = make_pop(rng, size, length)
    script = []
    if kind == "and":
        pc, pm = rng.choice([0.5, 0.3, 0.9]), rng.choice([0.5, 0.2, 0.8])
        cx, mu = [], []
        for _ in range(0, n - 1, 2):
            b = rng.random() < 0.6
            r = rng.randrange(length) if b else 0
            cx.append((b, r))
            script.append(("random", bool_draw(rng, pc, b)))
            if b:
                script.append(("randint", r))
        for _ in range(n):
            b = rng.random() < 0.5
            point, val = (rng.randrange(length), rng.randrange(16)) if b else (0, 0)
            mu.append((b, point + length * val))
            script.append(("random", bool_draw(rng, pm, b)))
            if b:
                script.append(("randint", point))
        d1 = " ".join(f"{int(b)},{r}" for b, r in cx)
        d2 = " ".join(f"{int(b)},{r}" for b, r in mu)
        values = [r // length for b, r in mu if b]
        probs = (pc, pm)
    else:
        pm, pc = rng.choice([(0.4, 0.4), (0.3, 0.5), (0.5, 0.5), (0.2, 0.2)])
        ds, values = [], []
        for _ in range(n):
            ch = rng.choice("mcr")
            p1, p2 = rng.randrange(size), rng.randrange(size)
            if ch == "m":
                point, val = rng.randrange(length), rng.randrange(16)
                op = point + length * val
                script += [("rand", rng.choice([pm, pm / 2, 0.0])), ("randint", p1), ("randint", point)]
                values.append(val)
                p2 = 0
            elif ch == "c":
                if pc == 0:
                    continue
                op = rng.randrange(length)
                script += [("rand", rng.choice([pm + pc, pm + pc / 2, float(np.nextafter(pm, 2.0))])), ("randint", p1), ("randint", p2),
                           ("randint", op)]
            else:
                if pm + pc >= 1:
                    ch, op = "c", rng.randrange(length)
                    script += [("rand", pm + pc), ("randint", p1), ("randint", p2), ("randint", op)]
                else:
                    op, p2 = 0, 0
                    script += [("rand", rng.choice([float(np.nextafter(pm + pc, 2.0)), (1 + pm + pc) / 2])), ("randint", p1)]
            ds.append((ch, p1, p2, op))
        n = len(ds)
        d1 = " ".join(f"{c},{a},{b},{o}" for c, a, b, o in ds)
        d2 = ""
        probs = (pc, pm)
    num_rand = rng.choice(["-", "-", 0, 1, 3])
    gens = [[rng.randrange(16) for _ in range(length)] for _ in range(0 if num_rand == "-" else num_rand)]
    return {"kind": kind, "length": length, "n": n, "pop": pop, "script": script, "d1": d1, "d2": d2, "values": values, "probs": probs,
            "num_rand": num_rand, "gens": gens}


def run_real(case):
    """the offspring of the real operators under the scripted draws; returns (offspring, script)"""
    vals = iter(case["values"])

    def value_fn():
        return next(vals)
    cx, mut = SinglePointCrossover(), SinglePointMutation(value_fn)
    pc, pm = case["probs"]
    var = VarAnd(cx, mut, pc, pm) if case["kind"] == "and" else VarOr(cx, mut, pc, pm)
    if case["num_rand"] != "-":
        gens = iter(case["gens"])
        var = AddRandomIndividuals(var, lambda: MultipleValueChromosome(list(next(gens))), case["num_rand"])
    sc = Script(case["script"])
    with sc:
        off = var(case["pop"], case["n"])
    return off, sc


def line_of(case, before):
    gens = " ".join(".".join(map(str, g)) for g in case["gens"])
    return (f"varphase ; {case['kind']} ; {case['length']} ; {case['n']} ; {' '.join(before)} ; {case['d1']} ; {case['d2']} ; "
            f"{case['num_rand']} ; {gens}")


def variation_correspondence(ctx, rep):
    rng = ctx.rng
    lines, reals, cases = [], [], []
    for t in range(ctx.n(300, 4000)):
        case = gen_case(rng)
        before = [show(c) for c in case["pop"]]
        desc = {"kind": case["kind"], "number_offspring": case["n"], "population": before, "draws": [list(d) for d in case["script"]],
                "probabilities (crossover, mutation)": list(case["probs"]), "num_rand_indvs": case["num_rand"], "generated": case["gens"],
                "mutation_values": case["values"]}
        rep.case(("varphase", case["kind"], case["n"], tuple(before), case["d1"], case["d2"], str(case["num_rand"])), True)
        rep.count("variation", f"{case['kind']}{'' if case['num_rand'] == '-' else '+addRandom'}")
        rep.count("variation_offspring", str(case["n"]))
        try:
            off, sc = run_real(case)
        except ProtocolError as exc:
            rep.disagree(f"variation ({case['kind']}): {exc}", desc)
            continue
        except Exception as exc:
            rep.disagree(f"variation ({case['kind']}) raised {type(exc).__name__}: {exc} on a non-empty population", desc)
            continue
        if sc.pos != len(sc.draws):
            rep.disagree(f"variation ({case['kind']}): the code used {sc.pos} of the {len(sc.draws)} draws of the model's order of draws", desc)
            continue
        after = [show(c) for c in case["pop"]]
        got = [show(c) for c in off]
        desc["offspring"] = got
        if after != before:
            rep.violate(f"variation ({case['kind']}) changed its parents: {before} -> {after}", "C05:variation-parents-changed", desc)
        stale = [g for c, g in zip(off, got) if c._fit_set and (c._fitness is None or c._fitness != fit_of(c.values))]
        if stale:
            rep.violate(f"variation ({case['kind']}): offspring {stale} are marked evaluated but do not carry the fitness of their values "
                        f"(parents {before})", "C05:stale-fitness", desc)
        if any(a is b for a in off for b in case["pop"]) or len({id(c) for c in off}) != len(off):
            rep.violate(f"variation ({case['kind']}): an offspring is the same object as a parent or as another offspring",
                        "C05:variation-aliasing", desc)
        want_n = case["n"] + (0 if case["num_rand"] == "-" else case["num_rand"])
        if len(off) != want_n:
            rep.disagree(f"variation ({case['kind']}): {len(off)} offspring, the model theorems state {want_n}", desc)
        lines.append(line_of(case, before))
        reals.append(got)
        cases.append(desc)
    if ctx.driver_ok and lines:
        outs = run_driver(lines)
        rep.corr_cases = getattr(rep, "corr_cases", 0) + len(lines)
        for out, got, desc, line in zip(outs, reals, cases, lines):
            want = out[3:].split() if out.startswith("ok") else None
            if want != got:
                rep.disagree(f"variation: model offspring {want} differ from the real offspring {got}", {**desc, "driver_line": line})
