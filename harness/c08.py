"""C08 -- selection returns only members of its input and obeys its dominance rule.

K: the real AgeFitness (pair mode and selection_size > 2), Tournament and DeterministicCrowding under logged
random choices (`_get_unique_rand_indices` results, `np.random.choice` samples) against the Lean models: final
list order, kept count, removal log, winners.
Oracle (independent, identity based): results are members / copies of members, promised counts; for
age-fitness every removal is replayed (through a wrapper around `_swap_removals_to_end`) and must be NaN or
dominated by an individual that is still alive and not marked at the end of that round; tournament winners are
minimal in their tournament; deterministic crowding keeps the parent unless the paired child is strictly
better or non-NaN versus NaN.  Probabilistic operators: membership and count only (log-scale mode).
"""
import math
import warnings

import numpy as np

from bingo.chromosomes.multiple_values import MultipleValueChromosome
from bingo.selection.age_fitness import AgeFitness
from bingo.selection.deterministic_crowding import DeterministicCrowding
from bingo.selection.probabilistic_crowding import ProbabilisticCrowding
from bingo.selection.probabilistic_tournament import ProbabilisticTournament
from bingo.selection.tournament import Tournament

from harness.common import harness_main, run_driver
from harness.keys import key_to_float, random_key, kstr


EMBEDDINGS = {
    # order-preserving, exact images of the integer keys: the selection rules compare with < only, so nothing may depend on
    # HOW FAR apart two fitness values are (a tolerance would show here)
    "halves": None,
    "large, close": lambda k: 1e6 + 0.5 * k,
    "tiny": lambda k: k * 1e-9,
    "adjacent doubles": lambda k: 1.0 + k * 2.0 ** -52,
}


def mkpop(rng, n, nan_prob=0.15, dup_prob=0.1, embedding=None):
    """`embedding`: name in EMBEDDINGS; None = drawn per population (populations that meet in one history - successive
    hall-of-fame updates - must share one)"""
    pop = []
    emb = EMBEDDINGS[embedding or rng.choice(["halves", "halves", "large, close", "tiny", "adjacent doubles"])]
    for i in range(n):
        k = random_key(rng, nan_prob=nan_prob)
        c = MultipleValueChromosome([i, rng.randrange(0, 3), rng.randrange(0, 3)])
        c.fitness = key_to_float(k, rng) if (emb is None or k == "nan" or abs(k) >= 10 ** 6) else emb(k)
        c.genetic_age = rng.randrange(0, 4)
        c.key = k
        pop.append(c)
    return pop


def pop_str(pop):
    return " ".join(f"{kstr(c.key)}:{c.genetic_age}:{c.values[0]}" for c in pop)


def nan(k):
    return k == "nan"


def dominates_or_equal(y, x):
    """y is no older and no worse than x (both non-NaN keys)"""
    return y.genetic_age <= x.genetic_age and y.key <= x.key


def agefit_case(ctx, rep, rng, lines, meta):
    n = rng.randrange(1, 31) if rng.random() < 0.8 else rng.randrange(1, 6)
    sel = rng.choice([2, 2, 3, 3, 4, 5, 8])
    target = rng.randrange(1, n + 1)
    pop = mkpop(rng, n, nan_prob=rng.choice([0.0, 0.15, 0.6]))
    if rng.random() < 0.1 and n >= 2:
        pop[1] = pop[0]           # the same object twice
    orig = list(pop)
    af = AgeFitness(selection_size=sel)
    draws = []
    removals = []
    o_get = af._get_unique_rand_indices
    o_swap = af._swap_removals_to_end

    def w_get(max_int):
        inds = [int(v) for v in o_get(max_int)]
        draws.append(inds)
        return inds

    def w_swap(population, to_remove, n_removed):
        removals.append((list(population), [int(v) for v in to_remove], n_removed, list(draws[-1])))
        return o_swap(population, to_remove, n_removed)
    af._get_unique_rand_indices = w_get
    af._swap_removals_to_end = w_swap
    np.random.seed(rng.randrange(2 ** 31))
    before_s = pop_str(pop)
    work = list(pop)
    try:
        out = af(work, target)
    except Exception as exc:
        rep.violate(f"AgeFitness raised {type(exc).__name__}: {exc}", "C08:agefit-raised", {"pop": before_s, "sel": sel, "target": target})
        return
    case = {"pop": before_s, "selection_size": sel, "target": target, "draws": draws}
    rep.case(("agefit", before_s, sel, target, str(draws)), n > target)
    rep.count("agefit_sel", sel)
    rep.sample({**case, "kept": len(out)})
    # ---------- oracle
    if not (target <= len(out) <= n):
        rep.violate(f"age-fitness returned {len(out)} individuals for target {target} of {n}", "C08:agefit-count", case)
    ids_in = sorted(id(c) for c in orig)
    if sorted(id(c) for c in work) != ids_in:
        rep.violate("age-fitness altered the population list other than by permuting it", "C08:agefit-not-permutation", case)
    if any(all(o is not c for c in orig) for o in out):
        rep.violate("age-fitness returned an individual that is not a member of its input", "C08:agefit-member", case)
    for (before, rem, n_removed, inds) in removals:
        live = len(before) - n_removed
        remset = set(rem)
        for x in rem:
            px = before[x]
            if nan(px.key):
                continue
            ok = any((not nan(before[y].key)) and dominates_or_equal(before[y], px) for y in range(live) if y not in remset)
            if not ok:
                rep.violate(f"age-fitness removed (key {px.key}, age {px.genetic_age}) although no surviving individual is no older and no worse",
                            "C08:agefit-unjustified-removal", {**case, "round_inds": inds, "removed": rem})
                break
    # who was ACTUALLY discarded (the tail of the permuted list) must be exactly who was decided for removal
    decided = sorted(id(before[x]) for (before, rem, _, _) in removals for x in rem)
    discarded = sorted(id(c) for c in work[len(out):])
    if len(out) <= len(work) and decided != discarded:
        rep.violate("age-fitness discarded an individual that was not selected for removal (and kept one that was)",
                    "C08:agefit-wrong-individual-discarded", case)
    if ctx.driver_ok:
        lines.append(f"agefit ; {sel} ; {target} ; {before_s} ; " + " ; ".join(" ".join(map(str, d)) for d in draws))
        log = [[before[i].values[0] for i in rem] for (before, rem, _, _) in removals]
        meta.append(("agefit", case, (len(out), len(draws), [c.values[0] for c in work], log)))


def tourn_case(ctx, rep, rng, lines, meta):
    n = rng.randrange(1, 20)
    size = rng.randrange(1, n + 1)
    target = rng.randrange(0, 8)
    pop = mkpop(rng, n, nan_prob=rng.choice([0.0, 0.2, 0.7]))
    samples = []
    o_choice = np.random.choice

    protocol = {"ok": True}

    def w_choice(a, size=None, replace=True, p=None):
        res = o_choice(a, size, replace, p)
        try:
            samples.append([next(i for i, c in enumerate(pop) if c is m) for m in res])
        except (StopIteration, TypeError):
            protocol["ok"] = False          # the operator no longer samples the population itself: draw logging is void
        return res
    np.random.seed(rng.randrange(2 ** 31))
    np.random.choice = w_choice
    try:
        out = Tournament(size)(pop, target)
    finally:
        np.random.choice = o_choice
    case = {"pop": pop_str(pop), "tournament_size": size, "target": target, "samples": samples}
    rep.case(("tourn", case["pop"], size, str(samples)), target > 0 and size > 1)
    rep.count("tournament_size", min(size, 6))
    if len(out) != target:
        rep.violate(f"tournament returned {len(out)} winners for target {target}", "C08:tournament-count", case)
    if not protocol["ok"] or len(samples) != len(out):
        rep.disagree("the tournament no longer draws its members with np.random.choice(population, size, replace=False) once per winner "
                     "(the model's draw protocol)", case)
        # draw-independent oracle: membership, and a necessary condition for minimality (a least member of a duplicate-free
        # tournament of k out of n has at most n - k population members strictly better than itself)
        for w in out:
            if not any(m.values == w.values and (m.key == w.key or (nan(m.key) and nan(w.key))) for m in pop) or any(w is c for c in pop):
                rep.violate("tournament winner is not a copy of a member of the population", "C08:tournament-member", case)
            if not nan(w.key) and sum(1 for m in pop if (not nan(m.key)) and m.key < w.key) > len(pop) - size:
                rep.violate("tournament winner cannot be a least-fitness member of any tournament of this size", "C08:tournament-not-minimal", case)
        return
    for w, s in zip(out, samples):
        members = [pop[i] for i in s]
        if len(set(s)) != len(s):
            rep.violate("tournament sample contains duplicates", "C08:tournament-sample", case)
        src = [m for m in members if m.values == w.values and m.key == w.key]
        if not src or any(w is c for c in pop):
            rep.violate("tournament winner is not a copy of a member of its tournament", "C08:tournament-member", case)
        if not nan(w.key) and any((not nan(m.key)) and m.key < w.key for m in members):
            rep.violate("tournament winner is not a least-fitness member of its tournament", "C08:tournament-not-minimal", case)
        if nan(w.key) and not nan(members[0].key):
            rep.violate("tournament returned a NaN although the first sampled member is not NaN", "C08:tournament-not-minimal", case)
    if ctx.driver_ok:
        lines.append(f"tourn ; {case['pop']} ; " + " ; ".join(" ".join(map(str, s)) for s in samples) if samples else f"tourn ; {case['pop']}")
        meta.append(("tourn", case, [w.values[0] for w in out]))


def prob_tourn_case(ctx, rep, rng, lines, meta):
    """ProbabilisticTournament (default log scale): members and count for every outcome of the draws; the sampled members and
    the index `np.searchsorted` returned are logged and replayed in the model"""
    from bingo.selection.probabilistic_tournament import ProbabilisticTournament
    n = rng.randrange(1, 12)
    size = rng.randrange(1, n + 1)
    target = rng.randrange(0, 6)
    pop = mkpop(rng, n, nan_prob=rng.choice([0.0, 0.3, 0.8]))
    for c in pop:                      # keep exp(f - median) finite
        if c.key != "nan" and abs(c.key) >= 10 ** 5:
            c.key = 3
            c.fitness = 1.5
    samples, indices = [], []
    o_choice, o_search = np.random.choice, np.searchsorted

    def w_choice(a, size=None, replace=True, p=None):
        res = o_choice(a, size, replace, p)
        try:
            samples.append([next(i for i, c in enumerate(pop) if c is m) for m in res])
        except (StopIteration, TypeError):
            samples.append(None)
        return res

    def w_search(a, v, *args, **kw):
        r = o_search(a, v, *args, **kw)
        indices.append((len(samples), int(r)))
        return r
    np.random.seed(rng.randrange(2 ** 31))
    np.random.choice, np.searchsorted = w_choice, w_search
    try:
        with np.errstate(all="ignore"):
            out = ProbabilisticTournament(size, negative=rng.random() < 0.5)(pop, target)
    finally:
        np.random.choice, np.searchsorted = o_choice, o_search
    case = {"pop": pop_str(pop), "tournament_size": size, "target": target, "samples": samples}
    rep.case(("probtourn", case["pop"], size, str(samples)), target > 0 and size > 1)
    rep.count("probabilistic_tournament_size", min(size, 6))
    if len(out) != target:
        rep.violate(f"probabilistic tournament returned {len(out)} winners for target {target}", "C08:tournament-count", case)
    if any(s is None for s in samples) or len(samples) != len(out):
        rep.disagree("the probabilistic tournament no longer draws its members with np.random.choice(population, size, replace=False)", case)
        return
    idx_of = {}
    for k, i in indices:
        idx_of[k - 1] = i
    for k, (w, s_) in enumerate(zip(out, samples)):
        members = [pop[i] for i in s_]
        if not any(m.values == w.values for m in members) or any(w is c for c in pop):
            rep.violate("probabilistic tournament winner is not a copy of a member of its tournament", "C08:tournament-member", case)
    if ctx.driver_ok:
        parts = [" ".join(map(str, s_)) + " / " + str(idx_of.get(k, 0)) for k, s_ in enumerate(samples)]
        lines.append(f"probtourn ; {case['pop']}" + "".join(" ; " + p_ for p_ in parts))
        meta.append(("probtourn", case, [w.values[0] for w in out]))


def prob_crowd_case(ctx, rep, rng, lines, meta):
    """ProbabilisticCrowding (default log scale): slot k holds its parent or its paired child, `target` individuals"""
    from bingo.selection.probabilistic_crowding import ProbabilisticCrowding
    half = 2 * rng.randrange(1, 6)
    pop = mkpop(rng, 2 * half, nan_prob=rng.choice([0.0, 0.3, 0.7]))
    for c in pop:
        if c.key != "nan" and abs(c.key) >= 10 ** 5:
            c.key = 3
            c.fitness = 1.5
    target = 2 * rng.randrange(0, half // 2 + 1)
    parents, offspring = pop[:half], pop[half:]
    closer = []
    for i in range(target // 2):
        p1, p2, c1, c2 = parents[2 * i], parents[2 * i + 1], offspring[2 * i], offspring[2 * i + 1]
        closer.append(1 if p1.distance(c1) + p2.distance(c2) <= p1.distance(c2) + p2.distance(c1) else 0)
    sel = ProbabilisticCrowding(negative=rng.random() < 0.5)
    coins = []
    o_most = sel._return_most_fit
    o_random = np.random.random

    def w_most(child, parent):
        drawn = []

        def w_random(*a, **k):
            v = o_random(*a, **k)
            drawn.append(v)
            return v
        np.random.random = w_random
        try:
            with np.errstate(all="ignore"):
                r = o_most(child, parent)
        finally:
            np.random.random = o_random
        coins.append(2 if not drawn else (1 if r is child else 0))
        return r
    sel._return_most_fit = w_most
    np.random.seed(rng.randrange(2 ** 31))
    out = sel(list(pop), target)
    case = {"pop": pop_str(pop), "target": target, "closer": closer, "coins": coins}
    rep.case(("probcrowd", case["pop"], target, str(coins)), target > 0)
    rep.count("probabilistic_crowding_target", target)
    if len(out) != target:
        rep.violate(f"probabilistic crowding returned {len(out)} individuals for target {target}", "C08:crowding-count", case)
    for i in range(min(target, len(out)) // 2):
        pairs = [(2 * i, offspring[2 * i] if closer[i] else offspring[2 * i + 1]),
                 (2 * i + 1, offspring[2 * i + 1] if closer[i] else offspring[2 * i])]
        for slot, child in pairs:
            if out[slot] is not parents[slot] and out[slot] is not child:
                rep.violate(f"probabilistic crowding slot {slot} holds neither its parent nor its paired child", "C08:crowding-pairing", case)
    if ctx.driver_ok:
        lines.append(f"probcrowd ; {case['pop']} ; {target} ; {' '.join(map(str, closer))} ; {' '.join(map(str, coins))}")
        meta.append(("crowd", case, [c.values[0] for c in out]))


def crowd_case(ctx, rep, rng, lines, meta):
    half = 2 * rng.randrange(1, 6)
    pop = mkpop(rng, 2 * half, nan_prob=rng.choice([0.0, 0.3, 0.7]))
    target = 2 * rng.randrange(0, half // 2 + 1)
    parents, offspring = pop[:half], pop[half:]
    closer = []
    for i in range(target // 2):
        p1, p2, c1, c2 = parents[2 * i], parents[2 * i + 1], offspring[2 * i], offspring[2 * i + 1]
        da = p1.distance(c1) + p2.distance(c2)
        db = p1.distance(c2) + p2.distance(c1)
        closer.append(1 if da <= db else 0)
    out = DeterministicCrowding()(list(pop), target)
    case = {"pop": pop_str(pop), "target": target, "closer": closer}
    rep.case(("crowd", case["pop"], target), target > 0)
    rep.count("crowding_target", target)
    if len(out) != target:
        rep.violate(f"crowding returned {len(out)} individuals for target {target}", "C08:crowding-count", case)
    for i in range(target // 2):
        pairs = [(2 * i, offspring[2 * i] if closer[i] else offspring[2 * i + 1]),
                 (2 * i + 1, offspring[2 * i + 1] if closer[i] else offspring[2 * i])]
        for slot, child in pairs:
            parent = parents[slot]
            got = out[slot]
            if got is not parent and got is not child:
                rep.violate(f"crowding slot {slot} holds neither its parent nor its paired child", "C08:crowding-pairing", case)
                continue
            child_better = (not nan(child.key)) and (nan(parent.key) or child.key < parent.key)
            if got is child and child is not parent and not child_better:
                key = "C08:crowding-nan-child" if (nan(child.key) and nan(parent.key)) else "C08:crowding-rule"
                rep.violate(f"deterministic crowding replaced parent (key {parent.key}) by child (key {child.key})", key, case)
            if got is parent and child_better and child is not parent:
                rep.violate(f"deterministic crowding kept parent (key {parent.key}) although child (key {child.key}) is strictly better", "C08:crowding-rule", case)
    if ctx.driver_ok:
        lines.append(f"crowd ; {case['pop']} ; {target} ; {' '.join(map(str, closer))}")
        meta.append(("crowd", case, [c.values[0] for c in out]))


def prob_case(ctx, rep, rng):
    n = 2 * rng.randrange(1, 8)
    pop = mkpop(rng, n, nan_prob=rng.choice([0.0, 0.3]))
    np.random.seed(rng.randrange(2 ** 31))
    with warnings.catch_warnings():
        warnings.simplefilter("ignore")
        with np.errstate(all="ignore"):
            target = rng.randrange(0, 6)
            out = ProbabilisticTournament(rng.randrange(1, n + 1))(pop, target)
            case = {"pop": pop_str(pop), "target": target}
            rep.case(("ptourn", case["pop"], target), True)
            if len(out) != target or any(not any(o.values == c.values for c in pop) for o in out):
                rep.violate("probabilistic tournament: wrong count or non-member", "C08:prob-member-count", case)
            t2 = 2 * rng.randrange(0, n // 4 + 1)
            out2 = ProbabilisticCrowding()(list(pop), t2)
            rep.case(("pcrowd", case["pop"], t2), True)
            if len(out2) != t2 or any(all(o is not c for c in pop) for o in out2):
                rep.violate("probabilistic crowding: wrong count or non-member", "C08:prob-member-count", {**case, "target": t2})


def run(ctx, rep):
    rng = ctx.rng
    rep.rule = ("populations of 1..30 with ties, duplicates (same object twice), NaN, +-inf, equal ages; all targets; selection_size in {2,3,5,8}; "
                "tournament sizes 1..n; crowding on 4..20 individuals; fitness values as order-preserving images of the keys (halves, large and close, tiny, adjacent doubles); distinct = distinct (operator, population, draws); "
                "non-trivial = something had to be removed / compared")
    rep.assumptions = ["the index lists / samples drawn by numpy are duplicate-free and in range (logged; the theorems cover all such draws)"]
    lines, meta = [], []
    for t in range(ctx.n(1500, 20000)):
        agefit_case(ctx, rep, rng, lines, meta)
    for t in range(ctx.n(800, 8000)):
        tourn_case(ctx, rep, rng, lines, meta)
    for t in range(ctx.n(800, 8000)):
        crowd_case(ctx, rep, rng, lines, meta)
    for t in range(ctx.n(150, 1500)):
        prob_case(ctx, rep, rng)
    for t in range(ctx.n(300, 3000)):
        prob_tourn_case(ctx, rep, rng, lines, meta)
        prob_crowd_case(ctx, rep, rng, lines, meta)
    if ctx.driver_ok:
        outs = run_driver(lines)
        rep.corr_cases = len(lines)
        for line, o, (kind, case, want) in zip(lines, outs, meta):
            if kind == "agefit":
                kept, rounds, ids, log = want
                w = f"ok {kept} {rounds} ; {' '.join(map(str, ids))} ; {' | '.join(' '.join(map(str, r)) for r in log)}"
                norm = lambda s: " ".join(s.replace("|", " | ").split())
                # the removal set is a Python set: order inside one round is not defined -> compare as sorted lists
                def canon(s):
                    a, b, c = (s.split(" ; ") + ["", ""])[:3]
                    return (a.strip(), b.strip(), [sorted(r.split()) for r in c.split("|")] if c.strip() else [])
                if canon(o) != canon(w):
                    rep.disagree(f"age-fitness: model '{o}' vs code '{w}'", {"line": line, **case})
            else:
                w = "ok " + " ".join(map(str, want))
                if o.strip() != w.strip():
                    rep.disagree(f"{kind}: model '{o}' vs code '{w}'", {"line": line, **case})


def replay(ctx, rep, rp):
    rep.case(("replay",), True)
    rep.case(("replay2",), True)
    lines, meta = [], []
    for t in range(300):
        agefit_case(ctx, rep, ctx.rng, lines, meta)
        crowd_case(ctx, rep, ctx.rng, lines, meta)


if __name__ == "__main__":
    harness_main("C08", run, replay)
