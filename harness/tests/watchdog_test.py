"""the wall-clock watchdog of run_ranks: a rank that spins without any communication call"""
import time
from mpi4py import MPI


def prog(rank):
    if rank == 1:
        t0 = time.time()
        while time.time() - t0 < 4.0:      # pure computation, no scheduling point
            pass
    MPI.COMM_WORLD.Barrier()
    return rank


t = time.time()
res = MPI.run_ranks(2, prog, MPI.RoundRobinPolicy(), max_steps=1000, wall_limit=1.0)
print(res.verdict, f"{time.time() - t:.1f}s", res.blocked)
assert res.verdict == "wallclock"
res = MPI.run_ranks(2, prog, MPI.RoundRobinPolicy(), max_steps=1000, wall_limit=30.0)
print(res.verdict, res.results)
assert res.verdict == "ok" and res.results == [0, 1]
print("watchdog test ok")
