"""self-test of the mpi4py stub: determinism, deadlock detection, collectives, non-overtaking"""
import sys
from mpi4py import MPI


def prog_basic(rank):
    comm = MPI.COMM_WORLD
    n = comm.Get_size()
    out = {}
    out["bcast"] = comm.bcast({"x": [1, 2, 3]} if rank == 0 else None, root=0)
    out["allgather"] = comm.allgather(rank * 10)
    out["sum"] = comm.allreduce(rank + 1, op=MPI.SUM)
    out["min"] = comm.allreduce(5 - rank, op=MPI.MIN)
    out["gather"] = comm.gather(rank, root=1 % n)
    out["scatter"] = comm.scatter([i * i for i in range(n)] if rank == 0 else None, root=0)
    # ring of messages, two per link, order must be preserved
    nxt, prv = (rank + 1) % n, (rank - 1) % n
    comm.isend(("a", rank), dest=nxt, tag=7).Wait()
    comm.isend(("b", rank), dest=nxt, tag=7).Wait()
    st = MPI.Status()
    while not comm.iprobe(source=MPI.ANY_SOURCE, tag=7, status=st):
        MPI.yield_point()
    m1 = comm.recv(source=st.Get_source(), tag=7)
    m2 = comm.recv(source=prv, tag=7)
    out["ring"] = (m1, m2)
    comm.Barrier()
    out["sr"] = comm.sendrecv([rank], dest=nxt, sendtag=4, source=prv, recvtag=4)
    return out


def prog_deadlock(rank):
    comm = MPI.COMM_WORLD
    if rank == 0:
        comm.recv(source=1, tag=1)
    else:
        comm.Barrier()


def prog_copy(rank):
    comm = MPI.COMM_WORLD
    if rank == 0:
        obj = [1, 2]
        comm.isend(obj, dest=1, tag=0)
        obj.append(3)
        return obj
    return comm.recv(source=0, tag=0)


def prog_crash(rank):
    comm = MPI.COMM_WORLD
    if rank == 1:
        raise ValueError("boom")
    comm.Barrier()


def prog_spin(rank):
    comm = MPI.COMM_WORLD
    while not comm.iprobe(source=0, tag=9):
        pass


def main():
    fails = 0
    for n in (1, 2, 3, 5):
        logs = []
        for rep in range(2):
            res = MPI.run_ranks(n, prog_basic, MPI.RandomPolicy(42), max_steps=10000, rng_seed=1)
            assert res.verdict == "ok", (n, res.verdict, res.blocked, res.errors)
            logs.append(res.log)
            for r in range(n):
                o = res.results[r]
                assert o["bcast"] == {"x": [1, 2, 3]}
                assert o["allgather"] == [q * 10 for q in range(n)]
                assert o["sum"] == n * (n + 1) // 2 and o["min"] == 5 - (n - 1)
                assert o["gather"] == (list(range(n)) if r == 1 % n else None)
                assert o["scatter"] == r * r
                assert o["ring"] == (("a", (r - 1) % n), ("b", (r - 1) % n)), o["ring"]
                assert o["sr"] == [(r - 1) % n]
            assert all(not m for m in res.leftover)
        assert logs[0] == logs[1], "non-deterministic"
        # replay through the explicit policy gives the identical log
        rep = MPI.run_ranks(n, prog_basic, MPI.ExplicitPolicy(res.schedule), max_steps=10000, rng_seed=1)
        assert rep.log == res.log and rep.verdict == "ok"
        other = MPI.run_ranks(n, prog_basic, MPI.RandomPolicy(43), max_steps=10000, rng_seed=1)
        assert other.verdict == "ok"
        if n > 1:
            assert other.log != res.log
        rr = MPI.run_ranks(n, prog_basic, MPI.RoundRobinPolicy(), max_steps=10000, sync_collectives=False)
        assert rr.verdict == "ok", rr.verdict
        pp = MPI.run_ranks(n, prog_basic, MPI.PriorityPolicy(3, 3, 60), max_steps=10000)
        assert pp.verdict in ("ok", "step-limit"), (pp.verdict, pp.blocked)  # busy-wait + unfair priorities may starve
    d = MPI.run_ranks(2, prog_deadlock, MPI.RandomPolicy(0), max_steps=100)
    assert d.verdict == "deadlock", d.verdict
    assert d.blocked[0].startswith("recv(source=1, tag=1)") and d.blocked[1].startswith("barrier-leave"), d.blocked
    print("deadlock report:", d.blocked, d.stacks[0][-1:] if d.stacks else None)
    c = MPI.run_ranks(2, prog_copy, MPI.RoundRobinPolicy(), max_steps=100)
    assert c.results == [[1, 2, 3], [1, 2]], c.results
    e = MPI.run_ranks(3, prog_crash, MPI.RoundRobinPolicy(), max_steps=100)
    assert e.verdict == "error" and e.errors[1][0] == "ValueError", (e.verdict, e.errors)
    print("crash report:", e.blocked)
    s = MPI.run_ranks(2, prog_spin, MPI.RoundRobinPolicy(), max_steps=500)
    assert s.verdict == "step-limit" and s.steps == 500, (s.verdict, s.steps)
    print("stub selftest ok")


if __name__ == "__main__":
    main()
