"""negative test of the trace validator: mutated traces of real runs must be rejected by `partrace`"""
import random
import sys
from mpi4py import MPI
from harness.pa_scenario import Cfg, run_scenario
from harness.c12_run import extract_nb_traces, trace_line, run_driver


def main():
    rng = random.Random(5)
    lines, kinds = [], []
    for seed in range(6):
        R = 2 + seed % 3
        cfg = Cfg(R=R, sync=1 + seed % 2, calls=[3], nb=True, cost=2 * R, rng_seed=seed)
        res = run_scenario(cfg, MPI.RandomPolicy(seed))
        assert res.verdict == "ok"
        call = extract_nb_traces(res.log, R)[0]
        good, err = trace_line(call, R)
        assert err is None
        lines.append(good); kinds.append("good")
        head, evs = good.split(" ; ")[:3], good.split(" ; ")[3:]
        for _ in range(40):
            e = list(evs)
            m = rng.choice(["drop", "swap-same-rank", "flip-probe", "dup", "retag", "evolve-k", "truncate", "move-exit-early"])
            i = rng.randrange(len(e))
            if m == "drop":
                if e[i].startswith("t "):
                    continue
                del e[i]
            elif m == "swap-same-rank":
                r = e[i].split()[1]
                js = [j for j in range(i + 1, len(e)) if e[j].split()[1] == r and e[j] != e[i]]
                if not js:
                    continue
                j = js[0]
                if {e[i].split()[0], e[j].split()[0]} <= {"t"}:
                    continue
                e[i], e[j] = e[j], e[i]
            elif m == "flip-probe":
                ps = [j for j in range(len(e)) if e[j].startswith("p ")]
                j = rng.choice(ps)
                w = e[j].split()
                w[4] = "-" if w[4] != "-" else ("0" if w[2] == "0" else "1")
                e[j] = " ".join(w)
            elif m == "dup":
                if e[i].startswith("t "):
                    continue
                e.insert(i, e[i])
            elif m == "retag":
                ss = [j for j in range(len(e)) if e[j].startswith("s ")]
                j = rng.choice(ss)
                w = e[j].split(); w[3] = "3" if w[3] == "2" else "2"; e[j] = " ".join(w)
            elif m == "evolve-k":
                es = [j for j in range(len(e)) if e[j].startswith("e ")]
                j = rng.choice(es)
                w = e[j].split(); w[2] = str(int(w[2]) + 1); e[j] = " ".join(w)
            elif m == "truncate":
                e = e[:max(1, len(e) - 1 - rng.randrange(5))]
            elif m == "move-exit-early":
                xs = [j for j in range(len(e)) if e[j].startswith("s 0 ")]
                j = xs[0]
                ev = e.pop(j)
                e.insert(rng.randrange(0, max(1, j // 2)), ev)
            lines.append(" ; ".join(head + e)); kinds.append(m)
    outs = run_driver(lines)
    stats = {}
    bad = 0
    for k, o in zip(kinds, outs):
        verdict = o.split()[0]
        stats.setdefault(k, {}).setdefault(verdict, 0)
        stats[k][verdict] += 1
        if (k == "good") != (verdict == "ok"):
            bad += 1
            print("UNEXPECTED", k, o[:200])
    for k in sorted(stats):
        print(k, stats[k])
    print("trace mutation test", "ok" if bad == 0 else f"FAILED ({bad})")
    return 1 if bad else 0


if __name__ == "__main__":
    sys.exit(main())
