"""C16 differential tester: equation string printer / parser, Lean model (bvdriver) vs bingo.

usage:  PYTHONPATH=/repo:/tmp/pa_c16 /venv/bin/python /tmp/pa_c16/harness/c16_diff.py <n_cases> <seed>

(a) printing: `string_generation.get_formatted_string` directly (well-formed and ill-formed stacks, all
    constant flavours), and through a real `AGraph` (processed and raw=True); additionally the model chain
    reduce -> renumber -> format against the processed AGraph output.
(b) parsing: `eq_string_to_infix_tokens`, `infix_to_postfix`, `postfix_to_command_array_and_constants`,
    `eq_string_to_command_array_and_constants` on re-parsed printer output (sympy + console), on
    `str(sympy_expr)` of random (evaluated and unevaluated) sympy expressions, on mutated / malformed strings,
    on raw token lists; the two `re.sub` scanners and the `float()` acceptance grammar against Python.
Compared exactly: strings, token lists, postfix lists, command arrays, constants (float(model literal) must be
bitwise the Python constant), error / no error, the exception class, and the message of RuntimeErrors.
Exit status 0 iff zero mismatches.  Mismatches are shrunk before they are reported.
"""
import math
import os
import random
import re
import signal
import struct
import subprocess
import sys
import warnings

import numpy as np

warnings.filterwarnings("ignore")

import sympy  # noqa: E402

from bingo.symbolic_regression.agraph.agraph import AGraph  # noqa: E402
from bingo.symbolic_regression.agraph import string_generation as SG  # noqa: E402
from bingo.symbolic_regression.agraph import string_parsing as SP  # noqa: E402

HERE = os.path.dirname(os.path.abspath(__file__))
sys.path.insert(0, os.path.dirname(HERE))
from harness import gen_stacks as G  # noqa: E402

DRIVER = os.path.join(os.path.dirname(HERE), "lean", ".lake", "build", "bin", "bvdriver")
FORMATS = ["console", "latex", "sympy", "stack"]


# ----------------------------------------------------------------------------- plumbing

def run_driver(lines, timeout=900):
    if not lines:
        return []
    data = ("\n".join(lines) + "\n").encode()
    p = subprocess.run([DRIVER], input=data, stdout=subprocess.PIPE, stderr=subprocess.PIPE, timeout=timeout)
    out = p.stdout.decode().split("\n")
    if out and out[-1] == "":
        out.pop()
    if p.returncode != 0 or len(out) != len(lines):
        raise RuntimeError(f"driver failed rc={p.returncode} lines={len(lines)} out={len(out)} err={p.stderr.decode()[:300]}")
    return out


def hx(s):
    return "x" + s.encode("utf-8").hex()


def unhx(t):
    assert t[0] == "x", t
    return bytes.fromhex(t[1:]).decode("utf-8")


def f2b(x):
    return struct.unpack("<Q", struct.pack("<d", float(x)))[0]


def stack_str(stack):
    return " ".join(str(int(v)) for row in stack for v in row)


class Timeout(Exception):
    pass


def _alarm(signum, frame):
    raise Timeout()


signal.signal(signal.SIGALRM, _alarm)


def py(f, *a):
    """('ok', value) | ('err', class, message)"""
    try:
        with np.errstate(all="ignore"):
            return ("ok", f(*a))
    except Timeout:
        raise
    except Exception as e:  # noqa: BLE001
        return ("err", type(e).__name__, str(e))


def parse_model(line, kind):
    """kind: 'str' | 'toks' | 'cmds'"""
    if line.startswith("err "):
        parts = line.split(" ")
        return ("err", parts[1], unhx(parts[2]) if len(parts) > 2 else "")
    if not (line == "ok" or line.startswith("ok ") or line.startswith("ok")):
        return ("bad", line)
    body = line[2:].strip()
    if kind == "str":
        return ("ok", unhx(body))
    if kind == "toks":
        return ("ok", [unhx(t) for t in body.split()])
    if kind == "cmds":
        st, _, cs = body.partition(";")
        ints = [int(v) for v in st.split()]
        rows = [ints[i:i + 3] for i in range(0, len(ints), 3)]
        return ("ok", (rows, [unhx(t) for t in cs.split()]))
    raise ValueError(kind)


def same_result(pyres, mres, kind):
    """-> (equal?, out_of_domain?)"""
    if mres[0] == "err" and mres[1] == "ModelDomain":
        return True, True
    if pyres[0] != mres[0]:
        return False, False
    if pyres[0] == "err":
        if pyres[1] != mres[1]:
            return False, False
        if pyres[1] == "RuntimeError" and pyres[2] != mres[2]:
            return False, False
        return True, False
    if kind == "cmds":
        arr, consts = pyres[1]
        rows = np.asarray(arr).reshape(-1, 3).tolist() if np.asarray(arr).size else []
        mrows, mconsts = mres[1]
        if rows != mrows or len(consts) != len(mconsts):
            return False, False
        for c, lit in zip(consts, mconsts):
            try:
                if f2b(float(lit)) != f2b(c):
                    return False, False
            except ValueError:
                return False, False
        return True, False
    return pyres[1] == mres[1], False


# ----------------------------------------------------------------------------- the ops under test

def op_line(op, arg):
    if op in ("tokenize", "postfix", "parse", "pyfloat"):
        return f"{op} ; {hx(arg)}"
    if op in ("resub_neg", "resub_op", "resub_negbase"):
        return f"resub ; {op[6:]} ; {hx(arg)}"
    if op in ("shunt", "commands"):
        return f"{op} ; {' '.join(hx(t) for t in arg)}"
    if op == "format":
        fmt, stack, consts = arg
        return f"format ; {fmt} ; {stack_str(stack)} ; {' '.join(str(c) for c in consts)}"
    raise ValueError(op)


def _float_ok(s):
    try:
        float(s)
        return 1
    except ValueError:
        return 0


def op_python(op, arg):
    if op == "tokenize":
        return py(SP.eq_string_to_infix_tokens, arg)
    if op == "postfix":
        return py(lambda s: SP.infix_to_postfix(SP.eq_string_to_infix_tokens(s)), arg)
    if op == "parse":
        return py(SP.eq_string_to_command_array_and_constants, arg)
    if op == "shunt":
        return py(SP.infix_to_postfix, list(arg))
    if op == "commands":
        return py(SP.postfix_to_command_array_and_constants, list(arg))
    if op == "pyfloat":
        return ("ok", str(_float_ok(arg)))
    if op == "resub_neg":
        return ("ok", SP.negative_pattern.sub(r"-1 * \1", arg))
    if op == "resub_op":
        return ("ok", SP.non_unary_op_pattern.sub(r" \1 ", arg))
    if op == "resub_negbase":
        return ("ok", SP.negative_base_pattern.sub(r"-1 * \1", arg))
    if op == "format":
        fmt, stack, consts = arg
        return py(SG.get_formatted_string, fmt, np.array(stack, dtype=int).reshape(-1, 3), consts)
    raise ValueError(op)


KIND = {"tokenize": "toks", "postfix": "toks", "shunt": "toks", "parse": "cmds", "commands": "cmds",
        "pyfloat": "str", "resub_neg": "str", "resub_op": "str", "resub_negbase": "str", "format": "str"}


def parse_model_op(op, line):
    if op == "pyfloat":
        return ("ok", line[3:]) if line.startswith("ok ") else ("bad", line)
    return parse_model(line, KIND[op])


def mismatch_single(op, arg):
    try:
        line = run_driver([op_line(op, arg)])[0]
    except Exception:  # noqa: BLE001
        return True
    eq, _ = same_result(op_python(op, arg), parse_model_op(op, line), KIND[op])
    return not eq


def shrink_seq(items, fails, rebuild, max_steps=400):
    items = list(items)
    steps = 0
    chunk = max(1, len(items) // 2)
    while True:
        i = 0
        progressed = False
        while i < len(items) and steps < max_steps:
            cand = items[:i] + items[i + chunk:]
            steps += 1
            if fails(rebuild(cand)):
                items = cand
                progressed = True
            else:
                i += chunk
        if steps >= max_steps:
            break
        if chunk == 1:
            if not progressed:
                break
        else:
            chunk = max(1, chunk // 2)
    return rebuild(items)


def shrink(op, arg):
    try:
        if op in ("tokenize", "postfix", "parse", "pyfloat", "resub_neg", "resub_op", "resub_negbase"):
            return shrink_seq(list(arg), lambda s: mismatch_single(op, s), lambda cs: "".join(cs))
        if op in ("shunt", "commands"):
            return shrink_seq(list(arg), lambda t: mismatch_single(op, t), list)
        if op == "format":
            fmt, stack, consts = arg
            best = (fmt, stack, consts)
            for k in range(1, len(stack)):
                if mismatch_single(op, (fmt, stack[:k], consts)):
                    best = (fmt, stack[:k], consts)
                    break
            fmt, stack, consts = best
            for k in range(len(consts)):
                if mismatch_single(op, (fmt, stack, consts[:k])):
                    return (fmt, stack, consts[:k])
            return best
    except Exception:  # noqa: BLE001
        pass
    return arg


class Tally:
    def __init__(self):
        self.counts = {}
        self.errs = {}
        self.ood = {}
        self.mism = []
        self.seen = set()

    def batch(self, category, cases):
        """cases: list of (op, arg); runs the driver once, compares every case"""
        uniq = []
        for op, arg in cases:
            key = (op, repr(arg))
            if key in self.seen:
                continue
            self.seen.add(key)
            uniq.append((op, arg))
        pyres = []
        for op, arg in uniq:
            signal.setitimer(signal.ITIMER_REAL, 20.0)
            try:
                pyres.append(op_python(op, arg))
            except Timeout:
                pyres.append(None)
            finally:
                signal.setitimer(signal.ITIMER_REAL, 0)
        keep = [(c, r) for c, r in zip(uniq, pyres) if r is not None]
        lines = run_driver([op_line(op, arg) for (op, arg), _ in keep])
        for ((op, arg), pr), line in zip(keep, lines):
            name = f"{category}/{op}"
            self.counts[name] = self.counts.get(name, 0) + 1
            mr = parse_model_op(op, line)
            eq, ood = same_result(pr, mr, KIND[op])
            if ood:
                ascii_in = all(ord(ch) < 128 for ch in (arg if isinstance(arg, str) else "".join(arg) if op in ("shunt", "commands") else ""))
                self.ood[name] = self.ood.get(name, 0) + 1
                if ascii_in:
                    eq = False
            if pr[0] == "err":
                k = pr[1] + (": " + re.sub(r"token .*", "token …", pr[2], flags=re.S) if pr[1] == "RuntimeError" else "")
                self.errs.setdefault(name, {})
                self.errs[name][k] = self.errs[name].get(k, 0) + 1
            if not eq:
                self.mismatch(name, op, arg, pr, mr)

    def mismatch(self, name, op, arg, pr, mr):
        if len(self.mism) >= 25:
            self.mism.append(None)
            return
        small = shrink(op, arg)
        line = run_driver([op_line(op, small)])[0]
        self.mism.append({"where": name, "input": arg, "shrunk": small, "python": op_python(op, small),
                          "model": parse_model_op(op, line), "python_orig": pr, "model_orig": mr})

    def note(self, name, n=1):
        self.counts[name] = self.counts.get(name, 0) + n

    def fail(self, name, info):
        if len(self.mism) < 25:
            self.mism.append({"where": name, **info})
        else:
            self.mism.append(None)


# ----------------------------------------------------------------------------- (a) printing

CONST_POOL = [1.0, -1.0, -2.5, 2.5, 0.0, -0.0, 1e-05, -1e-05, 1e+20, -1e+20, float("inf"), float("-inf"),
              float("nan"), 3, -7, 0, 10, 1e16, 1e-300, 123456789.123456789, 0.1, 1 / 3, 5e-324, 1.7976931348623157e308,
              np.float64(2.5), np.float64(-1e-05), np.float64(1e+20), np.float64("inf"), np.float64("nan"), np.int64(4)]


def rand_const(rng):
    r = rng.random()
    if r < 0.5:
        return rng.choice(CONST_POOL)
    if r < 0.7:
        return G.random_value(rng)
    if r < 0.8:
        return rng.choice([-1, 1]) * 10.0 ** rng.randrange(-30, 30)
    if r < 0.9:
        return struct.unpack("<d", struct.pack("<Q", rng.getrandbits(64)))[0]
    return rng.randrange(-1000, 1000)


def rand_consts(rng, n):
    mode = rng.random()
    if mode < 0.15:
        cs = tuple(1.0 for _ in range(n))              # the AGraph default
    elif mode < 0.3:
        cs = tuple(-abs(G.random_value(rng)) for _ in range(n))
    else:
        cs = tuple(rand_const(rng) for _ in range(n))
    if rng.random() < 0.1 and n > 0:
        try:
            return np.array([float(c) for c in cs])
        except Exception:  # noqa: BLE001
            return cs
    return cs


def wellformed_stack(rng):
    ops = rng.choice(G.OP_SUBSETS)
    size = rng.choice([1, 2, 3, 4, 5, 6, 8, 10, 12, 16])
    D = rng.choice([0, 1, 2, 3, 12])
    st = G.random_stack(rng, size, D, ops, term_prob=rng.choice([0.15, 0.3, 0.5]), const_prob=rng.choice([0.2, 0.4, 0.7]),
                        int_prob=rng.choice([0.1, 0.15, 0.4]), n_load=rng.choice([1, 1, 2, 3]),
                        share_bias=rng.choice([0.0, 0.0, 0.5]))
    if rng.random() < 0.3:   # larger integers
        for row in st:
            if row[0] == G.INTEGER and rng.random() < 0.5:
                v = rng.choice([-1000000, 17, -17, 2 ** 40, -2 ** 40, 123])
                row[1] = row[2] = v
    return st


def illformed_stack(rng):
    st = wellformed_stack(rng)
    if rng.random() < 0.08:
        return []
    for _ in range(rng.randrange(1, 4)):
        i = rng.randrange(len(st))
        r = rng.random()
        if r < 0.25:
            st[i][0] = rng.choice([16, 17, -2, 99, -1, 0, 1])
        elif r < 0.6:
            st[i][rng.choice([1, 2])] = rng.choice([-1, -2, -3, i, i + 1, len(st), 100, -len(st), -len(st) - 1, 0])
        elif r < 0.8:
            k = rng.choice([-1, -2, -3, 0, 1, 2, 5, 100])
            st[i] = [G.CONSTANT, k, rng.choice([k, 0, -1])]
        else:
            k = rng.choice([-1, -5, 0, 3])
            st[i] = [rng.choice([G.VARIABLE, G.INTEGER]), k, rng.choice([k, 7])]
    return st


def n_consts(stack):
    return sum(1 for r in stack if r[0] == G.CONSTANT)


def printing_cases(rng, n, tally, printed):
    """returns nothing; fills `printed` with successfully printed sympy / console strings"""
    cases = []
    agraph_jobs = []
    stacks = [([list(r) for r in s], "hand") for s in G.hand_shapes(2)] + [([list(r) for r in s], "hand") for s in G.hand_shapes(1)]
    while len(stacks) < n:
        stacks.append((wellformed_stack(rng), "wf") if rng.random() < 0.7 else (illformed_stack(rng), "ill"))
    for st, kind in stacks[:max(n, 1)]:
        k = n_consts(st)
        # direct: genome-form / ill-formed stack, with and without constants
        ren, _ = G.renumber(st)
        for variant in ((st, ()), (ren, rand_consts(rng, k)), (ren, rand_consts(rng, rng.randrange(0, k + 2)))):
            stack, consts = variant
            for fmt in FORMATS:
                cases.append(("format", (fmt, stack, consts)))
        if rng.random() < 0.05:
            cases.append(("format", (rng.choice(["", "Sympy", "text", "consol"]), ren, rand_consts(rng, k))))
        if kind != "ill":
            agraph_jobs.append((st, rand_consts(rng, k) if rng.random() < 0.8 else rand_consts(rng, max(0, k - 1))))
    tally.batch("print-direct", cases)
    for op, (fmt, stack, consts) in cases:
        if fmt in ("sympy", "console"):
            r = op_python(op, (fmt, stack, consts))
            if r[0] == "ok" and len(r[1]) < 4000:
                printed.append(r[1])

    # through a real AGraph: processed and raw
    jobs = []
    for st, consts in agraph_jobs:
        ag = AGraph()
        ag.command_array = np.array(st, dtype=int)
        ag.set_local_optimization_params(consts)
        outs = {}
        for fmt in FORMATS:
            outs[fmt] = py(ag.get_formatted_string, fmt)
            outs[fmt + "/raw"] = py(ag.get_formatted_string, fmt, True)
        simp = np.array(ag._simplified_command_array).tolist()
        used = [str(c) for c in ag.constants]
        assert str(ag) == outs["console"][1]
        jobs.append((st, simp, used, outs))
    red = run_driver([f"reduce ; {stack_str(st)}" for st, _, _, _ in jobs])
    ren = run_driver([("renumber ; " + r[3:]) if r.startswith("ok ") else "renumber ; 0 0 0" for r in red])
    lines = []
    for (st, simp, used, outs), r1, r2 in zip(jobs, red, ren):
        chain = r2.split(";", 1)[1].strip() if r1.startswith("ok ") else None
        for fmt in FORMATS:
            lines.append(f"format ; {fmt} ; {stack_str(simp)} ; {' '.join(used)}")
            lines.append(f"format ; {fmt} ; {chain if chain is not None else stack_str(simp)} ; {' '.join(used)}")
            lines.append(f"format ; {fmt} ; {stack_str(st)} ; ")
    res = run_driver(lines)
    it = iter(res)
    for st, simp, used, outs in jobs:
        for fmt in FORMATS:
            for tag, want in (("agraph-processed", outs[fmt]), ("agraph-chain(reduce,renumber,format)", outs[fmt]), ("agraph-raw", outs[fmt + "/raw"])):
                mr = parse_model(next(it), "str")
                tally.note(f"print-{tag}/format")
                eq, _ = same_result(want, mr, "str")
                if not eq:
                    tally.fail(f"print-{tag}", {"fmt": fmt, "stack": st, "simplified": simp, "consts": used, "python": want, "model": mr})
            if fmt in ("sympy", "console") and outs[fmt][0] == "ok" and len(outs[fmt][1]) < 4000:
                printed.append(outs[fmt][1])


# ----------------------------------------------------------------------------- (b) parsing inputs

SYMS = sympy.symbols("X_0 X_1 X_2 X_10")
FLOATS = [-2.5, 2.5, 1e-05, -1e-05, 1e+20, -1e+20, 0.5, -0.5, 3.0, 0.1, 1.5e-10, 123456.789, 2.0, -2.0, 1e16]
FUNCS = [sympy.sin, sympy.cos, sympy.sinh, sympy.cosh, sympy.exp, sympy.log, sympy.sqrt, sympy.Abs]


def rand_leaf(rng):
    r = rng.random()
    if r < 0.45:
        return rng.choice(SYMS)
    if r < 0.65:
        return sympy.Integer(rng.choice([-10, -3, -2, -1, 0, 1, 2, 3, 5, 10, 100, 12345]))
    if r < 0.8:
        return sympy.Rational(rng.choice([-7, -3, -2, -1, 1, 2, 3, 5]), rng.choice([2, 3, 4, 7, 10]))
    return sympy.Float(rng.choice(FLOATS) if rng.random() < 0.7 else G.random_value(rng))


def rand_expr(rng, depth, ev):
    if depth <= 0 or rng.random() < 0.2:
        return rand_leaf(rng)
    r = rng.random()
    a = rand_expr(rng, depth - 1, ev)
    if r < 0.2:
        f = rng.choice(FUNCS)
        return f(a) if ev or f is sympy.sqrt else f(a, evaluate=False)
    if r < 0.3:
        return -a if ev else sympy.Mul(sympy.Integer(-1), a, evaluate=False)
    b = rand_expr(rng, depth - 1, ev)
    if r < 0.45:
        return a + b if ev else sympy.Add(a, b, evaluate=False)
    if r < 0.55:
        return a - b if ev else sympy.Add(a, sympy.Mul(sympy.Integer(-1), b, evaluate=False), evaluate=False)
    if r < 0.7:
        return a * b if ev else sympy.Mul(a, b, evaluate=False)
    if r < 0.82:
        return a / b if ev else sympy.Mul(a, sympy.Pow(b, sympy.Integer(-1), evaluate=False), evaluate=False)
    if rng.random() < 0.5:
        b = rand_leaf(rng)
    return a ** b if ev else sympy.Pow(a, b, evaluate=False)


PYFLOAT_REPRS = ["1e-05", "1e+20", "2.5", "0.1", "1.5e-10", "1e16", "3.0", "123456.789", "5e-324", "1.7976931348623157e+308", "1E5", "1e5"]


def sympy_strings(rng, n):
    """sympy can hang inside a single big-number operation while ordering / printing an expression (no signal handler runs
    there), so the strings are produced in a child process that is killed after a wall-clock limit"""
    import multiprocessing as mp
    ctx = mp.get_context("fork")
    for attempt in range(4):
        sub = random.Random(rng.randrange(2 ** 31))
        pool = ctx.Pool(1)
        try:
            return pool.apply_async(_sympy_strings_child, (sub, n)).get(timeout=90)
        except mp.TimeoutError:
            continue
        finally:
            pool.terminate()
    return []


def _sympy_strings_child(rng, n):
    out = []
    tries = 0
    while len(out) < n and tries < 3 * n:
        tries += 1
        signal.setitimer(signal.ITIMER_REAL, 5.0)
        try:
            e = rand_expr(rng, rng.choice([1, 2, 2, 3, 3, 4]), rng.random() < 0.55)
            s = str(e)
        except Timeout:
            continue
        except Exception:  # noqa: BLE001
            continue
        finally:
            signal.setitimer(signal.ITIMER_REAL, 0)
        if len(s) > 3000:
            continue
        out.append(s)
        if rng.random() < 0.25:   # python float reprs in place of sympy's Float printing
            out.append(re.sub(r"\d+\.\d+(e[+-]?\d+)?", lambda m: rng.choice(PYFLOAT_REPRS), s))
    return out


FIXED_STRINGS = [
    "", " ", "  ", "(", ")", "()", "( )", "(()", "())", "((", "))", ")(", ")()(", "zoo", "I", "oo", "nan", "NaN", "NAN", "Nan",
    "inf", "-inf", "+inf", "Infinity", "infinity", "-infinity", "INF", "1 + + 2", "1 * * 2", "1 ** ** 2", "1 ^ ^ 2", "1 + * 2",
    "1 * + 2", "1 / / 2", "1 - - 2", "X_0 + ", "+ X_0", "- X_0", "-X_0", "--X_0", "---X_0", "X_0 -- X_1", "X_0 - -X_1", "X_0 + -X_1",
    "+ 1 2", "1 2 +", "sin", "sin()", "sin(", "sin)", "sin X_0", "sin X_0 + X_1", "sin sin X_0", "foo(X_0)", "tan(X_0)", "X_0 X_1",
    "2(X_0)", "(X_0)(X_1)", "X_0)(X_1", "(X_0)(X_1)(X_2)", "***", "****", "*****", "**", "*", "^", "X_0***X_1", "X_", "X_a", "x_0", "c_1",
    "C_0", "C_0 + 2.5", "2.5 + C_0", "C_0 + C_1", "C_1 + C_0", "C_1*X_0 + 3.5 + C_0", "1_000", "1__0", "1_", "_1", "1e5", "1E5", "1e", "1e+",
    ".5", "5.", ".", "-.5", "0x10", "1e400", "-1e400", "9" * 18, "9" * 19, "9223372036854775807", "9223372036854775808", "9" * 20,
    "X_" + "9" * 20, "C_9223372036854775808", "9" * 4300, "9" * 4301, "X_" + "0" * 4301, "X_" + "0" * 4300, "0" * 4301 + " + 1",
    "9" * 4301 + " +", "foo + " + "9" * 4301, "9" * 30 + " 1", "\t1", "1\n", "\n", "X_0\t+\tX_1", "X_0+X_1", "X_0 +X_1", "1-2", "1 - 2",
    "1 -2", "1- 2", "e", "E", "pi", "-e", "sIn(X_0)", "SIN(X_0)", "Sin(X_0)", "Abs(X_0)", "ABS(X_0)", "sqrt(X_0)", "exp(X_0)**2",
    "-2**X_0", "-2.5**X_0", "2**-X_0", "X_0**-2", "X_0**-X_1", "2^3^2", "2**3**2", "(2**3)**2", "2/3/4", "2 - 3 - 4", "2 - 3 + 4",
    "(1", "1)", "((1)", "sin((X_0)", "log(log(", "1 / 0", "é", "X_٣", "٣", "1 2", "1\x0b", "\x1c", "-\x1c", "-\n", "- 1",
    "-\x001", "-", "--", "- -", "1 -", "-(X_0)", "-(-(X_0))", "-sin(X_0)", "sin(-X_0)", "sin(-2)", "(-2)**X_0", "X_0 - (-2)", "abs(X_0)**(X_1)",
    "|X_0|", "(|X_0|)^(2)", "?", "(?)*(X_0)", "X_0 + ?", "X_-1", "X_0_1", "XX_0", "X_0X_1", "X_0 C_0", "1.0e-5", "1.0e+20*X_0", "-1.0e-5",
    "1.e5", "1e-05", "-1e-05 + X_0", "X_0 - 1e-05", "(1e-05)**(-1e+20)", "foo", "boo", "zoom", "Inf", "nano", "banana", "sin(X_0))", "sin(X_0)(",
    "()()", "()(X_0)", "(X_0)()", "X_0 ()", "() + ()", "exp", "exp exp", "abs abs (X_0)", "sqrt(sqrt(sqrt(X_0)))", "X_0**X_1**X_2",
    "X_0 ^ X_1 ^ X_2", "X_0/X_1*X_2", "X_0*X_1/X_2", "1 + 2 * 3 ^ 4 / 5 - 6", "\x00", "1\x00", "a b", "1 1", "1  1", " 1 ", "1 + 1 ", "\r\n",
    "1 +\n2", "1\t+\t2", "1 \t+ 2", "-\t1", "-\x1d1", "2 * -X_0", "2 *-X_0", "2*-X_0", "(-X_0)", "-X_0**2", "(-X_0)**2", "-(X_0 + 1)**2",
    "X_1*-2**X_0", "exp(-2**X_0)", "-2**X_0*X_1", "-3**X_0/2", "-10**X_0", "-2**(1/2)", "00", "007", "X_007", "c_00", "+1", "+1.5", "+X_0", "1e+5", "1e-5", "1e+", "1e+-5", "infinit", "-nan", "-NAN", "-NaN + 1",
    "-2 ^ X_0", "-2  **X_0", "1e-2**X_0", "1.e-2**X_0", ".5e-2**X_0", "1E-2^X_0", "X_0e-2**X_1", "-1e5**X_0", "-1e+**X_0", "-1e-5**X_0", "-1.5.^X_0",
    "--2**X_0", "-2**-3**X_0", "2**(-3**X_0)", "-.5**X_0", "-5.**X_0", "-5.e3**X_0", "X_0 -2**X_1", "X_0-2**X_1", "(-2**X_0)**-2**X_1", "-2\t^X_0", "-2\n^X_0",
]

ALPHABET = list("()()++--**//^^  ..eE__XCxc0123456789") + ["sin", "cos", "sinh", "cosh", "exp", "log", "abs", "sqrt", "Abs", "X_0", "X_1", "C_0", "2.5",
            "1e-05", "**", ")(", "-", " - ", " + ", "|", "?", "\t", "\n", "I", "oo", "zoo", "nan", "inf", "1", "2", "-1", "-2", "\x1c", "\x0b", "_", "e", "tan", "pi", "E"]


def mutate(rng, s):
    cs = list(s)
    for _ in range(rng.choice([1, 1, 1, 2, 3])):
        r = rng.random()
        if r < 0.3 and cs:
            i = rng.randrange(len(cs))
            del cs[i:i + rng.choice([1, 1, 2, 3])]
        elif r < 0.65:
            i = rng.randrange(len(cs) + 1)
            cs[i:i] = list(rng.choice(ALPHABET))
        elif r < 0.75 and cs:
            i = rng.randrange(len(cs))
            j = min(len(cs), i + rng.randrange(1, 6))
            cs[i:i] = cs[i:j]
        elif r < 0.85 and len(cs) > 1:
            i = rng.randrange(len(cs) - 1)
            cs[i], cs[i + 1] = cs[i + 1], cs[i]
        elif r < 0.92 and cs:
            cs = cs[:rng.randrange(len(cs))]
        elif cs:
            i = rng.randrange(len(cs))
            cs[i] = rng.choice([" ", "", "-", "(", ")"])
    return "".join(cs)


TOKEN_VOCAB = ["+", "-", "*", "/", "^", "(", ")", "sin", "cos", "sinh", "cosh", "exp", "log", "abs", "sqrt", "x_0", "x_1", "c_0", "c_1", "X_0", "C_0",
               "1", "2", "0", "-1", "-2", "2.5", "-2.5", "1e-05", "1e+20", "inf", "nan", "foo", "tan", "", "SIN", "Sin", "x_", "x_a", "_", "1_0", "1__0",
               "x_01", "007", "9" * 19, "9" * 20, "x_" + "9" * 20, "9" * 4301, "x_" + "9" * 4301, "c_" + "0" * 4300 + "1", "|x_0|", "?", " 1", "1 ", "\t1",
               "1\n", "\x1c1", "+1", "1.", ".1", ".", "1e", "e1", "infinity", "-inf", "+nan", "INF", "in", "x_0+x_1", "**", ")(", "c_2", "X_٣", "é"]


def soup(rng):
    n = rng.randrange(0, 9)
    return "".join(rng.choice(ALPHABET) + rng.choice(["", "", " "]) for _ in range(n))


def rand_ascii(rng):
    n = rng.randrange(0, 8)
    pool = "-- -\t\n\x0b\x0c\r\x1c\x1d\x1e\x1f 0123456789()*/^+.eEx_" + "".join(chr(i) for i in range(128))
    return "".join(rng.choice(pool) for _ in range(n))


FLOAT_PIECES = ["", "", " ", "\t", "\n", "\x0b", "\x0c", "\r", "\x1c", "+", "-", "0", "1", "12", "007", ".", ".", "e", "E", "e+", "e-", "_", "__", "inf", "Inf",
                "infinity", "INFINITY", "nan", "NaN", "inity", "x", "0x", "1e5", "5", "\x00", "d", "f", "l", "in", "na", "i", "n"]


def floatish(rng):
    return "".join(rng.choice(FLOAT_PIECES) for _ in range(rng.randrange(0, 7)))


def parsing_cases(rng, n, tally, printed):
    # 1. printer output re-parsed
    strs = list(dict.fromkeys(printed))
    rng.shuffle(strs)
    strs = strs[:max(50, n)]
    tally.batch("reparse-printed", [(op, s) for s in strs for op in ("tokenize", "postfix", "parse")])
    # 2. sympy strings
    sy = sympy_strings(rng, int(n * 0.35))
    tally.batch("sympy-str", [(op, s) for s in sy for op in ("tokenize", "postfix", "parse")])
    # 2b. few atoms, both operand orders of the non-commutative operators, repeated sub-expressions (sharing in the parser)
    sh = [G.share_expr(rng, rng.choice([1, 2, 2, 3]))[0] for _ in range(int(n * 0.15))]
    tally.batch("sharing", [(op, s) for s in sh for op in ("postfix", "parse")])
    # 3. malformed
    base = sy + strs + FIXED_STRINGS
    mal = list(FIXED_STRINGS)
    for _ in range(int(n * 0.3)):
        r = rng.random()
        if r < 0.6 and base:
            mal.append(mutate(rng, rng.choice(base)[:200]))
        elif r < 0.85:
            mal.append(soup(rng))
        else:
            mal.append(rand_ascii(rng))
    tally.batch("malformed", [(op, s) for s in mal for op in ("tokenize", "postfix", "parse")])
    # 4. raw token lists
    tl = []
    for _ in range(int(n * 0.1)):
        toks = [rng.choice(TOKEN_VOCAB) for _ in range(rng.randrange(0, 10))]
        tl.append(("shunt", toks))
        tl.append(("commands", toks))
        r = py(SP.infix_to_postfix, toks)
        if r[0] == "ok":
            tl.append(("commands", r[1]))
    tally.batch("token-lists", tl)
    # 5. scanners
    sc = []
    for c in range(128):
        for s in ("-" + chr(c), "a-" + chr(c) + "b", chr(c), "--" + chr(c), chr(c) + "-" + chr(c)):
            sc.append(("resub_neg", s))
            sc.append(("resub_op", s))
            sc.append(("pyfloat", s))
            sc.append(("pyfloat", "1" + chr(c)))
            sc.append(("pyfloat", chr(c) + "1"))
            sc.append(("pyfloat", "1" + chr(c) + "1"))
    for _ in range(int(n * 0.1)):
        s = rand_ascii(rng) if rng.random() < 0.5 else mutate(rng, rng.choice(base)[:60])
        sc.append(("resub_neg", s))
        sc.append(("resub_op", s))
    for _ in range(int(n * 0.15)):
        sc.append(("pyfloat", floatish(rng)))
        sc.append(("pyfloat", floatish(rng).lower()))
    # the -N^ pass: number-ish pieces around "-" and "^"
    NB = ["-", "-", "^", "^", " ", "1", "2", "25", ".", ".5", "1.", "e", "E", "e5", "e-5", "e+", "+", "X_0", "(", ")", "\t", "1e-2", "\x1c"]
    for _ in range(int(n * 0.3)):
        sc.append(("resub_negbase", "".join(rng.choice(NB) for _ in range(rng.randrange(1, 9)))))
    for s in [x for x in base[:400]]:
        sc.append(("resub_negbase", s[:200]))
    tally.batch("scanners", sc)
    # 6. exhaustive small inputs (seed independent; budget scales with n)
    import itertools
    def words(alpha, maxlen, budget):
        out = []
        for k in range(maxlen + 1):
            if len(alpha) ** k > 8 * budget:
                break
            out.extend("".join(w) for w in itertools.product(alpha, repeat=k))
        return out
    ex = []
    for s in words(["1", ".", "e", "+", "-", "_", " ", "i", "n", "f", "a", "t", "y", "0"], 5, n):
        ex.append(("pyfloat", s))
    for s in words(["-", " ", "1", "x", "(", "*", "\n", ")"], 6, n):
        ex.append(("resub_neg", s))
        ex.append(("resub_op", s))
    for s in words(["-", "1", ".", "e", "^", " ", "+", "x"], 6, n):
        ex.append(("resub_negbase", s))
        ex.append(("tokenize", s))
    for s in words(["1", "X_0", " ", "+", "-", "*", "(", ")", "sin", "^", "2.5", "/"], 6, n):
        ex.append(("tokenize", s))
        ex.append(("postfix", s))
        ex.append(("parse", s))
    tally.batch("exhaustive-small", ex)


# ----------------------------------------------------------------------------- main

def main():
    n = int(sys.argv[1]) if len(sys.argv) > 1 else 2000
    seed = int(sys.argv[2]) if len(sys.argv) > 2 else 0
    rng = random.Random(seed)
    np.random.seed(seed % (2 ** 32))
    tally = Tally()
    printed = []
    printing_cases(rng, max(60, int(n * 0.3)), tally, printed)
    parsing_cases(rng, n, tally, printed)
    total = sum(tally.counts.values())
    print(f"c16_diff n_cases={n} seed={seed}: {total} comparisons, {len(tally.seen)} distinct inputs")
    for k in sorted(tally.counts):
        extra = ""
        if k in tally.errs:
            extra = "  python raised: " + ", ".join(f"{a}×{b}" for a, b in sorted(tally.errs[k].items()))
        if k in tally.ood:
            extra += f"  [outside model domain (non-ASCII): {tally.ood[k]}]"
        print(f"  {k:55s} {tally.counts[k]:7d}{extra}")
    nm = len(tally.mism)
    print(f"mismatches: {nm}")
    for m in tally.mism[:25]:
        if m is not None:
            print("  MISMATCH", {k: (v if not isinstance(v, str) or len(v) < 400 else v[:400] + "…") for k, v in m.items()})
    if os.environ.get("C16_JSON"):
        import json as _json
        with open(os.environ["C16_JSON"], "w") as f:
            _json.dump({"comparisons": total, "distinct": len(tally.seen), "counts": dict(tally.counts),
                        "python_errors": {k: dict(v) for k, v in tally.errs.items()}, "out_of_domain": dict(tally.ood),
                        "mismatches": [m for m in tally.mism[:10] if m is not None], "n_mismatches": nm}, f, default=str)
    sys.exit(0 if nm == 0 else 1)


if __name__ == "__main__":
    main()
