"""Independent exact-ish (80-digit mpmath) tree evaluator of command stacks with textbook domains.

Returns an mpf, or UNDEF when the real-valued expression is undefined at the point; raises Skip
when the point cannot be decided (astronomically large intermediates)."""
import mpmath

from harness import gen_stacks as G

mpmath.mp.dps = 80
UNDEF = "undef"
TINY = mpmath.mpf("1e-60")
HUGE_TRIG = mpmath.mpf("1e40")


class Skip(Exception):
    pass


def _is_int(v):
    # an exponent such as 18 * 3**-2 is the integer 2 up to the rounding of the 80-digit arithmetic
    r = mpmath.nint(v)
    return abs(v - r) <= mpmath.mpf("1e-60") * max(1, abs(v))


def mp_op(node, a, b):
    if node == G.ADD:
        return a + b
    if node == G.SUB:
        return a - b
    if node == G.MUL:
        return a * b
    if node == G.DIV:
        return UNDEF if b == 0 else a / b
    if node in (G.SIN, G.COS):
        # the working precision (80 digits) resolves the argument modulo 2 pi only while the argument itself is far below 10^80:
        # beyond 10^40 the value of sin / cos is not decidable here (sin(sinh(cosh(9))) is a 1759-digit argument)
        if abs(a) > HUGE_TRIG:
            raise Skip()
        return mpmath.sin(a) if node == G.SIN else mpmath.cos(a)
    if node == G.EXP:
        if a > 10 ** 6:
            raise Skip()
        return mpmath.exp(a)
    if node == G.LOG:
        return UNDEF if a == 0 else mpmath.log(abs(a))
    if node in (G.POW, G.SPOW):
        if node == G.SPOW:
            a = abs(a)
        if a == 0:
            if b > 0:
                return mpmath.mpf(0)
            if b == 0:
                return mpmath.mpf(1)
            return UNDEF
        if a < 0:
            if not _is_int(b):
                return UNDEF
            if abs(b) > 10 ** 6:
                raise Skip()
            return mpmath.power(a, int(mpmath.nint(b)))
        e = b * mpmath.log(a)
        if abs(e) > 10 ** 6:
            raise Skip()
        return mpmath.exp(e)
    if node == G.ABS:
        return abs(a)
    if node == G.SQRT:
        return mpmath.sqrt(abs(a))
    if node == G.SINH:
        if abs(a) > 10 ** 6:
            raise Skip()
        return mpmath.sinh(a)
    if node == G.COSH:
        if abs(a) > 10 ** 6:
            raise Skip()
        return mpmath.cosh(a)
    raise Skip()


def mp_eval(stack, x, c, want_max=False):
    """value of the last row; x, c sequences of numbers.  Memoised over the DAG (row values are
    defined by the recursive reading row -> operands, evaluated once each)."""
    n = len(stack)
    vals = [None] * n
    need = G.utilized(stack)
    mx = mpmath.mpf(0)
    for i, (node, p1, p2) in enumerate(stack):
        if not need[i]:
            continue
        if node == G.INTEGER:
            v = mpmath.mpf(int(p1))
        elif node == G.VARIABLE:
            v = mpmath.mpf(x[p1])
        elif node == G.CONSTANT:
            v = mpmath.mpf(c[p1])
        else:
            a = vals[p1]
            b = vals[p2] if node in G.ARITY2 else mpmath.mpf(0)
            if a is UNDEF or b is UNDEF:
                v = UNDEF
            else:
                try:
                    v = mp_op(node, a, b)
                except (OverflowError, ValueError, ZeroDivisionError, mpmath.libmp.NoConvergence):
                    raise Skip()
        if v is not UNDEF and v != 0 and abs(v) < TINY:
            # a value of magnitude 1e-60 at a point with O(1) data is the rounding residue of a cancellation (or of log(exp(1))):
            # whether the exact value is zero cannot be decided here, and zero matters (division, log, 0^y): undecidable point
            raise Skip()
        vals[i] = v
        if v is not UNDEF and abs(v) > mx:
            mx = abs(v)
    if want_max:
        return vals[n - 1], mx
    return vals[n - 1]


def int_overflow(stack):
    """does an integer-only sub-expression of the stack leave the int64 range when computed exactly?
    (classifier of the known int64-wrap finding of the CAS)"""
    from fractions import Fraction
    n = len(stack)
    vals = [None] * n
    lim = 2 ** 62
    for i, (node, p1, p2) in enumerate(stack):
        v = None
        try:
            if node == G.INTEGER:
                v = Fraction(int(p1))
            elif node >= 2:
                a = vals[p1]
                b = vals[p2] if node in G.ARITY2 else None
                if a is not None and (b is not None or node not in G.ARITY2):
                    if node == G.ADD:
                        v = a + b
                    elif node == G.SUB:
                        v = a - b
                    elif node == G.MUL:
                        v = a * b
                    elif node == G.DIV and b != 0:
                        v = a / b
                    elif node in (G.POW, G.SPOW) and b.denominator == 1 and abs(b) <= 4096:
                        base = abs(a) if node == G.SPOW else a
                        if base != 0 or b >= 0:
                            if abs(base.numerator) > 1 and abs(b) * max(base.numerator.bit_length(), base.denominator.bit_length()) > 200:
                                return True
                            v = base ** int(b)
                    elif node == G.ABS:
                        v = abs(a)
        except (ZeroDivisionError, OverflowError):
            v = None
        if v is not None and (abs(v.numerator) >= lim or v.denominator >= lim):
            return True
        vals[i] = v
    return False


def mp_eval_expr(e, x, cval):
    """value of a CAS `Expression` tree (simplification_backend/expression.py): n-ary + and *, terminals carry one
    integer operand; `cval(id)` gives the value of CONSTANT id.  Same conventions as mp_eval."""
    op = e.operator
    if op == G.INTEGER:
        return mpmath.mpf(int(e.operands[0]))
    if op == G.VARIABLE:
        return mpmath.mpf(x[int(e.operands[0])])
    if op == G.CONSTANT:
        return mpmath.mpf(cval(int(e.operands[0])))
    vals = [mp_eval_expr(o, x, cval) for o in e.operands]
    if any(v is UNDEF for v in vals):
        return UNDEF
    if any(v != 0 and abs(v) < TINY for v in vals):
        raise Skip()
    try:
        if op in (G.ADD, G.MUL):
            acc = mpmath.mpf(0 if op == G.ADD else 1)
            for v in vals:
                acc = acc + v if op == G.ADD else acc * v
            return acc
        if op in G.ARITY2:
            if len(vals) != 2:
                raise Skip()
            return mp_op(op, vals[0], vals[1])
        if len(vals) != 1:
            raise Skip()
        return mp_op(op, vals[0], mpmath.mpf(0))
    except (OverflowError, ValueError, ZeroDivisionError, mpmath.libmp.NoConvergence):
        raise Skip()
