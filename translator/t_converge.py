"""T6/T7 for evolutionary_optimizer.py: exit chain, predicate comparisons, loop phase order,
checkpoint statement order, controller constants  ->  Model/Generated/Converge.lean"""
import ast
from fractions import Fraction

from translate import _parse, lean_str, lean_int, _strip_doc

EO = "bingo/evolutionary_optimizers/evolutionary_optimizer.py"
CC = "bingo/evolutionary_optimizers/checkpoint_controller.py"

CMP = {ast.LtE: "le", ast.Lt: "lt", ast.GtE: "ge", ast.Gt: "gt", ast.Eq: "eq", ast.NotEq: "ne"}


def _cls(tree, name):
    for st in tree.body:
        if isinstance(st, ast.ClassDef) and st.name == name:
            return st
    return None


def _methods(cls):
    return {st.name: st for st in cls.body if isinstance(st, ast.FunctionDef)}


def _self_attr(e, name=None):
    return isinstance(e, ast.Attribute) and isinstance(e.value, ast.Name) and e.value.id == "self" and (name is None or e.attr == name)


def _self_call(e):
    """self.f(args) -> (f, args)"""
    if isinstance(e, ast.Call) and _self_attr(e.func):
        return e.func.attr, e.args
    return None


def _sym(e, local):
    """symbolic name of a simple operand"""
    if isinstance(e, ast.Name):
        return local.get(e.id, e.id)
    if _self_attr(e):
        return "self." + e.attr
    c = _self_call(e)
    if c and not c[1]:
        return "self." + c[0] + "()"
    if isinstance(e, ast.BinOp) and isinstance(e.op, ast.Sub):
        return f"({_sym(e.left, local)} - {_sym(e.right, local)})"
    if isinstance(e, ast.Constant) and isinstance(e.value, (int, float)):
        fr = Fraction(e.value)
        return f"lit:{fr.numerator}/{fr.denominator}"
    if isinstance(e, ast.Call) and isinstance(e.func, ast.Attribute) and e.func.attr == "total_seconds":
        return "elapsed"
    return "?" + ast.unparse(e)


def predicate(fn):
    """shape:  [if <param> is None: return False]  [local = expr]*  return <a> <cmp> <b>
    returns (none_guard, lhs, cmp, rhs) or None"""
    body = _strip_doc(fn.body)
    params = [a.arg for a in fn.args.args if a.arg != "self"]
    guard = False
    local = {}
    thr = params[0] if params else None
    if thr:
        local[thr] = "threshold"
    for st in body[:-1]:
        if isinstance(st, ast.If) and isinstance(st.test, ast.Compare) and isinstance(st.test.ops[0], ast.Is) \
                and isinstance(st.test.left, ast.Name) and st.test.left.id == thr \
                and isinstance(st.test.comparators[0], ast.Constant) and st.test.comparators[0].value is None \
                and len(st.body) == 1 and isinstance(st.body[0], ast.Return) \
                and isinstance(st.body[0].value, ast.Constant) and st.body[0].value.value is False and not st.orelse:
            guard = True
        elif isinstance(st, ast.Assign) and len(st.targets) == 1 and isinstance(st.targets[0], ast.Name):
            local[st.targets[0].id] = _sym(st.value, local)
        else:
            return None
    last = body[-1]
    if isinstance(last, ast.Return) and isinstance(last.value, ast.Compare) and len(last.value.ops) == 1 \
            and type(last.value.ops[0]) in CMP:
        return guard, _sym(last.value.left, local), CMP[type(last.value.ops[0])], _sym(last.value.comparators[0], local)
    return None


def call_names(stmts):
    """flattened sequence of `self.x(...)` / `obj.x(...)` call names in statement order (no descent into nested defs)"""
    out = []
    for st in stmts:
        for node in ast.walk(st) if not isinstance(st, (ast.While, ast.If, ast.For)) else []:
            if isinstance(node, ast.Call) and isinstance(node.func, ast.Attribute):
                out.append(node.func.attr)
        if isinstance(st, ast.If):
            out.append("if(")
            out += call_names([ast.Expr(st.test)])
            out.append("){")
            out += call_names(st.body)
            out.append("}")
            if st.orelse:
                out.append("else{")
                out += call_names(st.orelse)
                out.append("}")
    return out


def gen_converge():
    tree = _parse(EO)
    cls = _cls(tree, "EvolutionaryOptimizer")
    ms = _methods(cls)
    problems = []
    # ---- exit chain
    chain = []
    fn = ms.get("_check_exit_criteria")
    if fn is None:
        problems.append("no _check_exit_criteria")
    else:
        for st in _strip_doc(fn.body):
            if isinstance(st, ast.If):
                c = _self_call(st.test)
                ret = st.body[0] if len(st.body) == 1 and isinstance(st.body[0], ast.Return) else None
                status = None
                if ret is not None and isinstance(ret.value, ast.Tuple) and len(ret.value.elts) == 2 \
                        and isinstance(ret.value.elts[0], ast.Constant) and ret.value.elts[0].value is True:
                    mk = _self_call(ret.value.elts[1])
                    if mk and mk[0] == "_make_optim_result" and isinstance(mk[1][0], ast.Constant):
                        status = mk[1][0].value
                if c is None or status is None or st.orelse:
                    problems.append("exit chain: unrecognised if")
                else:
                    chain.append((c[0], status))
            elif isinstance(st, ast.Return):
                v = st.value
                if not (isinstance(v, ast.Tuple) and isinstance(v.elts[0], ast.Constant) and v.elts[0].value is False):
                    problems.append("exit chain: final return is not (False, ...)")
            else:
                problems.append("exit chain: unrecognised statement")
    # ---- predicates
    preds = []
    for name, _ in chain:
        f = ms.get(name)
        p = predicate(f) if f is not None else None
        if p is None:
            problems.append(f"predicate {name}: unrecognised shape")
            preds.append((name, False, "?", "?", "?"))
        else:
            preds.append((name,) + p)
    # ---- success statuses from _make_optim_result
    succ = []
    mo = ms.get("_make_optim_result")
    ngen_expr = "?"
    fitness_expr = "?"
    if mo is None:
        problems.append("no _make_optim_result")
    else:
        local = {}
        for st in _strip_doc(mo.body):
            if isinstance(st, ast.Assign) and isinstance(st.targets[0], ast.Name):
                local[st.targets[0].id] = _sym(st.value, {})
            if isinstance(st, ast.Return) and isinstance(st.value, ast.Call):
                args = st.value.args
                if len(args) >= 5:
                    ngen_expr = local.get(getattr(args[3], "id", ""), _sym(args[3], local))
                    fitness_expr = _sym(args[4], local)

        def walk_if(node):
            if isinstance(node, ast.If):
                test = node.test
                stat = None
                if isinstance(test, ast.Compare) and isinstance(test.left, ast.Name) and test.left.id == "status" \
                        and isinstance(test.ops[0], ast.Eq) and isinstance(test.comparators[0], ast.Constant):
                    stat = test.comparators[0].value
                for b in node.body:
                    if isinstance(b, ast.Assign) and isinstance(b.targets[0], ast.Name) and b.targets[0].id == "success" \
                            and isinstance(b.value, ast.Constant):
                        if b.value.value is True:
                            succ.append(stat if stat is not None else -1)
                for o in node.orelse:
                    if isinstance(o, ast.If):
                        walk_if(o)
                    elif isinstance(o, ast.Assign) and isinstance(o.targets[0], ast.Name) and o.targets[0].id == "success" \
                            and isinstance(o.value, ast.Constant) and o.value.value is True:
                        succ.append(-1)
        for st in mo.body:
            walk_if(st)
    # ---- evolve_until_convergence: loop conditions and phase order
    eu = ms.get("evolve_until_convergence")
    loops = []
    final_status = None
    pre = []
    if eu is None:
        problems.append("no evolve_until_convergence")
    else:
        body = _strip_doc(eu.body)
        seen_loop = False
        for st in body:
            if isinstance(st, ast.While):
                seen_loop = True
                t = st.test
                cond = "?"
                if isinstance(t, ast.Compare) and len(t.ops) == 1 and type(t.ops[0]) in CMP:
                    cond = f"{_sym(t.left, {})} {CMP[type(t.ops[0])]} {_sym(t.comparators[0], {})}"
                # argument of evolve
                ev_arg = "?"
                for node in ast.walk(st):
                    c = _self_call(node) if isinstance(node, ast.Call) else None
                    if c and c[0] == "evolve" and c[1]:
                        a = c[1][0]
                        ev_arg = a.id if isinstance(a, ast.Name) else ast.unparse(a)
                names = [n for n in call_names(st.body) if not n.startswith("_log") and n != "total_seconds"]
                loops.append((cond, ev_arg, names))
            elif not seen_loop:
                pre += [n for n in call_names([st]) if not n.startswith("_log") and n not in ("now",)]
            if isinstance(st, ast.Assign) and isinstance(st.targets[0], ast.Name) and st.targets[0].id == "result":
                c = _self_call(st.value)
                if c and c[0] == "_make_optim_result" and isinstance(c[1][0], ast.Constant):
                    final_status = c[1][0].value
    # ---- _update_best_fitness
    ub = ms.get("_update_best_fitness")
    ub_shape = "?"
    if ub is not None:
        ub_shape = " ; ".join(ast.unparse(s) for s in _strip_doc(ub.body))
    # ---- _update_checkpoints / _remove_stale_checkpoint statement order
    uc = ms.get("_update_checkpoints")
    uc_names = call_names(_strip_doc(uc.body)) if uc is not None else []
    uc_cmp = "?"
    if uc is not None:
        for node in ast.walk(uc):
            if isinstance(node, ast.Compare) and isinstance(node.left, ast.Call) and isinstance(node.left.func, ast.Name) \
                    and node.left.func.id == "len" and type(node.ops[0]) in CMP:
                uc_cmp = CMP[type(node.ops[0])]
    rs = ms.get("_remove_stale_checkpoint")
    rs_src = " ; ".join(ast.unparse(s) for s in _strip_doc(rs.body) if not (isinstance(s, ast.Expr) and "LOGGER" in ast.unparse(s))) if rs else "?"
    fname_fmt = "?"
    if uc is not None:
        for node in ast.walk(uc):
            if isinstance(node, ast.JoinedStr):
                fname_fmt = ast.unparse(node)
    # dump_to_file open mode
    df = ms.get("dump_to_file")
    open_mode = "?"
    if df is not None:
        for node in ast.walk(df):
            if isinstance(node, ast.Call) and isinstance(node.func, ast.Name) and node.func.id == "open" and len(node.args) >= 2 \
                    and isinstance(node.args[1], ast.Constant):
                open_mode = node.args[1].value
    # dump_to_file: does it write the target in place, or a temporary file that is renamed over the target?
    dump_writes = "?"
    dump_renames = False
    if df is not None:
        fname = [a.arg for a in df.args.args if a.arg != "self"][0]
        temps = {}
        for st in _strip_doc(df.body):
            if isinstance(st, ast.Assign) and isinstance(st.targets[0], ast.Name) and isinstance(st.value, ast.JoinedStr):
                uses = [v for v in st.value.values if isinstance(v, ast.FormattedValue) and isinstance(v.value, ast.Name) and v.value.id == fname]
                lits = "".join(v.value for v in st.value.values if isinstance(v, ast.Constant))
                if uses and lits:
                    temps[st.targets[0].id] = True
        order = []
        for node in ast.walk(df):
            if isinstance(node, ast.Call) and isinstance(node.func, ast.Name) and node.func.id == "open" and node.args:
                a = node.args[0]
                if isinstance(a, ast.Name) and a.id == fname:
                    dump_writes = "target"
                elif isinstance(a, ast.Name) and a.id in temps:
                    dump_writes = "temp"
            if isinstance(node, ast.Call) and isinstance(node.func, ast.Attribute) and node.func.attr in ("replace", "rename") \
                    and isinstance(node.func.value, ast.Name) and node.func.value.id == "os" and len(node.args) == 2:
                a, b = node.args
                if isinstance(a, ast.Name) and a.id in temps and isinstance(b, ast.Name) and b.id == fname:
                    dump_renames = True
        # the rename must come after the with-block that writes
        body = _strip_doc(df.body)
        widx = [i for i, st in enumerate(body) if isinstance(st, ast.With)]
        ridx = [i for i, st in enumerate(body) if isinstance(st, ast.Expr) and "os.replace" in ast.unparse(st) or isinstance(st, ast.Expr) and "os.rename" in ast.unparse(st)]
        if dump_renames and not (widx and ridx and widx[0] < ridx[0]):
            problems.append("dump_to_file: rename is not after the write")
    # ---- checkpoint controller: get_gens_to_evolve returns max(1, ...) or the frequency
    ctree = _parse(CC)
    ccls = _cls(ctree, "CheckpointController")
    cms = _methods(ccls) if ccls else {}
    gg = cms.get("get_gens_to_evolve")
    gens_returns = []
    if gg is not None:
        for node in ast.walk(gg):
            if isinstance(node, ast.Return):
                v = node.value
                if _self_attr(v, "_check_freq"):
                    gens_returns.append("freq")
                elif isinstance(v, ast.Call) and isinstance(v.func, ast.Name) and v.func.id == "max" \
                        and isinstance(v.args[0], ast.Constant):
                    gens_returns.append(f"max:{v.args[0].value}")
                else:
                    gens_returns.append("?" + ast.unparse(v))
    else:
        problems.append("no get_gens_to_evolve")

    def strs(xs):
        return "[" + ", ".join(lean_str(x) for x in xs) + "]"

    lines = ["/- GENERATED by translator/t_converge.py from evolutionary_optimizer.py / checkpoint_controller.py -/",
             "namespace Gen.Converge", ""]
    lines.append("def exitChain : List (String × Nat) := [" + ", ".join(f"({lean_str(n)}, {s})" for n, s in chain) + "]")
    lines.append("/-- (method, has `is None -> False` guard, lhs, comparison, rhs) -/")
    lines.append("def predicates : List (String × Bool × String × String × String) := [" + ", ".join(
        f"({lean_str(n)}, {'true' if g else 'false'}, {lean_str(l)}, {lean_str(c)}, {lean_str(r)})" for n, g, l, c, r in preds) + "]")
    lines.append("def successStatuses : List Int := [" + ", ".join(lean_int(s) for s in succ) + "]")
    lines.append(f"def finalStatus : Nat := {final_status if isinstance(final_status, int) else 999}")
    lines.append(f"def ngenExpr : String := {lean_str(ngen_expr)}")
    lines.append(f"def fitnessExpr : String := {lean_str(fitness_expr)}")
    lines.append("def preLoop : List String := " + strs(pre))
    lines.append("/-- (loop condition, argument of evolve, calls in the body in order) -/")
    lines.append("def loops : List (String × String × List String) := [" + ", ".join(
        f"({lean_str(c)}, {lean_str(a)}, {strs(n)})" for c, a, n in loops) + "]")
    lines.append(f"def updateBestFitness : String := {lean_str(ub_shape)}")
    lines.append("def updateCheckpointsCalls : List String := " + strs(uc_names))
    lines.append(f"def checkpointCountCmp : String := {lean_str(uc_cmp)}")
    lines.append(f"def removeStale : String := {lean_str(rs_src)}")
    lines.append(f"def checkpointName : String := {lean_str(fname_fmt)}")
    lines.append(f"def dumpOpenMode : String := {lean_str(str(open_mode))}")
    lines.append(f"def dumpWritesTo : String := {lean_str(dump_writes)}")
    lines.append(f"def dumpRenames : Bool := {'true' if dump_renames else 'false'}")
    lines.append("def gensToEvolveReturns : List String := " + strs(gens_returns))
    lines.append("def problems : List String := " + strs(problems))
    lines += ["", "end Gen.Converge", ""]
    return "\n".join(lines), {"problems": problems}


GENERATORS = {"Converge.lean": gen_converge}
