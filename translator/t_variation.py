"""T8: object-level facts of the variation operators -> Model/Generated/VariationGen.lean

* `AGraphCrossover.__call__` as a straight-line op list (copy / size / drawCut / tail store through the mutable view /
  ageMax / setAge / ret); any other statement shape becomes `.unsupported "<text>"`.
* `AGraphMutation.__call__` as an op list (copy / drawKind / apply / ret).
* every store into an array or attribute of an individual inside mutation.py / crossover.py, classified:
  `viaMutable`  target is `<x>.mutable_command_array[...]`
  `local`       target is a local array that is not an alias of an individual's array (new_command, stack rows of a
                fresh list, loop-local copies)
  `aliasMutable` target is a local name bound from `<x>.mutable_command_array` (the fork mutation's `stack`)
  `selfAttr`    `self.<attr> = ...` bookkeeping of the operator object
  `age`         `<x>.genetic_age = ...`
  `other`       anything else (a write that could bypass the fitness reset)
"""
import ast

from translate import _parse, lean_str, _strip_doc

MUT = "bingo/symbolic_regression/agraph/mutation.py"
CX = "bingo/symbolic_regression/agraph/crossover.py"


def _cls(tree, name):
    for st in tree.body:
        if isinstance(st, ast.ClassDef) and st.name == name:
            return st
    return None


def _method(cls, name):
    for st in cls.body:
        if isinstance(st, ast.FunctionDef) and st.name == name:
            return st
    return None


def _pidx(name, params):
    """index (1-based) of a parent parameter"""
    return params.index(name) + 1 if name in params else None


def crossover_ops(fn):
    params = [a.arg for a in fn.args.args][1:]          # parent_1, parent_2
    children = {}                                        # local name -> child index
    size_var = cut_var = age_var = None
    ops = []
    for st in _strip_doc(fn.body):
        txt = ast.unparse(st)
        done = False
        if isinstance(st, ast.Assign) and len(st.targets) == 1:
            tgt, val = st.targets[0], st.value
            # child_k = parent_k.copy()
            if isinstance(tgt, ast.Name) and isinstance(val, ast.Call) and isinstance(val.func, ast.Attribute) \
                    and val.func.attr == "copy" and not val.args and isinstance(val.func.value, ast.Name) \
                    and _pidx(val.func.value.id, params):
                children[tgt.id] = len(children) + 1
                ops.append(f".copy {children[tgt.id]} {_pidx(val.func.value.id, params)}")
                done = True
            # ag_size = parent_1.command_array.shape[0]
            elif isinstance(tgt, ast.Name) and ast.unparse(val) in [f"{p}.command_array.shape[0]" for p in params]:
                size_var = tgt.id
                ops.append(f".size {_pidx(ast.unparse(val).split('.')[0], params)}")
                done = True
            # cross_point = np.random.randint(1, ag_size - 1)
            elif isinstance(tgt, ast.Name) and size_var and ast.unparse(val) in (f"np.random.randint(1, {size_var} - 1)",
                                                                                 f"numpy.random.randint(1, {size_var} - 1)"):
                cut_var = tgt.id
                ops.append(".drawCut")
                done = True
            # child_k.mutable_command_array[cut:] = parent_j.command_array[cut:]
            elif isinstance(tgt, ast.Subscript) and cut_var and isinstance(tgt.value, ast.Attribute) \
                    and tgt.value.attr == "mutable_command_array" and isinstance(tgt.value.value, ast.Name) \
                    and tgt.value.value.id in children and ast.unparse(tgt.slice) == f"{cut_var}:":
                src = ast.unparse(val)
                for p in params:
                    if src == f"{p}.command_array[{cut_var}:]":
                        ops.append(f".tail {children[tgt.value.value.id]} {_pidx(p, params)}")
                        done = True
            # child_age = max(parent_1.genetic_age, parent_2.genetic_age)
            elif isinstance(tgt, ast.Name) and ast.unparse(val) in (f"max({params[0]}.genetic_age, {params[1]}.genetic_age)",
                                                                    f"max({params[1]}.genetic_age, {params[0]}.genetic_age)"):
                age_var = tgt.id
                ops.append(".ageMax")
                done = True
            # child_k.genetic_age = child_age
            elif isinstance(tgt, ast.Attribute) and tgt.attr == "genetic_age" and isinstance(tgt.value, ast.Name) \
                    and tgt.value.id in children and isinstance(val, ast.Name) and val.id == age_var:
                ops.append(f".setAge {children[tgt.value.id]}")
                done = True
            # self.<bookkeeping> = <no call on individuals>
            elif isinstance(tgt, ast.Attribute) and isinstance(tgt.value, ast.Name) and tgt.value.id == "self" \
                    and not any(isinstance(n, ast.Name) and (n.id in children or n.id in params) for n in ast.walk(val)):
                done = True
        elif isinstance(st, ast.Return) and isinstance(st.value, ast.Tuple) and len(st.value.elts) == 2 \
                and all(isinstance(e, ast.Name) and e.id in children for e in st.value.elts):
            ops.append(f".ret {children[st.value.elts[0].id]} {children[st.value.elts[1].id]}")
            done = True
        if not done:
            ops.append(f".unsupported {lean_str(txt)}")
    return ops


def mutation_ops(fn):
    params = [a.arg for a in fn.args.args][1:]          # parent
    child = alg = None
    ops = []
    for st in _strip_doc(fn.body):
        txt = ast.unparse(st)
        done = False
        if isinstance(st, ast.Assign) and len(st.targets) == 1 and isinstance(st.targets[0], ast.Name):
            tgt, val = st.targets[0].id, ast.unparse(st.value)
            if val == f"{params[0]}.copy()":
                child = tgt
                ops.append(".copy")
                done = True
            elif val == "self._mutation_function_pmf.draw_sample()":
                alg = tgt
                ops.append(".drawKind")
                done = True
        elif isinstance(st, ast.Expr) and alg and child and ast.unparse(st.value) == f"{alg}({child})":
            ops.append(".apply")
            done = True
        elif isinstance(st, ast.Return) and child and ast.unparse(st.value) == child:
            ops.append(".ret")
            done = True
        if not done:
            ops.append(f".unsupported {lean_str(txt)}")
    return ops


def store_sites(rel):
    """(function, target text, class) for every store whose target is a subscript or an attribute"""
    tree = _parse(rel)
    out = []
    for cls in [n for n in tree.body if isinstance(n, ast.ClassDef)]:
        for fn in [n for n in cls.body if isinstance(n, ast.FunctionDef)]:
            params = [a.arg for a in fn.args.args]
            # locals bound from <x>.mutable_command_array / from fresh values
            alias_mut, fresh = set(), set()
            for n in ast.walk(fn):
                if isinstance(n, ast.Assign) and len(n.targets) == 1 and isinstance(n.targets[0], ast.Name):
                    v = n.value
                    if isinstance(v, ast.Attribute) and v.attr == "mutable_command_array":
                        alias_mut.add(n.targets[0].id)
                    elif isinstance(v, ast.Call) or isinstance(v, (ast.List, ast.ListComp, ast.BinOp)):
                        fresh.add(n.targets[0].id)         # .copy(), np.array(...), list building, arithmetic
            for n in ast.walk(fn):
                targets = []
                if isinstance(n, ast.Assign):
                    targets = n.targets
                elif isinstance(n, (ast.AugAssign, ast.AnnAssign)):
                    targets = [n.target]
                for t in targets:
                    for tt in (t.elts if isinstance(t, ast.Tuple) else [t]):
                        if isinstance(tt, ast.Subscript):
                            base = tt.value
                            while isinstance(base, ast.Subscript):
                                base = base.value
                            if isinstance(base, ast.Attribute) and base.attr == "mutable_command_array":
                                k = "viaMutable"
                            elif isinstance(base, ast.Name) and base.id in alias_mut:
                                k = "aliasMutable"
                            elif isinstance(base, ast.Name) and (base.id in fresh or base.id in params[1:] and fn.name.startswith("_")
                                                                 and base.id in ("command", "stack", "new_stack", "utilized_commands")):
                                k = "local"
                            elif isinstance(base, ast.Name) and base.id not in params:
                                k = "local"
                            else:
                                k = "other"
                            out.append((fn.name, ast.unparse(tt), k))
                        elif isinstance(tt, ast.Attribute):
                            if isinstance(tt.value, ast.Name) and tt.value.id == "self":
                                k = "selfAttr"
                            elif tt.attr == "genetic_age":
                                k = "age"
                            else:
                                k = "other"
                            out.append((fn.name, ast.unparse(tt), k))
    return out


def gen_variation():
    problems = []
    lines = ["/- GENERATED by translator/t_variation.py from agraph/crossover.py and agraph/mutation.py -/",
             "import Model.VariationObjOps", "open Bingo.VarObj", "namespace Gen.Variation", ""]
    cx = _cls(_parse(CX), "AGraphCrossover")
    fn = _method(cx, "__call__") if cx else None
    if fn is None:
        problems.append("no AGraphCrossover.__call__")
        xo = [f".unsupported {lean_str('missing')}"]
    else:
        xo = crossover_ops(fn)
    lines.append(f"def crossoverOps : List XOp := [{', '.join(xo)}]")
    mu = _cls(_parse(MUT), "AGraphMutation")
    fn = _method(mu, "__call__") if mu else None
    if fn is None:
        problems.append("no AGraphMutation.__call__")
        mo = [f".unsupported {lean_str('missing')}"]
    else:
        mo = mutation_ops(fn)
    lines.append(f"def mutationOps : List MOp := [{', '.join(mo)}]")
    sites = store_sites(MUT) + store_sites(CX)
    lines.append("def storeSites : List (String × String × StoreKind) := [" +
                 ", ".join(f"({lean_str(f)}, {lean_str(t)}, .{k})" for f, t, k in sites) + "]")
    lines.append("def problems : List String := [" + ", ".join(lean_str(p) for p in problems) + "]")
    lines += ["", "end Gen.Variation", ""]
    return "\n".join(lines), {"problems": problems, "store_sites": len(sites)}


GENERATORS = {"VariationGen.lean": gen_variation}
