"""T9: static facts the hand-written object models rely on -> Model/Generated/SourceFacts.lean

* agraph.py (C18, C04): which methods read the cached simplified stack / constants WITHOUT a preceding
  `if self._modified: self._update()` guard; where `_notify_modification()` is called and whether the call is an unconditional
  top-level statement of the method.
* evaluation.py (C19): verbatim text of `Evaluation.__call__`, `_serial_eval`, `_multiprocess_eval`, `_fitness_job`.
* expression.py (C03): verbatim text of `Expression.__eq__` (the model's `beq` is structural equality; like-term collection
  depends on it).
* local_opt_fitness.py (C06): verbatim text of `LocalOptFitnessFunction.__call__`.
"""
import ast

from translate import _parse, lean_str, _strip_doc

AGRAPH = "bingo/symbolic_regression/agraph/agraph.py"
CACHE = ("_simplified_command_array", "_simplified_constants", "_needs_opt")


def _is_guard(st):
    return (isinstance(st, ast.If) and ast.unparse(st.test) == "self._modified" and not st.orelse and len(st.body) == 1
            and ast.unparse(st.body[0]) == "self._update()")


def _fn_label(fn):
    for d in fn.decorator_list:
        t = ast.unparse(d)
        if t.endswith(".setter"):
            return fn.name + ".setter"
    return fn.name


def agraph_facts():
    tree = _parse(AGRAPH)
    cls = next((n for n in tree.body if isinstance(n, ast.ClassDef) and n.name == "AGraph"), None)
    problems = []
    unguarded, guarded, notify = [], [], []
    if cls is None:
        return [], [], [], ["no class AGraph"]
    for fn in [n for n in cls.body if isinstance(n, ast.FunctionDef)]:
        reads = [n.lineno for n in ast.walk(fn) if isinstance(n, ast.Attribute) and isinstance(n.ctx, ast.Load)
                 and isinstance(n.value, ast.Name) and n.value.id == "self" and n.attr in CACHE]
        guards = [n.lineno for n in ast.walk(fn) if _is_guard(n)]
        if reads:
            if guards and min(guards) < min(reads):
                guarded.append(_fn_label(fn))
            else:
                unguarded.append(_fn_label(fn))
        body = _strip_doc(fn.body)
        for n in ast.walk(fn):
            if isinstance(n, ast.Call) and ast.unparse(n.func) == "self._notify_modification":
                top = any(isinstance(st, ast.Expr) and st.value is n for st in body)
                notify.append((_fn_label(fn), "unconditional" if top else "conditional"))
    return unguarded, guarded, notify, problems


def method_text(rel, cls_name, fn_name):
    tree = _parse(rel)
    scope = tree.body
    if cls_name:
        cls = next((n for n in tree.body if isinstance(n, ast.ClassDef) and n.name == cls_name), None)
        if cls is None:
            return None
        scope = cls.body
    fn = next((n for n in scope if isinstance(n, ast.FunctionDef) and n.name == fn_name), None)
    if fn is None:
        return None
    return " ; ".join(" ".join(ast.unparse(st).split("\n")) for st in _strip_doc(fn.body))


TEXTS = {
    "evaluationCall": ("bingo/evaluation/evaluation.py", "Evaluation", "__call__"),
    "evaluationSerial": ("bingo/evaluation/evaluation.py", "Evaluation", "_serial_eval"),
    "evaluationMultiprocess": ("bingo/evaluation/evaluation.py", "Evaluation", "_multiprocess_eval"),
    "evaluationFitnessJob": ("bingo/evaluation/evaluation.py", None, "_fitness_job"),
    "expressionEq": ("bingo/symbolic_regression/agraph/simplification_backend/expression.py", "Expression", "__eq__"),
    "localOptCall": ("bingo/local_optimizers/local_opt_fitness.py", "LocalOptFitnessFunction", "__call__"),
    "agraphNotifyModification": (AGRAPH, "AGraph", "_notify_modification"),
    "implicitCalculatePartials": ("bingo/symbolic_regression/implicit_regression.py", None, "_calculate_partials"),
    "implicitFitnessVector": ("bingo/symbolic_regression/implicit_regression.py", "ImplicitRegression", "evaluate_fitness_vector"),
    "getUtilizedCommands": ("bingo/symbolic_regression/agraph/simplification_backend/simplification_backend.py", None, "get_utilized_commands"),
    "reduceStack": ("bingo/symbolic_regression/agraph/simplification_backend/simplification_backend.py", None, "reduce_stack"),
    "agraphSetLocalOptParams": (AGRAPH, "AGraph", "set_local_optimization_params"),
    "agraphUpdate": (AGRAPH, "AGraph", "_update"),
    "hofUpdate": ("bingo/stats/hall_of_fame.py", "HallOfFame", "update"),
    "hofItemShouldBeAdded": ("bingo/stats/hall_of_fame.py", "HallOfFame", "_item_should_be_added"),
    "hofInsert": ("bingo/stats/hall_of_fame.py", "HallOfFame", "insert"),
    "pfUpdate": ("bingo/stats/pareto_front.py", "ParetoFront", "update"),
    "pfNotDominated": ("bingo/stats/pareto_front.py", "ParetoFront", "_not_dominated"),
    "pfFirstDominates": ("bingo/stats/pareto_front.py", "ParetoFront", "_first_dominates"),
    "loadOptimizerFromFile": ("bingo/evolutionary_optimizers/evolutionary_optimizer.py", None, "load_evolutionary_optimizer_from_file"),
    "parMigrationPartner": ("bingo/evolutionary_optimizers/parallel_archipelago.py", "ParallelArchipelago", "_get_migration_partner"),
    "parExchangeProgram": ("bingo/evolutionary_optimizers/parallel_archipelago.py", "ParallelArchipelago", "_population_exchange_program"),
    "parCoordinateMigration": ("bingo/evolutionary_optimizers/parallel_archipelago.py", "ParallelArchipelago", "_coordinate_migration_between_islands"),
    "serialExchangeProgram": ("bingo/evolutionary_optimizers/serial_archipelago.py", "SerialArchipelago", "_population_exchange_program"),
}


def agraph_attributes():
    """every instance attribute `self.<name>` stored anywhere in class AGraph (a new cache shows up here)"""
    tree = _parse(AGRAPH)
    cls = next((n for n in tree.body if isinstance(n, ast.ClassDef) and n.name == "AGraph"), None)
    names = set()
    if cls is not None:
        for n in ast.walk(cls):
            if isinstance(n, ast.Attribute) and isinstance(n.ctx, ast.Store) and isinstance(n.value, ast.Name) and n.value.id == "self":
                names.add(n.attr)
    return sorted(names)


def gen_facts():
    unguarded, guarded, notify, problems = agraph_facts()
    lines = ["/- GENERATED by translator/t_facts.py -/", "namespace Gen.SourceFacts", "",
             "/-- AGraph methods that read the cached simplified stack / constants with no `if self._modified: self._update()` before the first read -/",
             "def unguardedCacheReaders : List String := [" + ", ".join(lean_str(x) for x in unguarded) + "]",
             "/-- AGraph methods whose first cache read is preceded by the guard -/",
             "def guardedCacheReaders : List String := [" + ", ".join(lean_str(x) for x in guarded) + "]",
             "/-- call sites of `self._notify_modification()` in AGraph: (method, unconditional top-level statement or not) -/",
             "def notifySites : List (String × String) := [" + ", ".join(f"({lean_str(a)}, {lean_str(b)})" for a, b in notify) + "]"]
    lines.append("/-- every attribute stored on `self` anywhere in class AGraph -/")
    lines.append("def agraphAttributes : List String := [" + ", ".join(lean_str(x) for x in agraph_attributes()) + "]")
    for name, (rel, cls, fn) in TEXTS.items():
        t = method_text(rel, cls, fn)
        if t is None:
            problems.append(f"{rel}: {cls}.{fn} not found")
            t = "<missing>"
        lines.append(f"def {name} : String := {lean_str(t)}")
    lines.append("def problems : List String := [" + ", ".join(lean_str(p) for p in problems) + "]")
    lines += ["", "end Gen.SourceFacts", ""]
    return "\n".join(lines), {"problems": problems, "unguarded": unguarded, "notify_sites": len(notify)}


GENERATORS = {"SourceFacts.lean": gen_facts}
