#!/usr/bin/env python3
"""Apply a seeded change to /repo, run the checks for its property (and optionally others), undo it.

usage: tools/try_seed.py seeded/<id> [--props C01,C02] [--tier quick]
Prints one line per check: detected / missed.  /repo is always restored (git checkout -- .).
"""
import json, os, subprocess, sys

def in_worktree(patch, props, tier):
    wt = f"/tmp/tryseed_wt_{os.getpid()}"
    subprocess.run(["git", "-C", "/repo", "worktree", "add", "-q", "--detach", wt, "HEAD"], check=True)
    results = {}
    try:
        wip = subprocess.run(["git", "-C", "/repo", "diff"], capture_output=True, text=True).stdout
        if wip.strip():
            subprocess.run(["git", "-C", wt, "apply"], input=wip, text=True, check=True)
        r = subprocess.run(["git", "-C", wt, "apply", patch], capture_output=True, text=True)
        if r.returncode != 0:
            print("patch does not apply:", r.stderr[:300]); sys.exit(2)
        env = dict(os.environ, BINGO_REPO=wt)
        for p in props:
            out = subprocess.run(["./check", p, "--tier", tier], cwd="/verif", capture_output=True, text=True, env=env)
            lines = [l for l in out.stdout.split("\n") if l.startswith("VIOLATION") or l.startswith(p + " [")]
            results[p] = {"exit": out.returncode, "lines": lines[:4]}
            print(p, "DETECTED" if out.returncode == 1 else ("MISSED" if out.returncode == 0 else f"INFRA({out.returncode})"), "|", " || ".join(l[:160] for l in lines[:3]))
    finally:
        subprocess.run(["git", "-C", "/repo", "worktree", "remove", "--force", wt])
    return results


def main():
    d = sys.argv[1]
    meta = json.load(open(os.path.join(d, "meta.json")))
    props = [meta["property"]]
    tier = "quick"
    for i, a in enumerate(sys.argv):
        if a == "--props":
            props = sys.argv[i + 1].split(",")
        if a == "--tier":
            tier = sys.argv[i + 1]
    patch = os.path.abspath(os.path.join(d, "patch.diff"))
    st = subprocess.run(["git", "-C", "/repo", "status", "--porcelain", "--untracked-files=no"], capture_output=True, text=True).stdout
    if st.strip() or "--worktree" in sys.argv:
        # /repo carries work in progress (or the caller asked for it): run against a scratch worktree that mirrors /repo's
        # working tree (HEAD + uncommitted diff) with the seeded change on top; /repo itself is not touched
        return in_worktree(patch, props, tier)
    r = subprocess.run(["git", "-C", "/repo", "apply", patch], capture_output=True, text=True)
    if r.returncode != 0:
        print("patch does not apply:", r.stderr[:300]); sys.exit(2)
    results = {}
    try:
        for p in props:
            out = subprocess.run(["./check", p, "--tier", tier], cwd="/verif", capture_output=True, text=True)
            lines = [l for l in out.stdout.split("\n") if l.startswith("VIOLATION") or l.startswith(p + " [")]
            results[p] = {"exit": out.returncode, "lines": lines[:4]}
            print(p, "DETECTED" if out.returncode == 1 else ("MISSED" if out.returncode == 0 else f"INFRA({out.returncode})"), "|", " || ".join(l[:160] for l in lines[:3]))
    finally:
        subprocess.run(["git", "-C", "/repo", "checkout", "--", "."])
    return results

if __name__ == "__main__":
    main()
