#!/usr/bin/env python3
"""Run the property's quick check against every confirmed seeded change; write seeded/RESULTS.json and seeded/README.md"""
import json, os, subprocess, sys
os.chdir("/verif")
rows = []
only = None
for i, a in enumerate(sys.argv):
    if a == "--only":           # re-run these ids only and merge into the existing RESULTS.json
        only = set(sys.argv[i + 1].split(","))
        rows = [r for r in json.load(open("seeded/RESULTS.json")) if r["id"] not in only]
for d in sorted(os.listdir("seeded")):
    if only is not None and d not in only:
        continue
    if not os.path.isdir(os.path.join("seeded", d)) or not os.path.exists(os.path.join("seeded", d, "meta.json")):
        continue
    meta = json.load(open(os.path.join("seeded", d, "meta.json")))
    p = subprocess.run(["tools/try_seed.py", os.path.join("seeded", d), "--worktree"], capture_output=True, text=True)
    line = [l for l in p.stdout.split("\n") if l.startswith(meta["property"] + " ")]
    verdict = line[0].split()[1] if line else "?"
    how = "failing input" if ("VIOLATION" in (line[0] if line else "") and "no-failing-input-found" not in line[0].split("||")[0]) else \
          ("broken theorem/correspondence, no failing input" if "no-failing-input-found" in (line[0] if line else "") else "")
    rows.append({"id": d, "property": meta["property"], "summary": meta.get("summary", ""), "needs": meta.get("needs", ""),
                 "files": meta.get("files", []), "verdict": verdict, "how": how})
    print(d, verdict, how, flush=True)
rows.sort(key=lambda r: r["id"])
json.dump(rows, open("seeded/RESULTS.json", "w"), indent=1)
with open("seeded/README.md", "w") as f:
    f.write("# Seeded changes (each breaks one property, compiles, passes the existing suite; confirmed in a scratch worktree)\n\n")
    f.write("| id | property | change | needs | check verdict |\n|---|---|---|---|---|\n")
    for r in rows:
        f.write(f"| {r['id']} | {r['property']} | {str(r['summary']).replace('|', '/')[:160]} | {str(r['needs']).replace('|', '/')[:160]} | {r['verdict']} {('(' + r['how'] + ')') if r['how'] else ''} |\n")
