#!/usr/bin/env python3
"""Regenerates MANIFEST.json from the table below (kept valid at all times)."""
import json, os
HERE = os.path.dirname(os.path.dirname(os.path.abspath(__file__)))
PROPS = [f"C{i:02d}" for i in range(1, 21)]

COMMON_NOTE = ("Trusted: Lean 4.33 kernel (+ leanchecker in the thorough tier), axioms propext/Classical.choice/Quot.sound only "
               "(audited by #print axioms on every run), Mathlib definitions where imported, translator/*.py (incl. t_facts.py: texts and shape facts of the methods the hand-written "
               "models mirror, pinned by the Cxx Facts theorems), harness/*.py. ")

CLAIMED = {
 "C01": dict(
   text="Lean theorems, for every stack/sharing pattern/scalar type: the row-by-row DAG sweep equals evaluating the unfolded tree of every row "
        "(fwd_eq_den), the per-node rules REGENERATED from operator_eval.py denote the 17 mathematical functions over the reals (den_eq_math, fwd_eq_math), "
        "a well-formed stack raises nothing but the Python-float ZeroDivisionError (wf_fwd_some, only_exception_is_pydiv, evalpy_ok_erase). "
        "Tie: translator (operator tables and rules) + row-level trace validation of the real backend against the compiled model + an independent 40-digit oracle on the real code.",
   note=COMMON_NOTE + "Modelled, not verified: IEEE-754/numpy elementary functions (validated per row to 1e-12 against mpmath), numpy broadcasting on the shapes used, array-valued constants excluded.",
   technique="Lean 4 proof (induction over the stack) over a model whose operator tables are regenerated from source; trace-validated against the implementation",
   design="5/C01"),
 "C02": dict(
   text="Lean theorems: the reverse sweep of evaluation_backend on any well-formed stack (any length, any sharing/fan-out) is simulated step by step by an abstract "
        "reverse-mode sweep whose result equals the forward tangent (reverse_is_tangent_stack), each adjoint rule REGENERATED from operator_eval.py adds R times the true "
        "partial (HasDerivAt, rules_are_partials), hence the returned x- and c-gradients are the true partial derivatives wherever every row is differentiable "
        "(gradient_correct_x/_c), unused columns are exactly zero for every scalar type (unused_zero), the value equals plain evaluation (value_same). "
        "Tie: translator + trace validation of every reverse step of the real backend + forward-mode 60-digit oracle on the real code.",
   note=COMMON_NOTE + "Modelled: IEEE/numpy arithmetic (oracle tolerance 1e-6 of the absolute path sum). Known finding F1c (gradient exception path) listed in known_findings.json.",
   technique="Lean 4 proof (potential-function invariant over the reverse sweep + Mathlib HasDerivAt chain rule) over rules regenerated from source; trace-validated",
   design="5/C02"),
 "C03": dict(
   text="Lean theorems for reduction: get_utilized_commands marks exactly the reachable rows, reduce_stack's output has that many rows, is well-formed, fully utilized and "
        "evaluates identically for every scalar type (reduce_eval*, unused_irrelevant*), AGraph._update's renumbering yields a backend-well-formed stack. "
        "Lean theorems for the algebraic simplifier (Props/C03Cas.lean) over an executable port of the whole CAS with a partial real semantics and the refinement order "
        "'defined => defined and equal': on the fragment in which every POWER has an integer-literal exponent (it contains every stack without power operators) all eight mutually "
        "recursive functions of automatic_simplification.py, quotient/difference/logarithm/dispatch, optional modifications, constant grouping and constant folding are sound "
        "(automaticSimplify_sound, *_sound, foldConstants_sound), both directions of the stack<->expression interpreter incl. 'the root is the last row despite sharing' "
        "(buildCas_den, root_is_last, interp_den), no new constant or variable ids, well-formed output, and end to end for simplify_stack INCLUDING its fallback to reduction on a caught "
        "overflow: a constant-free stack is preserved wherever it is defined (simplify_noconst_sound); with constants the result has no more constants and for every setting of the original "
        "constants some setting of the new ones agrees wherever the original is defined (simplify_consts_sound). TERMINATION (Props/C03Term.lean): for every well-formed stack, all "
        "operators and real-exponent powers included, every pass and the whole pipeline terminate (simplify_terminates, automaticSimplify_terminates, foldConstants_terminates with explicit "
        "bound, ltF_terminates), by a three-level measure on expressions; results do not depend on the fuel of the port (fuel_stable); the three ill-formed inputs on which the recursion "
        "diverges are exhibited and shown unreachable from a stack (buildCas_wf). Tie: exact output correspondence of reduce_stack / _update / simplify_stack with the Lean port on every run; "
        "oracle: 80-digit evaluation before/after and an exact (affine) witness search for folded constants.",
   note=COMMON_NOTE + "NOT a theorem (kept as `def simplify_sound_Full : Prop`, validated by the oracle): soundness with real-exponent powers, where only 'agree where both are finite' can hold and that "
        "relation is not transitive pass by pass. Termination is proved as 'some fuel suffices and the result is then independent of the fuel'; that the particular fuel the port passes "
        "(fuelFor) suffices is checked by the correspondence (a fuel error of the port would disagree with Python). The proof attempts found and led to the repair of F18, F19 and F3b.",
   technique="Lean 4 proof (loop invariants of utilized/reduce; fuel induction over the mutually recursive simplifier with a refinement order; well-founded level measure for termination) + exact correspondence with the Lean port; differential oracle for the unproved clause",
   design="5/C03, 12.2"),
 "C10": dict(
   text="Lean theorems over verbatim models of HallOfFame/ParetoFront (bisect_right included): after any sequence of updates the keys are the m smallest non-NaN keys ever "
        "offered, sorted, ties in arrival order, never NaN (exact, sorted_stable, no_nan, update_some); the Pareto front is exactly the non-dominated set of everything "
        "offered, an antichain, and with a symmetric similarity filter has no two similar members (pf_exact, pf_antichain, pf_no_similar). "
        "Tie: state-by-state correspondence of random operation histories on the real classes + independent oracle.",
   note=COMMON_NOTE + "Keys are floats embedded order-preservingly in Int (NaN = none). deepcopy is Python's.",
   technique="Lean 4 proof (refinement to sorted-multiset / non-dominated-set specs) + history correspondence",
   design="5/C10"),
 "C15": dict(
   text="Lean theorems: the island scan returns a member with minimal non-NaN key for every arrangement, NaN only if all are NaN (island_scan, island_scan_perm); the same scan over "
        "per-island bests gives the archipelago minimum (archipelago_best); Python min()/sort are NOT NaN-safe (pymin_not_nan_safe, the defect fixed in /repo); the predictor island's reported best and "
        "hall-of-fame candidates carry the full-data fitness of the member the scan selects (fpi_best_true, fpi_hof_true, method texts pinned by gen_fpi_shapes). Object level (Props/C15Query.lean, "
        "Model/BestQuery.lean): Island.get_best_individual INCLUDING its evaluation step, for every population whose flagged members are fresh, every generational age and evaluation mode: no exception on a "
        "non-empty population, the reported individual is a member, marked evaluated, carries the fitness function's value for its own genome, and that value is minimal among the non-NaN values of all genomes "
        "(island_best_some, island_best_true, prepare_evaluated, prepare_genomes). "
        "Tie: scripted populations on real Island/SerialArchipelago vs the model (keys in every arrangement; every flag state x age 0/later x redundant or not), independent oracle, predictor-island "
        "full-data fitness recomputed, queries at the same age with a population change in between.",
   note=COMMON_NOTE + "ParallelArchipelago's copy of the scan is exercised under C12. Repaired defects F4 and F21 are listed as fixed in known_findings.json.",
   technique="Lean 4 proof (fold invariant, permutation invariance, evaluation-step postcondition) + correspondence on scripted populations in every flag state",
   design="5/C15, 12.2"),
 "C13": dict(
   text="Lean theorems over a file-system step model whose step order / file opened / rename are REGENERATED from evolutionary_optimizer.py: at every crash point (every prefix of the call's "
        "steps, fresh or resumed disk) once a complete checkpoint exists one always exists, of a generation <= the one being written (one_complete, complete_persists), at most num+1 files of "
        "the call exist (bounded), only files the call completed earlier are removed (own_files_only), no step fails (never_raises); the pre-fix in-place write is shown unsafe. "
        "Tie: translator + crash injection before EVERY file operation of the real code compared with the model's prefix states. Lossless/transparent clauses are validated only.",
   note=COMMON_NOTE + "Assumed: open('wb') truncates, os.replace/os.remove atomic; dill round trip and RNG transparency validated on samples (islands, AGraph islands, serial archipelagos), not proved.",
   technique="Lean 4 proof (invariant over all prefixes of the generated step sequence) + exhaustive crash-point correspondence",
   design="5/C13"),
 "C14": dict(
   text="Lean theorems over a total model of evolve_until_convergence whose exit chain, comparison operators, success statuses and loop order are REGENERATED from the source: always returns "
        "(terminates), >= min generations, status names a criterion that holds at return (status_truthful), success <=> best <= threshold incl. NaN (success_iff), reported fitness/ngen "
        "(reported), no round after a check at which a criterion held (no_round_after_hit, stops_at_hit), for any carried state (repeated calls). "
        "Tie: translator + exact correspondence with the real method (real CheckpointController) under a scripted optimizer and fake clock.",
   note=COMMON_NOTE + "The world (best fitness, evaluation count, clock, controller estimate) is an arbitrary oracle; gens>=1 is justified by the generated return shapes of get_gens_to_evolve.",
   technique="Lean 4 proof (fuel-bounded loops, trace predicate) over tables regenerated from source + exact correspondence",
   design="5/C14"),
 "C05": dict(
   text="Lean theorems: an abstract interpreter over phase lists is sound w.r.t. a nondeterministic concrete semantics (abstract_sound, step_end_to_end, histories): if it accepts a "
        "generational step, then in EVERY execution (all populations, all variation/selection choices, any deterministic fitness) every fitness read is of an evaluated individual and the "
        "returned population is evaluated and fresh; the phase lists REGENERATED from the EA sources are accepted from an unevaluated entry population (generated_steps_safe); a hall-of-fame "
        "update at any point of a history reads evaluated individuals only (hof_update_anywhere). The variation phase is no longer an assumption (Props/C05Var.lean): VarAnd, VarOr and "
        "AddRandomIndividuals are modelled statement by statement (verbatim text pinned, gen_variation_shapes) and for every population, offspring count and sequence of random draws their "
        "offspring are fresh and of the stated number (varAnd_fresh, varOr_fresh, varOr_unflagged, addRandom_fresh, *_length, variation_step_sound), given the operator contract, which is "
        "proved for SinglePointCrossover / SinglePointMutation (sv_operator_contract) and derived for AGraphCrossover / AGraphMutation from the C04 object-level theorems (agraph_operators_fresh). "
        "Tie: translator (phase order, method texts) cross-checked against the observed call sequence of the real objects; scripted-draw correspondence of the real VarAnd / VarOr / "
        "AddRandomIndividuals / single-point operators with the model (values, stored fitness, flag, age of every offspring; parents intact; no aliasing); read monitor on Chromosome.fitness + "
        "end-of-generation audit on real runs.",
   note=COMMON_NOTE + "Containers are values (aliasing between the selection result and its source is not modelled; the correspondence checks object identity on the real code). Known finding F5 (MuCommaLambda diagnostics) in known_findings.json.",
   technique="Lean 4 proof (soundness of an abstract interpreter, induction over histories; induction over the loops of the variation operators) over phase lists regenerated from source; scripted-draw correspondence and read monitor on the implementation",
   design="5/C05, 12.2"),
 "C07": dict(
   text="Lean theorems over the metric and metric-derivative formulas REGENERATED from fitness_function.py/gradient_mixin.py: each metric equals its definition (metrics_defs), is minimal at zero "
        "residual (minimal_at_zero*), each derivative function is the HasDerivAt-derivative of its metric along any differentiable residual family (gradient_correct_mse/rmse/mae/nmll), relative "
        "scaling of vector and Jacobian (jacobian_assembly), every entry point increments eval_count exactly once (count_once over the generated increment table). "
        "Tie: translator + formula-level correspondence + 80-digit oracle on real ExplicitRegression objects.",
   note=COMMON_NOTE + "Float summation order and accuracy validated (1e-10 / 1e-8 / 1e-6). use_linear_correction mode is not covered.",
   technique="Lean 4 proof (Mathlib HasDerivAt) over formulas regenerated from source + correspondence",
   design="5/C07"),
 "C08": dict(
   text="Lean theorems over verbatim models of AgeFitness, Tournament, DeterministicCrowding: age-fitness only permutes its list, returns target..n members, every removal is NaN or dominated by an "
        "individual alive and unmarked at the end of that round -- including the selection_size>2 branch where an already-marked individual removes another (af_round_justified, "
        "af_removal_justified), terminates within n*WORST_CASE_FACTOR rounds (constant regenerated); tournament winners are members and minimal; crowding slots hold the parent or the paired child, "
        "child iff strictly better or non-NaN vs NaN; probabilistic crowding / tournament return members in the promised number for every outcome of the random numbers "
        "(prob_crowd_member_count, prob_tour_member_count, searchLeft_lt). Tie: logged draws replayed in the model, exact final order; identity-based oracle replaying every removal.",
   note=COMMON_NOTE + "Random draws are oracle inputs under the contract 'duplicate-free, in range'. The float weights of the probabilistic operators (exp(f - median)) are not modelled: the coin / "
        "searchsorted index is logged; F14 (linear scale with negative keys) not claimed.",
   technique="Lean 4 proof (loop invariants, well-founded chain of justifications) + exact correspondence under logged draws",
   design="5/C08"),
 "C11": dict(
   text="Lean theorems over a model of serial migration whose fraction is REGENERATED from the source: the multiset of individuals over all islands is preserved, equal sizes stay equal, paired "
        "islands are fully unflagged, pairs are disjoint with exactly n%2 islands sitting out (serial_migration, exchange_*, pairing), round-half-even modelled exactly. "
        "PARALLEL exchange (Props/C11Par.lean) over the message-level model of ParallelArchipelago._coordinate_migration_between_islands (send to partner, blocking receive from partner): for every "
        "number of ranks, every population, every permutation broadcast as the island order and EVERY interleaving of the ranks, no reachable state is a deadlock (xchg_no_deadlock, xchg_progress), "
        "every run has exactly potential(initial) <= 2R steps (xchg_terminates, xchg_run_length), a maximal run is final (xchg_maximal_final, xchg_completes), and in the final state no message is "
        "in flight, each rank holds its kept part followed by its partner's dumped part, the union of all populations is a permutation of the initial union and partners of equal size keep "
        "their sizes (xchg_result, xchg_conserved, xchg_sizes); examples show that a duplicate or out-of-range entry in the broadcast order does deadlock. "
        "Tie: real SerialArchipelago migrations with logged shuffles compared exactly; the parallel exchange through the C12 trace validation on the mpi4py stand-in; generational age by oracle and source-shape fact.",
   note=COMMON_NOTE + "np.random.shuffle is an arbitrary permutation (logged); MPI delivery is reliable and non-overtaking per (source, tag).",
   technique="Lean 4 proof (List.Perm invariants; inductive invariant + potential function over all interleavings of the exchange) + exact correspondence under logged shuffles",
   design="5/C11, 12.2"),
 "C19": dict(
   text="Lean theorems over Evaluation: serial phase postcondition per slot and exact count (serial_phase, count_delta), multiprocess evaluation equals serial evaluation for EVERY completion order "
        "(multiprocess_phase), totals over islands/archipelagos (island_total, archipelago_total); the texts of Evaluation.__call__ / _serial_eval / _multiprocess_eval / _fitness_job are "
        "regenerated and pinned (C19Facts). For fitness functions that CHANGE the individual they are called on (local optimization; Props/C19Effect.lean over Model/EvalEffect.lean): the slot holds "
        "the individual the function was applied to, with its changed state, the returned fitness and the flag (serial_phase_effect), the count is the sum of the per-call costs at the states "
        "before evaluation (count_delta_effect), multi-process = serial for every completion order (multiprocess_phase_effect), under an idempotent function every evaluated slot is consistent "
        "- its stored fitness is the function's value for the individual it holds (phase_consistent, idempotent_needed), and a write-back of the fitness value alone breaks that "
        "(lossy_breaks_consistency, lossy_invisible_without_effect). Tie: real Evaluation (serial and real worker pools with delays, RandomSubsetEvaluation) vs the model for a pure and for a "
        "state-changing fitness function; counting wrappers around the base fitness entry points incl. local optimization; islands / archipelagos over histories with regenerated populations.",
   note=COMMON_NOTE + "multiprocessing.Pool returns each job's own result. F13 (template counter copied) is repaired and listed as fixed in known_findings.json.",
   technique="Lean 4 proof (per-slot postconditions, permutation argument over the completion order, consistency invariant for effectful fitness functions) + correspondence with the real phase incl. worker pools",
   design="5/C19, 12.2"),
 "C06": dict(
   text="Lean theorems with the optimizer as an ARBITRARY oracle (any trial sequence, any final vector): the value returned by the locally-optimizing wrapper is the base fitness of the "
        "individual with the constants it holds afterwards, it no longer requests optimization, parameter count preserved, untouched when it did not need optimization, exact count of base "
        "invocations (reported_is_base, no_longer_needs, param_count, untouched, call_count); re-fitting keeps the best by NaN-aware < and is never worse than the first fit (refit_not_worse). "
        "Tie: the real wrapper with real scipy (all 8 listed methods) observed from outside vs the model + oracle on the real objects.",
   note=COMMON_NOTE + "scipy is an oracle; ScipyOptimizer's TypeError fallback path is exercised by the harness, not modelled separately.",
   technique="Lean 4 proof parametric in the optimizer + correspondence with real scipy runs",
   design="5/C06"),
 "C09": dict(
   text="Lean theorems composing C08/C10/C11/C05: age-fitness selection and deterministic crowding never make the best non-NaN key worse (af_selection_keeps_best, crowding_keeps_best), hence one "
        "AgeFitnessEA / GeneralizedCrowdingEA step, any number of steps, and any interleaving of migrations and per-island steps of a serial archipelago (runs, archipelago); an unfiltered hall of "
        "fame's best is never worse than the best ever offered (hof, hof_updates); determinism is necessary (nondeterministic_counterexample). "
        "Tie: the correspondence checks of C05/C08/C10/C11 + end-to-end oracle on real islands and archipelagos.",
   note=COMMON_NOTE + "With a similarity filter the hall-of-fame claim is false (machine-checked counterexample) and not claimed.",
   technique="Lean 4 proof (composition of proved selection/migration/hall-of-fame theorems) + end-to-end oracle",
   design="5/C09"),
 "C18": dict(
   text="Lean theorems over the AGraph object as a state machine with the simplifier as a parameter: the cache invariant is preserved by every legal operation, and after any legal history every "
        "refreshed observation equals that of a freshly constructed object with the same command array, setting and constants (obs_eq_fresh*, inv_run*), writes clear the fitness, copies are "
        "equal and independent. Tie: operation sequences on real AGraphs (reduce and CAS) vs the model instantiated with the Lean models of reduce_stack and the CAS, state by state; oracle "
        "against fresh objects on all observations.",
   note=COMMON_NOTE + "Repaired defect F22 (an equation built from a string could not be copied before its first read) is listed as fixed in known_findings.json. setConsts is legal only with the current parameter count; the never-assigned empty AGraph is outside the statement (machine-checked counterexample for arbitrary simplifiers).",
   technique="Lean 4 proof (invariant + refinement to the fresh object) + state-by-state correspondence",
   design="5/C18"),
 "C20": dict(
   text="Lean theorems over an exact-rational model of the Savitzky-Golay/Gram filter and _calculate_partials with constants REGENERATED from the call site: the centred weight column is exact on "
        "cubics for every centre (weights, cubic_exact), interior outputs use that column (savgol_interior, savgol_cubic), retained rows = rows minus first 3/last 4 of each NaN-separated "
        "segment, for any number of segments, each segment's output depends on its own samples only (retained_rows, segments_independent, partials_cubic); implicit fitness rows lie in [-1,1], "
        "mae in [0,1] or non-finite, invariant under non-zero scaling, zero on invariants (fitness_range, mae_*). Tie: impulse responses and random trajectories of the real code vs exact rationals.",
   note=COMMON_NOTE + "binary64 evaluation of the weights/convolution validated to 1e-9.",
   technique="Lean 4 proof (kernel-checked rational identities lifted by linearity) + correspondence",
   design="5/C20"),
 "C17": dict(
   text="Lean theorems for the decision logic: the sampled operator is items[index], so registration order is part of the seed-to-result function (order_sensitivity); for the container and "
        "iteration the source uses (REGENERATED: ordered default, sets iterated sorted) the registration order is the same under every hash seed (registration_deterministic, "
        "user_set_deterministic), while a hash-ordered set is not (unsorted_set_depends_on_seed, the defect fixed in /repo); multiprocess evaluation = serial evaluation for every completion order "
        "(from C19). VALIDATED, not provable: seeded SymbolicRegressor fits in child interpreters with different PYTHONHASHSEED and twice in one interpreter agree; real worker pools vs serial.",
   note=COMMON_NOTE + "Cross-interpreter determinism of numpy/random/scipy and multiprocessing.Pool are runtime behaviour: validated by subprocess runs, never counted as discharged obligations.",
   technique="Lean 4 proof of the decision logic over facts regenerated from source; subprocess validation of the runtime part",
   design="5/C17"),
 "C12": dict(
   text="Lean theorems over a message-level transition system of the non-blocking protocol (rank 0: collect every helper's first age message, loop while the integer sum of known ages is below "
        "the goal, exit notifications, barrier, final drain; helpers: send age, loop until notified, barrier) for ARBITRARY rank count R, sync frequency, requested generations n, entry ages, slice "
        "lengths and every interleaving, with NO precondition on the call: some action is enabled in every non-final reachable state (no_deadlock), when all ranks have returned no age-update or exit "
        "message is left (clean_return), at return the sum of island ages has grown by at least R*n, i.e. the mean island age advanced by at least the requested generations (ages_advance, "
        "goal_reached), consecutive calls compose (two_calls), migration partners are symmetric (par_partner_symmetric). "
        "Tie: TRACE VALIDATION -- the real ParallelArchipelago runs on a deterministic thread-based stand-in for mpi4py under random/adversarial/exhaustive schedules and every logged "
        "communication event is replayed through the model's step function; oracle on the real runs (deadlock detector, mailboxes, per-call age advance, cross-rank agreement, NaN-aware best, migration "
        "conservation). LIVENESS (Props/C12Live.lean): for every run, rank 0's loop iterations are bounded by R*n (rank0_evolves_bounded_call), its protocol operations by "
        "Phi(s0) + 2 * (helper age sends) (rank0_steps_bounded: the only way not to return is helpers out-running the drain loop), fairness alone ends each collecting receive "
        "(collecting_terminates), a notified helper needs at most 5 operations to reach the barrier; every weakly fair execution that satisfies a speed bound (helper sends at most q per p rank-0 "
        "operations while rank 0 drains, 2q < p) reaches a final state with clean mailboxes and the age advance (terminates_fair, terminates_fair_call); without the speed bound there is a fair "
        "execution that never returns (livelock_exists, termination_needs_speed_assumption).",
   note=COMMON_NOTE + "mpi4py is not installed: the MPI runtime is my stand-in (buffered, non-overtaking, instantly visible messages, collectives as rank-ordered folds). That the "
        "harness's schedulers satisfy the speed bound is argued informally (round robin with slices of at least c points: p = c + 2, q = R - 1). F10 (per-call mean age on later "
        "calls) and F16 are repaired in /repo and listed as fixed in known_findings.json. Blocking mode is oracle-checked (each island +n).",
   technique="Lean 4 proof (inductive invariant for all R and all interleavings; potential functions and a variant argument over infinite fair executions for liveness) + trace validation of the implementation on an MPI stand-in",
   design="5/C12, 12.2"),
 "C04": dict(
   text="Lean theorems over an executable port of AGraphGenerator / the five AGraphMutation kinds / AGraphCrossover as pure functions of (configuration, parent, draws), for ALL draw lists: every "
        "ok result is a well-formed stack of the configured size using only enabled operators and existing variables (gen_wf, command_wf, node_wf, param_wf, prune_wf, fork_wf, crossover_wf, "
        "mutate_wf), draws are consumed as a prefix within the requested bounds, and the EXACT condition under which each rejection loop can ever exit (commandLoop_progress_closed, "
        "nodeLoop_progress_closed, command_stuck, node_stuck): termination 'for every valid configuration' is false exactly on those degenerate configurations (known finding F7). "
        "Tie: draw logging -- the real code's draws are replayed in the model: identical children and draw counts, out-of-draws exactly on hangs; oracle on real objects for size, references, "
        "operators, evaluability, parents intact, ages, evaluated flag, child behaves as a fresh equation with its stack. Object level: the bodies of AGraphCrossover.__call__ / "
        "AGraphMutation.__call__ are REGENERATED as op lists and interpreted over the AGraph object model: children get the larger parental age and are marked not evaluated "
        "(crossover_children), a mutant keeps its parent's age and is marked not evaluated as soon as one store happened (mutation_child), every store in mutation.py/crossover.py goes "
        "through the mutable view (gen_variation_ok).",
   note=COMMON_NOTE + "Random draws are oracle inputs at the API level bingo calls (PMF index, randint, choice position); 'parents intact' is checked on the real objects (the model functions are pure).",
   technique="Lean 4 proof (post-conditions over a draw-consuming monad, exact progress characterisation) + exact correspondence under logged draws",
   design="5/C04"),
 "C16": dict(
   text="Lean theorems over an executable port of string_generation.py / string_parsing.py (tables REGENERATED from the source and pinned): for ALL postfix token lists the command array "
        "returned denotes the value a reference stack machine computes and the root is the last row despite sharing (postfix_sound, root_is_last, postfix_wf); shunting-yard is correct on "
        "the whole precedence grammar without unary minus (shunting_yard_grammar) and the tokens of every printed tree lie in it (shunting_yard_sympy); printing in the sympy format and "
        "parsing back preserves the real function at tree, stack and STRING level, character-level tokenizer included (roundtrip_tree, roundtrip_stack, format_eq_tree, tokenize_sympyStr, "
        "roundtrip_format). Tie: exact correspondence of strings, token lists, postfix lists, command arrays and constants between the real printer/parser and the port (generated, sympy, "
        "malformed and exhaustive small inputs); the theorems' hypotheses on constant strings are checked against Python's str() of every constant used; oracle: 80-digit evaluation of "
        "round trips and of sympy strings against sympy's own values.",
   note=COMMON_NOTE + "'Evaluates identically' is identity of real functions (the printer does not parenthesise + chains, the parser re-associates them). Modelled: Python float()/repr() (abstract "
        "`val`, decimal-literal predicate), ASCII input. Known findings: F11a (literal constants rebound after simplification on the parsing side), F11b ('-2**x'), F3b through strings.",
   technique="Lean 4 proof (invariant of the postfix loop, shunting-yard on a precedence grammar, structural induction for printer/tokenizer) over tables regenerated from source + exact correspondence",
   design="5/C16, 12.2"),
}

REASONS = {p: "check not built yet in this round (planned, see DESIGN.md section 11)" for p in PROPS}

def main():
    checks = []
    for p in PROPS:
        if p in CLAIMED:
            c = CLAIMED[p]
            checks.append({
                "property_id": p,
                "quick_cmd": f"./check {p} --tier quick",
                "thorough_cmd": f"./check {p} --tier thorough",
                "evidence_file": f"evidence/{p}.json",
                "replay_cmd_template": f"./check {p} --replay {{path}}",
                "engine": "lean",
                "level_claimed": {"category": "proof", "text": c["text"], "design_ref": c["design"]},
                "level_note": c["note"],
                "technique": c["technique"],
            })
    m = {
        "version": 1,
        "setup_cmd": "./check --setup",
        "hooks": {"guard": "BINGO_VERIF",
                  "enable": "no source hooks: all observation is done by wrappers installed from the harness process (BINGO_VERIF=1 is exported by ./check but nothing in /repo reads it)",
                  "baseline_off_cmd": "cd /repo && /venv/bin/python -m pytest -ra -q -p no:cacheprovider --timeout=900 --continue-on-collection-errors",
                  "source_commits": [], "add_only": True},
        "engines": [
            {"name": "lean", "path": "lean/", "serves_properties": sorted(CLAIMED), "kind_free_text": "Lean 4.33 lake project: executable models (Model/), theorems (Proofs/Props), line-protocol driver bvdriver"},
            {"name": "translator", "path": "translator/", "serves_properties": sorted(CLAIMED), "kind_free_text": "Python ast -> lean/Model/Generated/*.lean, rerun by every check"},
            {"name": "harness", "path": "harness/", "serves_properties": sorted(CLAIMED), "kind_free_text": "correspondence (model vs real code) and direct oracles on the real code"},
        ],
        "checks": checks,
        "not_applicable": [{"property_id": p, "reason": REASONS[p]} for p in PROPS if p not in CLAIMED],
        "notes": "Design, trusted base, findings and seeded-change results: DESIGN.md. Known findings: known_findings.json.",
    }
    with open(os.path.join(HERE, "MANIFEST.json"), "w") as f:
        json.dump(m, f, indent=1)
    print("claimed:", sorted(CLAIMED))

if __name__ == "__main__":
    main()
