#!/usr/bin/env python3
"""Regenerates MANIFEST.json from the table below (kept valid at all times)."""
import json, os
HERE = os.path.dirname(os.path.dirname(os.path.abspath(__file__)))
PROPS = [f"C{i:02d}" for i in range(1, 21)]

COMMON_NOTE = ("Trusted: Lean 4.33 kernel (+ leanchecker in the thorough tier), axioms propext/Classical.choice/Quot.sound only "
               "(audited by #print axioms on every run), Mathlib definitions where imported, translator/*.py, harness/*.py. ")

CLAIMED = {
 "C01": dict(
   text="Lean theorems, for every stack/sharing pattern/scalar type: the row-by-row DAG sweep equals evaluating the unfolded tree of every row "
        "(fwd_eq_den), the per-node rules REGENERATED from operator_eval.py denote the 17 mathematical functions over the reals (den_eq_math, fwd_eq_math), "
        "a well-formed stack raises nothing but the Python-float ZeroDivisionError (wf_fwd_some, only_exception_is_pydiv, evalpy_ok_erase). "
        "Tie: translator (operator tables and rules) + row-level trace validation of the real backend against the compiled model + an independent 40-digit oracle on the real code.",
   note=COMMON_NOTE + "Modelled, not verified: IEEE-754/numpy elementary functions (validated per row to 1e-12 against mpmath), numpy broadcasting on the shapes used, array-valued constants excluded.",
   technique="Lean 4 proof (induction over the stack) over a model whose operator tables are regenerated from source; trace-validated against the implementation",
   design="5/C01"),
}

REASONS = {p: "check not built yet in this round (planned, see DESIGN.md section 11)" for p in PROPS}

def main():
    checks = []
    for p in PROPS:
        if p in CLAIMED:
            c = CLAIMED[p]
            checks.append({
                "property_id": p,
                "quick_cmd": f"./check {p} --tier quick",
                "thorough_cmd": f"./check {p} --tier thorough",
                "evidence_file": f"evidence/{p}.json",
                "replay_cmd_template": f"./check {p} --replay {{path}}",
                "engine": "lean",
                "level_claimed": {"category": "proof", "text": c["text"], "design_ref": c["design"]},
                "level_note": c["note"],
                "technique": c["technique"],
            })
    m = {
        "version": 1,
        "setup_cmd": "./check --setup",
        "hooks": {"guard": "BINGO_VERIF",
                  "enable": "no source hooks: all observation is done by wrappers installed from the harness process (BINGO_VERIF=1 is exported by ./check but nothing in /repo reads it)",
                  "baseline_off_cmd": "cd /repo && /venv/bin/python -m pytest -ra -q -p no:cacheprovider --timeout=900 --continue-on-collection-errors",
                  "source_commits": [], "add_only": True},
        "engines": [
            {"name": "lean", "path": "lean/", "serves_properties": sorted(CLAIMED), "kind_free_text": "Lean 4.33 lake project: executable models (Model/), theorems (Proofs/Props), line-protocol driver bvdriver"},
            {"name": "translator", "path": "translator/", "serves_properties": sorted(CLAIMED), "kind_free_text": "Python ast -> lean/Model/Generated/*.lean, rerun by every check"},
            {"name": "harness", "path": "harness/", "serves_properties": sorted(CLAIMED), "kind_free_text": "correspondence (model vs real code) and direct oracles on the real code"},
        ],
        "checks": checks,
        "not_applicable": [{"property_id": p, "reason": REASONS[p]} for p in PROPS if p not in CLAIMED],
        "notes": "Design, trusted base, findings and seeded-change results: DESIGN.md. Known findings: known_findings.json.",
    }
    with open(os.path.join(HERE, "MANIFEST.json"), "w") as f:
        json.dump(m, f, indent=1)
    print("claimed:", sorted(CLAIMED))

if __name__ == "__main__":
    main()
