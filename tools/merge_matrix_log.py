#!/usr/bin/env python3
"""Merge the lines `<id> <verdict> <how>` of a (possibly unfinished) tools/seed_matrix.py log into seeded/RESULTS.json and
regenerate seeded/README.md.  Usage: tools/merge_matrix_log.py /tmp/matrix.log"""
import json, os, re, sys
os.chdir("/verif")
rows = {r["id"]: r for r in json.load(open("seeded/RESULTS.json"))}
for line in open(sys.argv[1]):
    m = re.match(r"^(C\d\d-[A-Z]) (DETECTED|MISSED|\?|INFRA\S*)\s*(.*)$", line.strip())
    if not m:
        continue
    sid, verdict, how = m.groups()
    meta = json.load(open(os.path.join("seeded", sid, "meta.json")))
    rows[sid] = {"id": sid, "property": meta["property"], "summary": meta.get("summary", ""), "needs": meta.get("needs", ""),
                 "files": meta.get("files", []), "verdict": verdict, "how": how}
rows = {k: v for k, v in rows.items() if os.path.isdir(os.path.join("seeded", k))}
out = sorted(rows.values(), key=lambda r: r["id"])
json.dump(out, open("seeded/RESULTS.json", "w"), indent=1)
with open("seeded/README.md", "w") as f:
    f.write("# Seeded changes (each breaks one property, compiles, passes the existing suite; confirmed in a scratch worktree)\n\n")
    f.write("| id | property | change | needs | check verdict |\n|---|---|---|---|---|\n")
    for r in out:
        f.write(f"| {r['id']} | {r['property']} | {str(r['summary']).replace('|', '/')[:160]} | {str(r['needs']).replace('|', '/')[:160]} | {r['verdict']} {('(' + r['how'] + ')') if r['how'] else ''} |\n")
print(len(out), sum(1 for r in out if r["verdict"] == "DETECTED"), sum(1 for r in out if r["how"] == "failing input"))
