#!/bin/bash
# run every claimed check's quick tier for several seeds; print one line per run
cd "$(dirname "$0")/.."
props=$(python3 -c "import json;print(' '.join(c['property_id'] for c in json.load(open('MANIFEST.json'))['checks']))")
for sd in ${SEEDS:-1 2 3 4 5}; do
  for p in $props; do
    out=$(VERIF_SEED=$sd ./check $p --tier quick 2>&1 | grep -v conda | grep -E "VIOLATION|^C[0-9][0-9] \[" | tr '\n' ' ')
    echo "seed=$sd $out"
  done
done
