#!/bin/bash
# usage: tools/confirm_seed.sh <source dir with patch.diff demo.py meta.json> <seed id>
# confirms (scratch worktree): patch applies, demo exits 1 with it and 0 without, test suite failures unchanged;
# then stores it under seeded/<id>/ and runs the property's check against it.
src=$1; id=$2
wt=/tmp/confirm_wt_$$
base=/tmp/baseline_failed.txt
git -C /repo worktree add -q --detach $wt HEAD || exit 2
trap "git -C /repo worktree remove --force $wt >/dev/null 2>&1" EXIT
if [ ! -s $base ] || [ "$(cat /tmp/baseline_head 2>/dev/null)" != "$(git -C /repo rev-parse HEAD)" ]; then
  (cd $wt && /venv/bin/python -m pytest -q -p no:cacheprovider --timeout=900 -q tests 2>&1 | grep -E "^FAILED|^ERROR" | sed "s/ - .*//" | grep -v test_strict_time_limit | sort > $base); git -C /repo rev-parse HEAD > /tmp/baseline_head
fi
(cd $wt && PYTHONPATH=$wt timeout 600 /venv/bin/python $src/demo.py >/tmp/demo_pristine.out 2>&1); p0=$?
git -C $wt apply $src/patch.diff || { echo "PATCH-DOES-NOT-APPLY"; exit 2; }
(cd $wt && PYTHONPATH=$wt timeout 600 /venv/bin/python $src/demo.py >/tmp/demo_changed.out 2>&1); p1=$?
(cd $wt && /venv/bin/python -m pytest -q -p no:cacheprovider --timeout=900 -q tests 2>&1 | grep -E "^FAILED|^ERROR" | sed "s/ - .*//" | grep -v test_strict_time_limit | sort > /tmp/changed_failed.txt)
if diff -q $base /tmp/changed_failed.txt >/dev/null; then tests=same; else tests=DIFFERENT; fi
echo "seed=$id demo_pristine_exit=$p0 demo_changed_exit=$p1 tests=$tests"
if [ $p0 -eq 0 ] && [ $p1 -eq 1 ] && [ $tests = same ]; then
  mkdir -p /verif/seeded/$id; cp $src/patch.diff $src/demo.py /verif/seeded/$id/
  python3 - "$src" "$id" <<'PY'
import json,sys
src,i=sys.argv[1],sys.argv[2]
m=json.load(open(src+'/meta.json'))
m['confirmed']={"demo_pristine_exit":0,"demo_changed_exit":1,"existing_tests":"same failing set as the pristine tree (full suite, scratch worktree)"}
json.dump(m,open('/verif/seeded/'+i+'/meta.json','w'),indent=1)
PY
  echo CONFIRMED
else
  echo "NOT-CONFIRMED"; tail -3 /tmp/demo_changed.out; diff $base /tmp/changed_failed.txt | head -5
fi
