import Proofs.Lemmas.VarBasic
/-!
# Generator, command / node / parameter mutation, pruning, crossover: post-conditions

All statements are `Post m P` (see `VarBasic`): every `ok` result satisfies `P` and returns a suffix
of the draws.
-/
namespace Bingo
namespace VarLemmas
open Var Gen.OpDefs ReduceLemmas

/-! ## `component_generator.py` -/

theorem post_randomTerminal (cfg : Config) :
    Post (randomTerminal cfg) (fun t => t = CONSTANT ∨ t = VARIABLE) := by
  unfold randomTerminal
  apply Post.bind (post_drawPmf _)
  intro i _
  apply post_ofOption
  intro a ha
  have := List.mem_of_getElem? ha
  simpa [terminalItems] using this

theorem post_randomTerminalParameter (cfg : Config) (t : Int) :
    Post (randomTerminalParameter cfg t)
      (fun p => (t = VARIABLE → 0 ≤ p ∧ p < cfg.D) ∧ (t ≠ VARIABLE → p = -1)) := by
  unfold randomTerminalParameter
  apply post_ite
  · intro ht
    apply Post.bind (post_drawBelow _)
    intro v hv
    apply post_pure
    refine ⟨fun _ => ⟨by simp, by simpa using hv⟩, fun h => absurd ht h⟩
  · intro ht
    exact post_pure ⟨fun h => absurd h ht, fun _ => rfl⟩

/-- what `random_terminal_command` can return -/
def IsFreshTerminal (cfg : Config) (c : Cmd) : Prop :=
  c = ⟨CONSTANT, -1, -1⟩ ∨ ∃ v : Nat, v < cfg.D ∧ c = ⟨VARIABLE, Int.ofNat v, Int.ofNat v⟩

theorem IsFreshTerminal.spec {cfg : Config} {c : Cmd} (h : IsFreshTerminal cfg c) (i : Nat) :
    RowSpec cfg i c := by
  rcases h with rfl | ⟨v, hv, rfl⟩
  · exact .const rfl
  · exact .var rfl (by simp) (by simpa using hv)

theorem IsFreshTerminal.rowOK {cfg : Config} {c : Cmd} (h : IsFreshTerminal cfg c) (i : Nat) :
    RowOK cfg i c := rowOK_iff_spec.mpr (h.spec i)

theorem post_randomTerminalCommand (cfg : Config) :
    Post (randomTerminalCommand cfg) (IsFreshTerminal cfg) := by
  unfold randomTerminalCommand
  apply Post.bind (post_randomTerminal cfg)
  intro t ht
  unfold randomTerminalParameter
  rcases ht with rfl | rfl
  · have hne : CONSTANT ≠ VARIABLE := by decide
    rw [if_neg hne]
    apply Post.bind (post_pure (P := fun p => p = -1) rfl)
    intro p hp
    subst hp
    exact post_pure (Or.inl rfl)
  · rw [if_pos rfl]
    apply Post.bind (Post.bind (post_drawBelow _) (Q := fun p => ∃ v : Nat, v < cfg.D ∧ p = Int.ofNat v)
      (fun v hv => post_pure ⟨v, hv, rfl⟩))
    rintro p ⟨v, hv, rfl⟩
    exact post_pure (Or.inr ⟨v, hv, rfl⟩)

theorem post_randomOperator (cfg : Config) : Post (randomOperator cfg) (fun o => o ∈ cfg.ops) := by
  unfold randomOperator
  apply Post.bind (post_drawPmf _)
  intro i _
  apply post_ofOption
  intro a ha
  exact List.mem_of_getElem? ha

theorem post_randomOperatorParameter (i : Nat) :
    Post (randomOperatorParameter i) (fun p => ∃ v : Nat, v < i ∧ p = Int.ofNat v) := by
  unfold randomOperatorParameter
  apply Post.bind (post_drawBelow _)
  intro v hv
  exact post_pure ⟨v, hv, rfl⟩

theorem post_randomOperatorParameter' (i : Nat) :
    Post (randomOperatorParameter i) (fun p => 0 ≤ p ∧ p < i) :=
  (post_randomOperatorParameter i).mono fun p ⟨v, hv, e⟩ => by subst e; exact ⟨by simp, by simpa using hv⟩

/-- what `random_operator_command(i)` can return -/
def IsFreshOperator (cfg : Config) (i : Nat) (c : Cmd) : Prop :=
  ∃ (op : Int) (a b : Nat), op ∈ cfg.ops ∧ a < i ∧ b < i ∧ c = ⟨op, Int.ofNat a, Int.ofNat b⟩

theorem IsFreshOperator.spec {cfg : Config} (hcfg : CfgOK cfg) {i : Nat} {c : Cmd}
    (h : IsFreshOperator cfg i c) : RowSpec cfg i c := by
  obtain ⟨op, a, b, hop, ha, hb, rfl⟩ := h
  exact .op (hcfg.1 op hop) hop (by simp) (by simpa using ha) (by simp) (by simpa using hb)

theorem post_randomOperatorCommand (cfg : Config) (i : Nat) :
    Post (randomOperatorCommand cfg i) (IsFreshOperator cfg i) := by
  unfold randomOperatorCommand
  apply Post.bind (post_randomOperator cfg)
  intro op hop
  apply Post.bind (post_randomOperatorParameter i)
  rintro p1 ⟨a, ha, rfl⟩
  apply Post.bind (post_randomOperatorParameter i)
  rintro p2 ⟨b, hb, rfl⟩
  exact post_pure ⟨op, a, b, hop, ha, hb, rfl⟩

/-- an operator command at row 0 cannot be `ok` -/
theorem randomOperatorCommand_zero_not_ok (cfg : Config) (ds : List Nat) (r : Cmd × List Nat) :
    randomOperatorCommand cfg 0 ds ≠ .ok r := by
  intro e
  obtain ⟨c, rest⟩ := r
  obtain ⟨⟨op, a, b, _, ha, _⟩, _⟩ := post_randomOperatorCommand cfg 0 ds c rest e
  omega

/-- what `random_command(i)` can return -/
def IsFreshCommand (cfg : Config) (i : Nat) (c : Cmd) : Prop :=
  IsFreshTerminal cfg c ∨ (cfg.nLoad ≤ i ∧ IsFreshOperator cfg i c)

theorem IsFreshCommand.rowOK {cfg : Config} (hcfg : CfgOK cfg) {i : Nat} {c : Cmd}
    (h : IsFreshCommand cfg i c) : RowOK cfg i c := by
  rcases h with h | ⟨_, h⟩
  · exact h.rowOK i
  · exact rowOK_iff_spec.mpr (h.spec hcfg)

theorem post_randomCommand (cfg : Config) (i : Nat) :
    Post (randomCommand cfg i) (IsFreshCommand cfg i) := by
  unfold randomCommand
  apply post_ite
  · intro _; exact (post_randomTerminalCommand cfg).mono fun _ h => Or.inl h
  · intro hi
    apply Post.bind (post_drawPmf 2)
    intro k _
    apply post_ite
    · intro _; exact (post_randomTerminalCommand cfg).mono fun _ h => Or.inl h
    · intro _; exact (post_randomOperatorCommand cfg i).mono fun _ h => Or.inr ⟨by omega, h⟩

/-! ## `generator.py` -/

theorem post_generateFrom (cfg : Config) (hcfg : CfgOK cfg) : ∀ (k i : Nat),
    Post (generateFrom cfg k i) (fun s => s.length = k ∧ RowsOK cfg i s) := by
  intro k
  induction k with
  | zero => intro i; exact post_pure ⟨rfl, rfl⟩
  | succ k ih =>
    intro i
    unfold generateFrom
    apply Post.bind (post_randomCommand cfg i)
    intro c hc
    apply Post.bind (ih (i+1))
    rintro rest ⟨hl, hr⟩
    apply post_pure
    refine ⟨by simp [hl], ?_⟩
    show WF.rowsOK _ _ _ _ (c :: rest) = true
    simp only [WF.rowsOK, Bool.and_eq_true]
    exact ⟨hc.rowOK hcfg, hr⟩

theorem post_generate (cfg : Config) (hcfg : CfgOK cfg) (size : Nat) (hsize : 1 ≤ size) :
    Post (generate cfg size) (fun s => WF.WFGenome cfg.D cfg.ops s ∧ s.length = size) := by
  unfold generate
  apply (post_generateFrom cfg hcfg size 0).mono
  rintro s ⟨hl, hr⟩
  exact ⟨wfGenome_of_rowsOK (by omega) hr, hl⟩

/-! ## replacing one row -/

/-- the child is the parent with row `loc` replaced by a row that is fine at `loc` -/
def ReplacesRow (cfg : Config) (s s' : Stack) : Prop :=
  ∃ loc new, loc < s.length ∧ RowOK cfg loc new ∧ s' = s.set loc new

theorem ReplacesRow.wf {cfg : Config} {s s' : Stack} (h : ReplacesRow cfg s s')
    (hwf : WF.WFGenome cfg.D cfg.ops s) : WF.WFGenome cfg.D cfg.ops s' ∧ s'.length = s.length := by
  obtain ⟨loc, new, _, hnew, rfl⟩ := h
  exact ⟨wfGenome_set hwf hnew, by simp⟩

/-! ## command mutation -/

theorem post_mutateCommandLoop (cfg : Config) (loc : Nat) (old : Cmd) : ∀ fuel,
    Post (mutateCommandLoop cfg loc old fuel)
      (fun new => IsFreshCommand cfg loc new ∧
        ¬ (new = old ∨ (old.node = CONSTANT ∧ new.node = CONSTANT))) := by
  intro fuel
  induction fuel with
  | zero => exact post_starve
  | succ fuel ih =>
    unfold mutateCommandLoop
    apply Post.bind (post_randomCommand cfg loc)
    intro new hnew
    apply post_ite
    · intro _; exact ih
    · intro h; exact post_pure ⟨hnew, h⟩

theorem post_mutateCommand (cfg : Config) (hcfg : CfgOK cfg) (s : Stack) :
    Post (mutateCommand cfg s) (ReplacesRow cfg s) := by
  unfold mutateCommand
  apply Post.bind (Q := ReplacesRow cfg s) (P := fun _ => True)
  · intro ds a rest e
    exact ⟨trivial, by
      have : Post (randomCommandMutationLocation s) (fun _ => True) := by
        unfold randomCommandMutationLocation
        apply Post.bind (post_utilizedM s)
        intro u _
        apply Post.bind (post_drawBelow _)
        intro k _
        exact post_ofOption fun _ _ => trivial
      exact (this ds a rest e).2⟩
  intro loc _
  apply Post.bind (post_getRow s loc)
  intro old _
  apply Post.bind post_remaining
  intro fuel _
  apply Post.bind (post_mutateCommandLoop cfg loc old (fuel+1))
  intro new hnew
  apply (post_setRow s loc new).mono
  rintro s' ⟨hlt, rfl⟩
  exact ⟨loc, new, hlt, hnew.1.rowOK hcfg, rfl⟩

/-! ## node mutation -/

theorem post_randomizeNode (cfg : Config) (hcfg : CfgOK cfg) (i : Nat) (c : Cmd) (hc : RowOK cfg i c) :
    Post (randomizeNode cfg c) (fun new => RowOK cfg i new ∧
      (Ops.isTerminal c.node = some true → IsFreshTerminal cfg new) ∧
      (Ops.isTerminal c.node = some false → ∃ op ∈ cfg.ops, new = ⟨op, c.p1, c.p2⟩)) := by
  unfold randomizeNode
  apply Post.bind (post_isTerminalM c.node)
  intro t ht
  cases t with
  | true =>
    simp only [if_true]
    have := post_randomTerminalCommand cfg
    unfold randomTerminalCommand at this
    apply this.mono
    intro new hnew
    exact ⟨hnew.rowOK i, fun _ => hnew, fun h => by rw [ht] at h; cases h⟩
  | false =>
    simp only [Bool.false_eq_true, if_false]
    apply Post.bind (post_randomOperator cfg)
    intro op hop
    apply post_pure
    refine ⟨?_, fun h => (by rw [ht] at h; cases h), fun _ => ⟨op, hop, rfl⟩⟩
    rw [rowOK_iff_spec] at hc ⊢
    cases hc with
    | var hv _ _ => rw [hv, variable_facts.1] at ht; cases ht
    | const hv => rw [hv, constant_facts.1] at ht; cases ht
    | int hv => rw [hv, integer_facts.1] at ht; cases ht
    | op _ _ h10 h1 h20 h2 => exact .op (hcfg.1 op hop) hop h10 h1 h20 h2

theorem post_mutateNodeLoop (cfg : Config) (hcfg : CfgOK cfg) (i : Nat) (old : Cmd) : ∀ fuel cur,
    RowOK cfg i cur →
    Post (mutateNodeLoop cfg old fuel cur) (fun new => RowOK cfg i new ∧ old.node ≠ new.node) := by
  intro fuel
  induction fuel with
  | zero => intro cur _; exact post_starve
  | succ fuel ih =>
    intro cur hcur
    unfold mutateNodeLoop
    apply Post.bind (post_randomizeNode cfg hcfg i cur hcur)
    intro new hnew
    apply post_ite
    · intro _; exact ih new hnew.1
    · intro h; exact post_pure ⟨hnew.1, h⟩

theorem post_randomNodeMutationLocation (cfg : Config) (s : Stack) :
    Post (randomNodeMutationLocation cfg s) (fun _ => True) := by
  unfold randomNodeMutationLocation
  apply Post.bind (post_utilizedM s)
  intro u _
  apply Post.bind (post_drawBelow _)
  intro k _
  exact post_ofOption fun _ _ => trivial

theorem post_mutateNode (cfg : Config) (hcfg : CfgOK cfg) (s : Stack)
    (hwf : WF.WFGenome cfg.D cfg.ops s) : Post (mutateNode cfg s) (ReplacesRow cfg s) := by
  unfold mutateNode
  apply Post.bind (post_randomNodeMutationLocation cfg s)
  intro loc _
  apply Post.bind (post_getRow s loc)
  intro old hold
  apply Post.bind post_remaining
  intro fuel _
  apply Post.bind (post_mutateNodeLoop cfg hcfg loc old (fuel+1) old (wf_rowOK hwf hold))
  intro new hnew
  apply (post_setRow s loc new).mono
  rintro s' ⟨hlt, rfl⟩
  exact ⟨loc, new, hlt, hnew.1, rfl⟩

/-! ## parameter mutation -/

theorem post_randomizeParameters (cfg : Config) (loc : Nat) (c : Cmd) (hc : RowOK cfg loc c) :
    Post (randomizeParameters cfg c loc) (RowOK cfg loc) := by
  unfold randomizeParameters
  apply Post.bind (post_isTerminalM c.node)
  intro t ht
  rw [rowOK_iff_spec] at hc
  cases t with
  | true =>
    simp only [if_true]
    apply Post.bind (post_randomTerminalParameter cfg c.node)
    intro p hp
    apply post_pure
    rw [rowOK_iff_spec]
    cases hc with
    | var hv _ _ => exact .var hv (hp.1 hv).1 (hp.1 hv).2
    | const hv => exact .const hv
    | int hv => exact .int hv
    | op ht' _ _ _ _ _ => rw [ht] at ht'; cases ht'
  | false =>
    simp only [Bool.false_eq_true, if_false]
    cases hc with
    | var hv _ _ => rw [hv, variable_facts.1] at ht; cases ht
    | const hv => rw [hv, constant_facts.1] at ht; cases ht
    | int hv => rw [hv, integer_facts.1] at ht; cases ht
    | op _ hm h10 h1 h20 h2 =>
      apply Post.bind (post_randomOperatorParameter' loc)
      intro p1 hp1
      apply Post.bind (post_isArity2M c.node)
      intro b _
      apply post_ite
      · intro _
        apply Post.bind (post_randomOperatorParameter' loc)
        intro p2 hp2
        apply post_pure
        rw [rowOK_iff_spec]
        exact .op ht hm hp1.1 hp1.2 hp2.1 hp2.2
      · intro _
        apply post_pure
        rw [rowOK_iff_spec]
        exact .op ht hm hp1.1 hp1.2 h20 h2

theorem post_mutateParametersLoop (cfg : Config) (loc : Nat) (old : Cmd) : ∀ fuel cur,
    RowOK cfg loc cur →
    Post (mutateParametersLoop cfg loc old fuel cur) (fun new => RowOK cfg loc new ∧ old ≠ new) := by
  intro fuel
  induction fuel with
  | zero => intro cur _; exact post_starve
  | succ fuel ih =>
    intro cur hcur
    unfold mutateParametersLoop
    apply Post.bind (post_randomizeParameters cfg loc cur hcur)
    intro new hnew
    apply post_ite
    · intro _; exact ih new hnew
    · intro h; exact post_pure ⟨hnew, h⟩

theorem post_randomParamMutLocation (cfg : Config) (s : Stack) :
    Post (randomParamMutLocation cfg s) (fun _ => True) := by
  unfold randomParamMutLocation
  apply Post.bind (post_utilizedM s)
  intro u _
  have hjp : ∀ indices : List Nat, Post (if indices.isEmpty = true then (pure none : M (Option Nat))
      else do
        let index ← drawBelow indices.length
        let loc ← M.ofOption PyErr.indexError indices[index]?
        pure (some loc)) (fun _ => True) := by
    intro inds
    apply post_ite
    · intro _; exact post_pure trivial
    · intro _
      apply Post.bind (post_drawBelow _)
      intro k _
      apply Post.bind (post_ofOption (P := fun _ => True) fun _ _ => trivial)
      intro loc _
      exact post_pure trivial
  dsimp only
  apply post_ite
  · intro _
    apply Post.bind (post_getRow s 1)
    intro c _
    apply Post.bind (post_isTerminalM c.node)
    intro t _
    apply post_ite <;> intro _ <;> apply Post.bind (post_pure (P := fun _ => True) trivial) <;>
      intro inds _ <;> exact hjp inds
  · intro _
    apply Post.bind (post_pure (P := fun _ => True) trivial)
    intro inds _
    exact hjp inds

theorem post_mutateParameters (cfg : Config) (s : Stack) (hwf : WF.WFGenome cfg.D cfg.ops s) :
    Post (mutateParameters cfg s) (fun s' => s' = s ∨ ReplacesRow cfg s s') := by
  unfold mutateParameters
  apply Post.bind (post_randomParamMutLocation cfg s)
  intro o _
  cases o with
  | none => exact post_pure (Or.inl rfl)
  | some loc =>
    simp only []
    apply Post.bind (post_getRow s loc)
    intro old hold
    apply Post.bind post_remaining
    intro fuel _
    apply Post.bind (post_mutateParametersLoop cfg loc old (fuel+1) old (wf_rowOK hwf hold))
    intro new hnew
    apply (post_setRow s loc new).mono
    rintro s' ⟨hlt, rfl⟩
    exact Or.inr ⟨loc, new, hlt, hnew.1, rfl⟩

/-! ## pruning -/

theorem post_pruneRows (cfg : Config) (loc : Nat) (pruned : Int) (h0 : 0 ≤ pruned) (hlt : pruned < loc) :
    ∀ (l : List Cmd) (i : Nat), RowsOK cfg i l →
      Post (pruneRows loc pruned i l) (fun l' => l'.length = l.length ∧ RowsOK cfg i l') := by
  intro l
  induction l with
  | nil => intro i _; exact post_pure ⟨rfl, rfl⟩
  | cons c rest ih =>
    intro i h
    have h' : RowOK cfg i c ∧ RowsOK cfg (i+1) rest := by
      simpa [RowsOK, WF.rowsOK] using h
    unfold pruneRows
    apply Post.bind (post_isTerminalM c.node)
    intro t ht
    simp only []
    apply Post.bind (ih (i+1) h'.2)
    rintro rest' ⟨hl, hr⟩
    apply post_pure
    refine ⟨by simp [hl], ?_⟩
    show WF.rowsOK _ _ _ _ (_ :: rest') = true
    simp only [WF.rowsOK, Bool.and_eq_true]
    refine ⟨?_, hr⟩
    cases t with
    | true => simpa using h'.1
    | false =>
      simp only [Bool.false_eq_true, if_false]
      have hc := rowOK_iff_spec.mp h'.1
      show RowOK cfg i _
      rw [rowOK_iff_spec]
      cases hc with
      | var hv _ _ => rw [hv, variable_facts.1] at ht; cases ht
      | const hv => rw [hv, constant_facts.1] at ht; cases ht
      | int hv => rw [hv, integer_facts.1] at ht; cases ht
      | op _ hm h10 h1 h20 h2 =>
        refine .op ht hm ?_ ?_ ?_ ?_
        · show 0 ≤ (if c.p1 = Int.ofNat loc then pruned else c.p1)
          split <;> assumption
        · show (if c.p1 = Int.ofNat loc then pruned else c.p1) < i
          split
          · next e => rw [e] at h1; simp at h1; omega
          · exact h1
        · show 0 ≤ (if c.p2 = Int.ofNat loc then pruned else c.p2)
          split <;> assumption
        · show (if c.p2 = Int.ofNat loc then pruned else c.p2) < i
          split
          · next e => rw [e] at h2; simp at h2; omega
          · exact h2

theorem post_randomPruneLocation (s : Stack) :
    Post (randomPruneLocation s) (fun o => ∀ loc, o = some loc →
      ∃ c, s[loc]? = some c ∧ Ops.isTerminal c.node = some false) := by
  unfold randomPruneLocation
  apply Post.bind (post_utilizedM s)
  intro u _
  apply post_ite
  · intro _; exact post_pure (by simp)
  · intro _
    apply Post.bind (post_drawBelow _)
    intro k _
    apply Post.bind (post_ofOption (P := fun loc => ∃ c, s[loc]? = some c ∧ Ops.isTerminal c.node = some false) ?_)
    · intro loc hloc
      apply post_pure
      intro loc' e; cases e; exact hloc
    · intro loc hloc
      have hm := List.mem_of_getElem? hloc
      rw [mem_indicesWhere_zero] at hm
      obtain ⟨x, _, hp⟩ := hm
      simp only [Bool.and_eq_true] at hp
      cases hs : s[loc]? with
      | none => rw [hs] at hp; simp at hp
      | some c => rw [hs] at hp; exact ⟨c, rfl, by simpa using hp.2⟩

theorem rowsOK_append {cfg : Config} (a b : List Cmd) (k : Nat) :
    RowsOK cfg k (a ++ b) ↔ RowsOK cfg k a ∧ RowsOK cfg (k + a.length) b := by
  induction a generalizing k with
  | nil => simp [RowsOK, WF.rowsOK]
  | cons x xs ih =>
    have e : k + (xs.length + 1) = k + 1 + xs.length := by omega
    simp only [RowsOK, List.cons_append, WF.rowsOK, Bool.and_eq_true, List.length_cons] at ih ⊢
    rw [ih (k+1), e, and_assoc]

theorem post_pruneBranch (cfg : Config) (s : Stack) (hwf : WF.WFGenome cfg.D cfg.ops s) :
    Post (pruneBranch cfg s) (fun s' => WF.WFGenome cfg.D cfg.ops s' ∧ s'.length = s.length) := by
  unfold pruneBranch
  apply Post.bind (post_randomPruneLocation s)
  intro o ho
  cases o with
  | none => exact post_pure ⟨hwf, rfl⟩
  | some loc =>
    simp only []
    obtain ⟨c, hc, hct⟩ := ho loc rfl
    apply Post.bind (post_getRow s loc)
    intro cmd hcmd
    rw [hc] at hcmd; cases hcmd
    have hloc : loc < s.length := (List.getElem?_eq_some_iff.mp hc).1
    have hrow := rowOK_iff_spec.mp (wf_rowOK hwf hc)
    have hp : 0 ≤ c.p1 ∧ c.p1 < loc ∧ 0 ≤ c.p2 ∧ c.p2 < loc := by
      cases hrow with
      | var hv _ _ => rw [hv, variable_facts.1] at hct; cases hct
      | const hv => rw [hv, constant_facts.1] at hct; cases hct
      | int hv => rw [hv, integer_facts.1] at hct; cases hct
      | op _ _ h10 h1 h20 h2 => exact ⟨h10, h1, h20, h2⟩
    apply Post.bind (P := fun _ => True)
    · apply Post.bind (post_isArity2M c.node)
      intro b _
      apply post_ite
      · intro _; exact (post_drawBelow 2).mono fun _ _ => trivial
      · intro _; exact post_pure trivial
    intro num _
    have hrows : RowsOK cfg 0 s := by
      simp only [WF.WFGenome, WF.wf, Bool.and_eq_true] at hwf; exact hwf.2
    have hsplit : RowsOK cfg 0 (s.take loc ++ s.drop loc) := by rw [List.take_append_drop]; exact hrows
    rw [rowsOK_append] at hsplit
    have hlen : (s.take loc).length = loc := by simp; omega
    rw [hlen, Nat.zero_add] at hsplit
    have hpr : 0 ≤ (if num = 0 then c.p1 else c.p2) ∧ (if num = 0 then c.p1 else c.p2) < loc := by
      split
      · exact ⟨hp.1, hp.2.1⟩
      · exact ⟨hp.2.2.1, hp.2.2.2⟩
    apply Post.bind (post_pruneRows cfg loc _ hpr.1 hpr.2 (s.drop loc) loc hsplit.2)
    rintro tail ⟨htl, htr⟩
    apply post_pure
    have hlen' : (s.take loc ++ tail).length = s.length := by
      simp [htl]; omega
    refine ⟨wfGenome_of_rowsOK (by omega) ?_, hlen'⟩
    rw [rowsOK_append, hlen, Nat.zero_add]
    exact ⟨hsplit.1, htr⟩

/-! ## crossover -/

theorem post_crossover (cfg : Config) (p1 p2 : Stack) (h1 : WF.WFGenome cfg.D cfg.ops p1)
    (h2 : WF.WFGenome cfg.D cfg.ops p2) :
    Post (crossover p1 p2) (fun c =>
      WF.WFGenome cfg.D cfg.ops c.1 ∧ WF.WFGenome cfg.D cfg.ops c.2 ∧
      c.1.length = p1.length ∧ c.2.length = p1.length ∧ p2.length = p1.length ∧
      ∃ cut, 1 ≤ cut ∧ cut < p1.length - 1 ∧
        c.1 = p1.take cut ++ p2.drop cut ∧ c.2 = p2.take cut ++ p1.drop cut) := by
  unfold crossover
  apply Post.bind (post_drawRange _ _)
  intro cut hcut
  apply post_ite
  · intro _; exact post_raise
  · intro hl
    have hl : p2.length = p1.length := by simpa using hl
    apply post_pure
    have key : ∀ (a b : Stack), WF.WFGenome cfg.D cfg.ops a → WF.WFGenome cfg.D cfg.ops b →
        a.length = p1.length → b.length = p1.length →
        WF.WFGenome cfg.D cfg.ops (a.take cut ++ b.drop cut) ∧
          (a.take cut ++ b.drop cut).length = p1.length := by
      intro a b ha hb hla hlb
      have hlen : (a.take cut ++ b.drop cut).length = p1.length := by simp; omega
      have hta : (a.take cut).length = cut := by simp; omega
      refine ⟨wfGenome_of_rowsOK (by omega) ?_, hlen⟩
      have hra : RowsOK cfg 0 (a.take cut ++ a.drop cut) := by
        rw [List.take_append_drop]
        simp only [WF.WFGenome, WF.wf, Bool.and_eq_true] at ha; exact ha.2
      have hrb : RowsOK cfg 0 (b.take cut ++ b.drop cut) := by
        rw [List.take_append_drop]
        simp only [WF.WFGenome, WF.wf, Bool.and_eq_true] at hb; exact hb.2
      have htb : (b.take cut).length = cut := by simp; omega
      rw [rowsOK_append] at hra hrb ⊢
      rw [hta] at hra ⊢
      rw [htb] at hrb
      exact ⟨hra.1, hrb.2⟩
    obtain ⟨w1, l1⟩ := key p1 p2 h1 h2 rfl hl
    obtain ⟨w2, l2⟩ := key p2 p1 h2 h1 hl rfl
    exact ⟨w1, w2, l1, l2, hl, cut, hcut.1, hcut.2, rfl, rfl⟩

end VarLemmas
end Bingo
