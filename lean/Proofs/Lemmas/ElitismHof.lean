import Proofs.Lemmas.Elitism
import Proofs.Props.C10
/-!
# Hall of fame: the best entry is never worse than anything offered (core Lean only)

* unfiltered (`sim = none`), started empty: `NoWorse (keys of the hall of fame) (keys offered)`
  from `C10.exact`; the first entry is `≤` every non-NaN offered key.
* any filter: the hall of fame's own best key never gets worse over updates
  (`update_noWorse_self`) -- this is all that survives with a similarity filter, see
  `C09.hof_filtered_counterexample`.
-/
namespace Bingo
namespace HOF

theorem sorted_head_le {S : List Int} (hS : S.Pairwise (fun a b => decide (a ≤ b) = true))
    {x : Int} (hx : x ∈ S) : ∃ s rest, S = s :: rest ∧ s ≤ x := by
  cases S with
  | nil => simp at hx
  | cons s rest =>
    refine ⟨s, rest, rfl, ?_⟩
    rcases List.mem_cons.1 hx with rfl | hx
    · exact Int.le_refl _
    · simpa using (List.pairwise_cons.1 hS).1 x hx

/-- the keys of an unfiltered hall of fame started empty: head of the sorted non-NaN history -/
theorem update_none_head {m : Nat} (hm : 1 ≤ m) {offered h : List Item}
    (hu : update m none [] offered = some h) {x : Int} (hx : some x ∈ offered.map (·.key)) :
    ∃ s rest, h.map (·.key) = some s :: rest ∧ s ≤ x := by
  have hk := (C10.exact m hm offered h hu).1
  have hxm : x ∈ (offered.filterMap (·.key)).mergeSort (fun a b => decide (a ≤ b)) := by
    rw [List.mem_mergeSort, List.mem_filterMap]
    obtain ⟨it, hit, hkey⟩ := List.mem_map.1 hx
    exact ⟨it, hit, hkey⟩
  have hS := List.pairwise_mergeSort (le := fun (a b : Int) => decide (a ≤ b))
    (by intro a b c; simp only [decide_eq_true_eq]; omega)
    (by intro a b; simp only [Bool.or_eq_true, decide_eq_true_eq]; omega)
    (offered.filterMap (·.key))
  obtain ⟨s, rest, hSeq, hle⟩ := sorted_head_le hS hxm
  rw [hSeq] at hk
  obtain ⟨m', rfl⟩ : ∃ m', m = m' + 1 := ⟨m - 1, by omega⟩
  rw [List.take_succ_cons, List.map_cons] at hk
  exact ⟨s, _, hk, hle⟩

/-- **C09.hof** -/
theorem update_none_noWorse {m : Nat} (hm : 1 ≤ m) {offered h : List Item}
    (hu : update m none [] offered = some h) :
    NoWorse (h.map (·.key)) (offered.map (·.key)) := by
  intro k hk hn
  obtain ⟨x, rfl⟩ := Key.isNan_false_iff'.1 hn
  obtain ⟨s, rest, hh, hle⟩ := update_none_head hm hu hk
  exact ⟨some s, by rw [hh]; exact List.mem_cons_self, rfl, Key.le_some_some.2 hle⟩

/-- if anything non-NaN was offered, the hall of fame is non-empty and its first entry is `≤`
every non-NaN offered key -/
theorem update_none_first {m : Nat} (hm : 1 ≤ m) {offered h : List Item}
    (hu : update m none [] offered = some h)
    (hex : ∃ it ∈ offered, it.key.isNan = false) :
    ∃ b rest, h = b :: rest ∧ b.key.isNan = false ∧
      ∀ it ∈ offered, it.key.isNan = false → Key.le b.key it.key = true := by
  obtain ⟨it₀, hit₀, hn₀⟩ := hex
  obtain ⟨x₀, hx₀⟩ := Key.isNan_false_iff'.1 hn₀
  obtain ⟨s₀, rest₀, hh₀, _⟩ := update_none_head hm hu
    (x := x₀) (List.mem_map.2 ⟨it₀, hit₀, hx₀⟩)
  cases h with
  | nil => simp at hh₀
  | cons b rest =>
    simp only [List.map_cons, List.cons.injEq] at hh₀
    refine ⟨b, rest, rfl, by rw [hh₀.1]; rfl, ?_⟩
    intro it hit hn
    obtain ⟨x, hx⟩ := Key.isNan_false_iff'.1 hn
    obtain ⟨s, rest', hh, hle⟩ := update_none_head hm hu (x := x) (List.mem_map.2 ⟨it, hit, hx⟩)
    simp only [List.map_cons, List.cons.injEq] at hh
    rw [hh.1, hx]
    exact Key.le_some_some.2 hle

/-- several `update` calls (`hall_of_fame.update(population)` once per `evolve` call): the final
hall of fame is no worse than any population it was updated with -/
theorem foldlM_update_none_noWorse {m : Nat} (hm : 1 ≤ m) {pops : List (List Item)}
    {h : List Item} (hu : pops.foldlM (update m none) [] = some h) :
    NoWorse (h.map (·.key)) (pops.flatten.map (·.key)) ∧
    ∀ pop ∈ pops, NoWorse (h.map (·.key)) (pop.map (·.key)) := by
  rw [C10.update_seq] at hu
  have hall := update_none_noWorse hm hu
  refine ⟨hall, fun pop hpop => ?_⟩
  refine hall.mono (fun _ hk => hk) ?_
  intro k hk
  obtain ⟨it, hit, rfl⟩ := List.mem_map.1 hk
  exact List.mem_map.2 ⟨it, List.mem_flatten.2 ⟨pop, hpop, hit⟩, rfl⟩

/-! ## with any similarity filter: the hall of fame's own best never gets worse -/

theorem keys_oins_noWorse (it : Item) (h : List Item) :
    NoWorse ((oins keyInt it h).map (·.key)) (h.map (·.key)) :=
  NoWorse.of_subset fun k hk => by
    obtain ⟨a, ha, rfl⟩ := List.mem_map.1 hk
    exact List.mem_map.2 ⟨a, (mem_oins keyInt).2 (Or.inr ha), rfl⟩

theorem offer_noWorse_self {m : Nat} {sim : Option (Item → Item → Bool)} {h h' : List Item}
    {it : Item} (hm : 1 ≤ m) (hnn : NoNan h) (hs : KSorted h)
    (ho : offer m sim h it = some h') :
    NoWorse (h'.map (·.key)) (h.map (·.key)) ∧ NoNan h' ∧ KSorted h' := by
  have hnn' : NoNan h' := fun x hx => by
    rcases offer_mem ho x hx with h1 | h1
    · exact hnn x h1
    · rw [h1.1]; exact h1.2
  obtain ⟨h'', ho', hc⟩ := offer_cases (sim := sim) (it := it) hm hnn hs
  rw [ho] at ho'; cases ho'
  rcases hc with ⟨rfl, _⟩ | ⟨_, _, rfl⟩ | ⟨hin, _, A, b, hAb, hle, rfl⟩
  · exact ⟨NoWorse.refl _, hnn', hs⟩
  · exact ⟨keys_oins_noWorse it h, hnn', kSorted_oins hs⟩
  · have hsub : A.Sublist h := by rw [hAb]; exact List.sublist_append_left _ _
    refine ⟨?_, hnn', kSorted_oins (hs.sublist hsub)⟩
    rw [hAb, List.map_append]
    refine NoWorse.append_right (keys_oins_noWorse it A) ?_
    intro k hk _
    simp only [List.map_cons, List.map_nil, List.mem_singleton] at hk
    subst hk
    refine ⟨it.key, List.mem_map.2 ⟨it, (mem_oins keyInt).2 (Or.inl rfl), rfl⟩, hin, ?_⟩
    rw [key_eq_of_noNan hin, key_eq_of_noNan (hnn b (by rw [hAb]; simp))]
    exact Key.le_some_some.2 hle

/-- over one `update` call, with or without a similarity filter -/
theorem update_noWorse_self {m : Nat} {sim : Option (Item → Item → Bool)} (hm : 1 ≤ m) :
    ∀ (pop h h' : List Item), NoNan h → KSorted h → update m sim h pop = some h' →
      NoWorse (h'.map (·.key)) (h.map (·.key)) ∧ NoNan h' ∧ KSorted h' := by
  intro pop
  induction pop with
  | nil =>
    intro h h' hnn hs hu
    simp only [update, Option.some.injEq] at hu
    subst hu
    exact ⟨NoWorse.refl _, hnn, hs⟩
  | cons it rest ih =>
    intro h h' hnn hs hu
    unfold update at hu
    cases ho : offer m sim h it with
    | none => simp [ho] at hu
    | some h1 =>
      simp only [ho] at hu
      obtain ⟨hw1, hnn1, hs1⟩ := offer_noWorse_self hm hnn hs ho
      obtain ⟨hw2, hnn2, hs2⟩ := ih h1 h' hnn1 hs1 hu
      exact ⟨hw2.trans hw1, hnn2, hs2⟩

end HOF
end Bingo
