import Proofs.Lemmas.VarSuffix
/-!
# When can the rejection loops of command / node mutation exit?

* which rows `random_command(i)` can return *exactly* (`IsFreshCommand`, reachability by explicit draws);
* `mutateCommandLoop` returns `new` for some draw list iff `new` is such a row and is not rejected;
* `mutateNodeLoop` returns `new` for some draw list iff `NodeMutant cfg old new`;
* decidable list versions of these predicates (for `decide`).
-/
namespace Bingo
namespace VarLemmas
open Var Gen.OpDefs ReduceLemmas

/-! ## constructing `ok` runs -/

theorem bind_ok {α β : Type} {m : M α} {f : α → M β} {ds ds' : List Nat} {a : α} {r : β × List Nat}
    (h1 : m ds = .ok (a, ds')) (h2 : f a ds' = .ok r) : (m >>= f) ds = .ok r := by
  obtain ⟨b, rest⟩ := r
  exact (bind_ok_iff m f ds b rest).mpr ⟨a, ds', h1, h2⟩

theorem drawPmf_ok {n d : Nat} (h : d < n) (rest : List Nat) : drawPmf n (d :: rest) = .ok (d, rest) :=
  (drawPmf_ok_iff n _ d rest).mpr ⟨rfl, h⟩
theorem drawBelow_ok {n d : Nat} (h : d < n) (rest : List Nat) : drawBelow n (d :: rest) = .ok (d, rest) :=
  (drawBelow_ok_iff n _ d rest).mpr ⟨rfl, h⟩
theorem ofOption_ok {α : Type} (k : PyErr) {o : Option α} {a : α} (h : o = some a) (ds : List Nat) :
    M.ofOption k o ds = .ok (a, ds) := (ofOption_ok_iff k o ds a ds).mpr ⟨h, rfl⟩
theorem getRow_ok {s : Stack} {i : Nat} {c : Cmd} (h : s[i]? = some c) (ds : List Nat) :
    getRow s i ds = .ok (c, ds) := ofOption_ok _ h ds
theorem setRow_ok {s : Stack} {i : Nat} (h : i < s.length) (c : Cmd) (ds : List Nat) :
    setRow s i c ds = .ok (s.set i c, ds) := by
  unfold setRow; rw [if_pos h]; rfl
theorem setRow_ok_iff (s : Stack) (i : Nat) (c : Cmd) (ds : List Nat) (s' : Stack) (rest : List Nat) :
    setRow s i c ds = .ok (s', rest) ↔ i < s.length ∧ s' = s.set i c ∧ rest = ds := by
  unfold setRow
  split
  · next h => rw [pure_ok_iff]; constructor
              · rintro ⟨rfl, rfl⟩; exact ⟨h, rfl, rfl⟩
              · rintro ⟨_, rfl, rfl⟩; exact ⟨rfl, rfl⟩
  · next h => constructor
              · intro e; exact absurd e (raise_not_ok _ _ _)
              · rintro ⟨h', _⟩; exact absurd h' h
theorem utilizedM_ok_iff (s : Stack) (ds : List Nat) (u : List Bool) (rest : List Nat) :
    utilizedM s ds = .ok (u, rest) ↔ Reduce.utilized s = some u ∧ rest = ds := by
  unfold utilizedM
  cases hu : Reduce.utilized s with
  | some u' =>
    show (pure u' : M (List Bool)) ds = _ ↔ _
    rw [pure_ok_iff]
    constructor
    · rintro ⟨rfl, rfl⟩; exact ⟨rfl, rfl⟩
    · rintro ⟨e, rfl⟩; cases e; exact ⟨rfl, rfl⟩
  | none =>
    constructor
    · intro e
      exfalso
      revert e
      show (match s.length with
        | 0 => (M.raise .indexError : M (List Bool))
        | n+1 => M.raise (utilErrLoop s n (List.replicate n false ++ [true]))) ds = _ → False
      generalize s.length = n
      cases n <;> exact raise_not_ok _ _ _
    · rintro ⟨e, _⟩; cases e

/-! ## what the component generator can return, exactly -/

theorem randomTerminalCommand_reach {cfg : Config} {c : Cmd} (h : IsFreshTerminal cfg c)
    (rest : List Nat) : ∃ pre, randomTerminalCommand cfg (pre ++ rest) = .ok (c, rest) := by
  rcases h with rfl | ⟨v, hv, rfl⟩
  · exact ⟨[0], rfl⟩
  · refine ⟨[1, v], ?_⟩
    show randomTerminalCommand cfg (1 :: v :: rest) = _
    unfold randomTerminalCommand
    refine bind_ok (a := VARIABLE) (ds' := v :: rest) rfl ?_
    refine bind_ok (a := Int.ofNat v) (ds' := rest) ?_ rfl
    unfold randomTerminalParameter
    rw [if_pos rfl]
    exact bind_ok (drawBelow_ok hv rest) rfl

theorem randomOperator_reach {cfg : Config} {op : Int} (h : op ∈ cfg.ops) (rest : List Nat) :
    ∃ k, randomOperator cfg (k :: rest) = .ok (op, rest) := by
  obtain ⟨k, hk⟩ := List.mem_iff_getElem?.mp h
  have hlt := (List.getElem?_eq_some_iff.mp hk).1
  exact ⟨k, bind_ok (drawPmf_ok hlt rest) (ofOption_ok _ hk rest)⟩

theorem randomOperatorParameter_ok {i a : Nat} (h : a < i) (rest : List Nat) :
    randomOperatorParameter i (a :: rest) = .ok (Int.ofNat a, rest) :=
  bind_ok (drawBelow_ok h rest) rfl

theorem randomOperatorCommand_reach {cfg : Config} {i : Nat} {c : Cmd} (h : IsFreshOperator cfg i c)
    (rest : List Nat) : ∃ pre, randomOperatorCommand cfg i (pre ++ rest) = .ok (c, rest) := by
  obtain ⟨op, a, b, hop, ha, hb, rfl⟩ := h
  obtain ⟨k, hk⟩ := randomOperator_reach hop (a :: b :: rest)
  exact ⟨[k, a, b], bind_ok hk (bind_ok (randomOperatorParameter_ok ha _)
    (bind_ok (randomOperatorParameter_ok hb _) rfl))⟩

theorem randomCommand_reach {cfg : Config} {i : Nat} {c : Cmd} (h : IsFreshCommand cfg i c)
    (rest : List Nat) : ∃ pre, randomCommand cfg i (pre ++ rest) = .ok (c, rest) := by
  unfold randomCommand
  by_cases hi : i < cfg.nLoad
  · rw [if_pos hi]
    rcases h with h | ⟨h', _⟩
    · exact randomTerminalCommand_reach h rest
    · omega
  · rw [if_neg hi]
    rcases h with h | ⟨_, h⟩
    · obtain ⟨pre, hp⟩ := randomTerminalCommand_reach h rest
      refine ⟨0 :: pre, bind_ok (drawPmf_ok (by omega) _) ?_⟩
      rw [if_pos rfl]; exact hp
    · obtain ⟨pre, hp⟩ := randomOperatorCommand_reach h rest
      refine ⟨1 :: pre, bind_ok (drawPmf_ok (by omega) _) ?_⟩
      rw [if_neg (by decide)]; exact hp

/-- `random_command(i)` returns exactly the rows `IsFreshCommand cfg i` -/
theorem randomCommand_range (cfg : Config) (i : Nat) (c : Cmd) :
    (∃ ds rest, randomCommand cfg i ds = .ok (c, rest)) ↔ IsFreshCommand cfg i c := by
  constructor
  · rintro ⟨ds, rest, h⟩; exact (post_randomCommand cfg i ds c rest h).1
  · intro h
    obtain ⟨pre, hp⟩ := randomCommand_reach h []
    exact ⟨_, _, hp⟩

/-! ### list versions -/

def freshTerminals (cfg : Config) : List Cmd :=
  ⟨CONSTANT, -1, -1⟩ :: (List.range cfg.D).map fun v => ⟨VARIABLE, Int.ofNat v, Int.ofNat v⟩

def freshOperators (cfg : Config) (i : Nat) : List Cmd :=
  cfg.ops.flatMap fun op => (List.range i).flatMap fun a => (List.range i).map fun b =>
    ⟨op, Int.ofNat a, Int.ofNat b⟩

def freshCommands (cfg : Config) (i : Nat) : List Cmd :=
  freshTerminals cfg ++ (if cfg.nLoad ≤ i then freshOperators cfg i else [])

theorem mem_freshTerminals {cfg : Config} {c : Cmd} : c ∈ freshTerminals cfg ↔ IsFreshTerminal cfg c := by
  simp only [freshTerminals, List.mem_cons, List.mem_map, List.mem_range, IsFreshTerminal]
  constructor
  · rintro (h | ⟨v, hv, rfl⟩)
    · exact Or.inl h
    · exact Or.inr ⟨v, hv, rfl⟩
  · rintro (h | ⟨v, hv, rfl⟩)
    · exact Or.inl h
    · exact Or.inr ⟨v, hv, rfl⟩

theorem mem_freshOperators {cfg : Config} {i : Nat} {c : Cmd} :
    c ∈ freshOperators cfg i ↔ IsFreshOperator cfg i c := by
  simp only [freshOperators, List.mem_flatMap, List.mem_map, List.mem_range, IsFreshOperator]
  constructor
  · rintro ⟨op, hop, a, ha, b, hb, rfl⟩; exact ⟨op, a, b, hop, ha, hb, rfl⟩
  · rintro ⟨op, a, b, hop, ha, hb, rfl⟩; exact ⟨op, hop, a, ha, b, hb, rfl⟩

theorem mem_freshCommands {cfg : Config} {i : Nat} {c : Cmd} :
    c ∈ freshCommands cfg i ↔ IsFreshCommand cfg i c := by
  unfold freshCommands IsFreshCommand
  rw [List.mem_append, mem_freshTerminals]
  split
  · next h => rw [mem_freshOperators]; simp [h]
  · next h => simp [h]

/-! ## command mutation -/

/-- the rejection test of `_mutate_command` -/
def Rejected (old new : Cmd) : Prop := new = old ∨ (old.node = CONSTANT ∧ new.node = CONSTANT)

instance (old new : Cmd) : Decidable (Rejected old new) := by unfold Rejected; infer_instance

/-- some row `random_command(loc)` can return is accepted as a replacement of `old` -/
def CanProgressCmd (cfg : Config) (loc : Nat) (old : Cmd) : Prop :=
  ∃ new, IsFreshCommand cfg loc new ∧ ¬ Rejected old new

theorem canProgressCmd_iff_list {cfg : Config} {loc : Nat} {old : Cmd} :
    CanProgressCmd cfg loc old ↔ ∃ new ∈ freshCommands cfg loc, ¬ Rejected old new := by
  unfold CanProgressCmd
  constructor
  · rintro ⟨new, h1, h2⟩; exact ⟨new, mem_freshCommands.mpr h1, h2⟩
  · rintro ⟨new, h1, h2⟩; exact ⟨new, mem_freshCommands.mp h1, h2⟩

instance (cfg : Config) (loc : Nat) (old : Cmd) : Decidable (CanProgressCmd cfg loc old) :=
  decidable_of_iff _ canProgressCmd_iff_list.symm

theorem mutateCommandLoop_sound {cfg : Config} {loc : Nat} {old : Cmd} {fuel : Nat} {ds : List Nat}
    {new : Cmd} {rest : List Nat} (h : mutateCommandLoop cfg loc old fuel ds = .ok (new, rest)) :
    IsFreshCommand cfg loc new ∧ ¬ Rejected old new :=
  (post_mutateCommandLoop cfg loc old fuel ds new rest h).1

theorem mutateCommandLoop_complete {cfg : Config} {loc : Nat} {old new : Cmd}
    (h : IsFreshCommand cfg loc new) (hr : ¬ Rejected old new) (rest : List Nat) :
    ∃ pre, ∀ fuel, mutateCommandLoop cfg loc old (fuel+1) (pre ++ rest) = .ok (new, rest) := by
  obtain ⟨pre, hp⟩ := randomCommand_reach h rest
  refine ⟨pre, fun fuel => ?_⟩
  unfold mutateCommandLoop
  refine bind_ok hp ?_
  have hr' : ¬ (new = old ∨ (old.node = CONSTANT ∧ new.node = CONSTANT)) := hr
  rw [if_neg hr']; rfl

/-- the loop can exit (for some fuel and some draws) iff an acceptable row exists -/
theorem mutateCommandLoop_ok_iff (cfg : Config) (loc : Nat) (old : Cmd) :
    (∃ fuel ds r, mutateCommandLoop cfg loc old fuel ds = .ok r) ↔ CanProgressCmd cfg loc old := by
  constructor
  · rintro ⟨fuel, ds, ⟨new, rest⟩, h⟩; exact ⟨new, mutateCommandLoop_sound h⟩
  · rintro ⟨new, h1, h2⟩
    obtain ⟨pre, hp⟩ := mutateCommandLoop_complete h1 h2 []
    exact ⟨1, _, _, hp 0⟩

/-- the positions `_get_random_command_mutation_location` chooses from -/
abbrev cmdIndices (u : List Bool) : List Nat := indicesWhere (fun _ x => x) 0 u

/-- everything an `ok` run of `_mutate_command` did -/
theorem mutateCommand_ok_elim {cfg : Config} {s : Stack} {ds : List Nat} {child : Stack}
    {rest : List Nat} (h : mutateCommand cfg s ds = .ok (child, rest)) :
    ∃ u d ds1 loc old new, Reduce.utilized s = some u ∧ ds = d :: ds1 ∧
      (cmdIndices u)[d]? = some loc ∧ s[loc]? = some old ∧ IsFreshCommand cfg loc new ∧
      ¬ Rejected old new ∧ child = s.set loc new := by
  unfold mutateCommand at h
  obtain ⟨loc, ds1, h1, h2⟩ := (bind_ok_iff _ _ _ _ _).mp h
  clear h
  unfold randomCommandMutationLocation at h1
  obtain ⟨u, ds0, hu0, h3⟩ := (bind_ok_iff _ _ _ _ _).mp h1
  clear h1
  obtain ⟨hu, e0⟩ := (utilizedM_ok_iff _ _ _ _).mp hu0
  clear hu0
  subst e0
  obtain ⟨d, ds0', hd, h4⟩ := (bind_ok_iff _ _ _ _ _).mp h3
  clear h3
  obtain ⟨e1, hdlt⟩ := (drawBelow_ok_iff _ _ _ _).mp hd
  clear hd
  subst e1
  obtain ⟨hloc, e2⟩ := (ofOption_ok_iff _ _ _ _ _).mp h4
  clear h4
  subst e2
  obtain ⟨old, ds2, hold0, h5⟩ := (bind_ok_iff _ _ _ _ _).mp h2
  clear h2
  obtain ⟨hold, e3⟩ := (ofOption_ok_iff _ _ _ _ _).mp hold0
  clear hold0
  subst e3
  obtain ⟨fuel, ds3, hf, h6⟩ := (bind_ok_iff _ _ _ _ _).mp h5
  clear h5
  obtain ⟨e4, e5⟩ := (remaining_ok_iff _ _ _).mp hf
  clear hf
  subst e4 e5
  obtain ⟨new, ds4, hnew, h7⟩ := (bind_ok_iff _ _ _ _ _).mp h6
  clear h6
  obtain ⟨_, e6, _⟩ := (setRow_ok_iff _ _ _ _ _ _).mp h7
  clear h7
  subst e6
  obtain ⟨hfresh, hrej⟩ := mutateCommandLoop_sound hnew
  exact ⟨u, d, _, loc, old, new, hu, rfl, hloc, hold, hfresh, hrej, rfl⟩

theorem mutateCommand_complete {cfg : Config} {s : Stack} {u : List Bool} {d loc : Nat} {old new : Cmd}
    (hu : Reduce.utilized s = some u) (hd : (cmdIndices u)[d]? = some loc) (hold : s[loc]? = some old)
    (hnew : IsFreshCommand cfg loc new) (hr : ¬ Rejected old new) (rest : List Nat) :
    ∃ pre, mutateCommand cfg s (d :: (pre ++ rest)) = .ok (s.set loc new, rest) := by
  obtain ⟨pre, hp⟩ := mutateCommandLoop_complete hnew hr rest
  refine ⟨pre, ?_⟩
  unfold mutateCommand
  have hdlt := (List.getElem?_eq_some_iff.mp hd).1
  have hloc : randomCommandMutationLocation s (d :: (pre ++ rest)) = .ok (loc, pre ++ rest) := by
    unfold randomCommandMutationLocation
    exact bind_ok ((utilizedM_ok_iff _ _ _ _).mpr ⟨hu, rfl⟩)
      (bind_ok (drawBelow_ok hdlt _) (ofOption_ok _ hd _))
  refine bind_ok hloc (bind_ok (getRow_ok hold _) (bind_ok (a := (pre ++ rest).length) rfl
    (bind_ok (hp _) (setRow_ok (List.getElem?_eq_some_iff.mp hold).1 _ _))))

/-! ## node mutation -/

/-- `new` is an acceptable result of `_mutate_node` on the row `old` -/
def NodeMutant (cfg : Config) (old new : Cmd) : Prop :=
  new.node ≠ old.node ∧
    ((Ops.isTerminal old.node = some true ∧ IsFreshTerminal cfg new) ∨
     (Ops.isTerminal old.node = some false ∧ ∃ op ∈ cfg.ops, new = ⟨op, old.p1, old.p2⟩))

def CanProgressNodeCmd (cfg : Config) (old : Cmd) : Prop := ∃ new, NodeMutant cfg old new

theorem canProgressNodeCmd_iff_list {cfg : Config} {old : Cmd} :
    CanProgressNodeCmd cfg old ↔
      (Ops.isTerminal old.node = some true ∧ ∃ new ∈ freshTerminals cfg, new.node ≠ old.node) ∨
      (Ops.isTerminal old.node = some false ∧ ∃ op ∈ cfg.ops, op ≠ old.node) := by
  unfold CanProgressNodeCmd NodeMutant
  constructor
  · rintro ⟨new, hne, (⟨ht, hf⟩ | ⟨ht, op, hop, rfl⟩)⟩
    · exact Or.inl ⟨ht, new, mem_freshTerminals.mpr hf, hne⟩
    · exact Or.inr ⟨ht, op, hop, hne⟩
  · rintro (⟨ht, new, hf, hne⟩ | ⟨ht, op, hop, hne⟩)
    · exact ⟨new, hne, Or.inl ⟨ht, mem_freshTerminals.mp hf⟩⟩
    · exact ⟨⟨op, old.p1, old.p2⟩, hne, Or.inr ⟨ht, op, hop, rfl⟩⟩

instance (cfg : Config) (old : Cmd) : Decidable (CanProgressNodeCmd cfg old) :=
  decidable_of_iff _ canProgressNodeCmd_iff_list.symm

theorem IsFreshTerminal.isTerminal {cfg : Config} {c : Cmd} (h : IsFreshTerminal cfg c) :
    Ops.isTerminal c.node = some true := by
  rcases h with rfl | ⟨v, _, rfl⟩
  · exact constant_facts.1
  · exact variable_facts.1

theorem post_randomizeNode_kind (cfg : Config) (c : Cmd) :
    Post (randomizeNode cfg c) (fun new =>
      (Ops.isTerminal c.node = some true ∧ IsFreshTerminal cfg new) ∨
      (Ops.isTerminal c.node = some false ∧ ∃ op ∈ cfg.ops, new = ⟨op, c.p1, c.p2⟩)) := by
  unfold randomizeNode
  apply Post.bind (post_isTerminalM c.node)
  intro t ht
  cases t with
  | true =>
    simp only [if_true]
    have := post_randomTerminalCommand cfg
    unfold randomTerminalCommand at this
    exact this.mono fun new hnew => Or.inl ⟨ht, hnew⟩
  | false =>
    simp only [Bool.false_eq_true, if_false]
    apply Post.bind (post_randomOperator cfg)
    intro op hop
    exact post_pure (Or.inr ⟨ht, op, hop, rfl⟩)

/-- the loop variable keeps the kind (and, for operators, the parameters) of the original row -/
def SameKind (old cur : Cmd) : Prop :=
  Ops.isTerminal cur.node = Ops.isTerminal old.node ∧
    (Ops.isTerminal old.node = some false → cur.p1 = old.p1 ∧ cur.p2 = old.p2)

theorem post_mutateNodeLoop_mutant (cfg : Config) (hcfg : CfgOK cfg) (old : Cmd) : ∀ fuel cur,
    SameKind old cur → Post (mutateNodeLoop cfg old fuel cur) (NodeMutant cfg old) := by
  intro fuel
  induction fuel with
  | zero => intro cur _; exact post_starve
  | succ fuel ih =>
    intro cur hk
    unfold mutateNodeLoop
    apply Post.bind (post_randomizeNode_kind cfg cur)
    intro new hnew
    have hdesc : (Ops.isTerminal old.node = some true ∧ IsFreshTerminal cfg new) ∨
        (Ops.isTerminal old.node = some false ∧ ∃ op ∈ cfg.ops, new = ⟨op, old.p1, old.p2⟩) := by
      rcases hnew with ⟨ht, hf⟩ | ⟨ht, op, hop, rfl⟩
      · exact Or.inl ⟨by rw [← hk.1]; exact ht, hf⟩
      · have ht' : Ops.isTerminal old.node = some false := by rw [← hk.1]; exact ht
        obtain ⟨e1, e2⟩ := hk.2 ht'
        exact Or.inr ⟨ht', op, hop, by rw [e1, e2]⟩
    apply post_ite
    · intro _
      apply ih new
      rcases hdesc with ⟨ht, hf⟩ | ⟨ht, op, hop, rfl⟩
      · exact ⟨by rw [ht]; exact hf.isTerminal, fun h => by rw [ht] at h; cases h⟩
      · exact ⟨by rw [ht]; exact hcfg.1 op hop, fun _ => ⟨rfl, rfl⟩⟩
    · intro hne
      exact post_pure ⟨fun e => hne e.symm, hdesc⟩

theorem ofOption_some_bind {α β : Type} (k : PyErr) (a : α) (f : α → M β) :
    (M.ofOption k (some a) >>= f) = f a := rfl

theorem randomizeNode_reach {cfg : Config} {old new : Cmd}
    (h : (Ops.isTerminal old.node = some true ∧ IsFreshTerminal cfg new) ∨
      (Ops.isTerminal old.node = some false ∧ ∃ op ∈ cfg.ops, new = ⟨op, old.p1, old.p2⟩))
    (rest : List Nat) : ∃ pre, randomizeNode cfg old (pre ++ rest) = .ok (new, rest) := by
  unfold randomizeNode isTerminalM
  rcases h with ⟨ht, hf⟩ | ⟨ht, op, hop, rfl⟩
  · rw [ht, ofOption_some_bind]
    simp only [if_true]
    have := randomTerminalCommand_reach hf rest
    unfold randomTerminalCommand at this
    exact this
  · rw [ht, ofOption_some_bind]
    simp only [Bool.false_eq_true, if_false]
    obtain ⟨k, hk⟩ := randomOperator_reach hop rest
    exact ⟨[k], bind_ok hk rfl⟩

theorem mutateNodeLoop_complete {cfg : Config} {old new : Cmd} (h : NodeMutant cfg old new)
    (rest : List Nat) :
    ∃ pre, ∀ fuel, mutateNodeLoop cfg old (fuel+1) old (pre ++ rest) = .ok (new, rest) := by
  obtain ⟨pre, hp⟩ := randomizeNode_reach h.2 rest
  refine ⟨pre, fun fuel => ?_⟩
  unfold mutateNodeLoop
  refine bind_ok hp ?_
  have hne : ¬ old.node = new.node := fun e => h.1 e.symm
  rw [if_neg hne]; rfl

theorem mutateNodeLoop_ok_iff (cfg : Config) (hcfg : CfgOK cfg) (old : Cmd) :
    (∃ fuel ds r, mutateNodeLoop cfg old fuel old ds = .ok r) ↔ CanProgressNodeCmd cfg old := by
  constructor
  · rintro ⟨fuel, ds, ⟨new, rest⟩, h⟩
    exact ⟨new, (post_mutateNodeLoop_mutant cfg hcfg old fuel old ⟨rfl, fun _ => ⟨rfl, rfl⟩⟩
      ds new rest h).1⟩
  · rintro ⟨new, h⟩
    obtain ⟨pre, hp⟩ := mutateNodeLoop_complete h []
    exact ⟨1, _, _, hp 0⟩

/-- the positions `_get_random_node_mutation_location` chooses from -/
def nodeIndices (cfg : Config) (s : Stack) (u : List Bool) : List Nat :=
  indicesWhere (fun i x =>
      x && (match s[i]? with
            | some c => (match Ops.isTerminal c.node with
                         | some true => decide (numberOfTerminals cfg > 1)
                         | some false => decide (numberOfOperators cfg > 1)
                         | none => false)
            | none => false)) 0 u

theorem randomNodeMutationLocation_eq (cfg : Config) (s : Stack) :
    randomNodeMutationLocation cfg s = (do
      let util ← utilizedM s
      let index ← drawBelow (nodeIndices cfg s util).length
      M.ofOption .indexError (nodeIndices cfg s util)[index]?) := rfl

theorem mutateNode_ok_elim {cfg : Config} (hcfg : CfgOK cfg) {s : Stack} {ds : List Nat} {child : Stack}
    {rest : List Nat} (h : mutateNode cfg s ds = .ok (child, rest)) :
    ∃ u d ds1 loc old new, Reduce.utilized s = some u ∧ ds = d :: ds1 ∧
      (nodeIndices cfg s u)[d]? = some loc ∧ s[loc]? = some old ∧ NodeMutant cfg old new ∧
      child = s.set loc new := by
  unfold mutateNode at h
  obtain ⟨loc, ds1, h1, h2⟩ := (bind_ok_iff _ _ _ _ _).mp h
  clear h
  rw [randomNodeMutationLocation_eq] at h1
  obtain ⟨u, ds0, hu0, h3⟩ := (bind_ok_iff _ _ _ _ _).mp h1
  clear h1
  obtain ⟨hu, e0⟩ := (utilizedM_ok_iff _ _ _ _).mp hu0
  clear hu0
  subst e0
  obtain ⟨d, ds0', hd, h4⟩ := (bind_ok_iff _ _ _ _ _).mp h3
  clear h3
  obtain ⟨e1, hdlt⟩ := (drawBelow_ok_iff _ _ _ _).mp hd
  clear hd
  subst e1
  obtain ⟨hloc, e2⟩ := (ofOption_ok_iff _ _ _ _ _).mp h4
  clear h4
  subst e2
  obtain ⟨old, ds2, hold0, h5⟩ := (bind_ok_iff _ _ _ _ _).mp h2
  clear h2
  obtain ⟨hold, e3⟩ := (ofOption_ok_iff _ _ _ _ _).mp hold0
  clear hold0
  subst e3
  obtain ⟨fuel, ds3, hf, h6⟩ := (bind_ok_iff _ _ _ _ _).mp h5
  clear h5
  obtain ⟨e4, e5⟩ := (remaining_ok_iff _ _ _).mp hf
  clear hf
  subst e4 e5
  obtain ⟨new, ds4, hnew, h7⟩ := (bind_ok_iff _ _ _ _ _).mp h6
  clear h6
  obtain ⟨_, e6, _⟩ := (setRow_ok_iff _ _ _ _ _ _).mp h7
  clear h7
  subst e6
  have hm := (post_mutateNodeLoop_mutant cfg hcfg old _ old ⟨rfl, fun _ => ⟨rfl, rfl⟩⟩ _ _ _ hnew).1
  exact ⟨u, d, _, loc, old, new, hu, rfl, hloc, hold, hm, rfl⟩

theorem mutateNode_complete {cfg : Config} {s : Stack} {u : List Bool} {d loc : Nat} {old new : Cmd}
    (hu : Reduce.utilized s = some u) (hd : (nodeIndices cfg s u)[d]? = some loc)
    (hold : s[loc]? = some old) (hnew : NodeMutant cfg old new) (rest : List Nat) :
    ∃ pre, mutateNode cfg s (d :: (pre ++ rest)) = .ok (s.set loc new, rest) := by
  obtain ⟨pre, hp⟩ := mutateNodeLoop_complete hnew rest
  refine ⟨pre, ?_⟩
  unfold mutateNode
  have hdlt := (List.getElem?_eq_some_iff.mp hd).1
  have hloc : randomNodeMutationLocation cfg s (d :: (pre ++ rest)) = .ok (loc, pre ++ rest) := by
    rw [randomNodeMutationLocation_eq]
    exact bind_ok ((utilizedM_ok_iff _ _ _ _).mpr ⟨hu, rfl⟩)
      (bind_ok (drawBelow_ok hdlt _) (ofOption_ok _ hd _))
  refine bind_ok hloc (bind_ok (getRow_ok hold _) (bind_ok (a := (pre ++ rest).length) rfl
    (bind_ok (hp _) (setRow_ok (List.getElem?_eq_some_iff.mp hold).1 _ _))))

/-! ## parameter mutation: the loop can always exit on a well-formed parent -/

theorem indicesWhere_nodup {α : Type} (p : Nat → α → Bool) : ∀ (l : List α) (k : Nat),
    (indicesWhere p k l).Nodup := by
  intro l
  induction l with
  | nil => intro k; simp [indicesWhere]
  | cons hd tl ih =>
    intro k
    unfold indicesWhere
    split
    · refine List.nodup_cons.mpr ⟨?_, ih (k+1)⟩
      intro hm
      obtain ⟨j, _, hj, _⟩ := (mem_indicesWhere p tl (k+1) k).mp hm
      omega
    · exact ih (k+1)

/-- the rows `_get_random_param_mut_location` starts from: utilized, and with a parameter to mutate -/
def paramIndices (cfg : Config) (s : Stack) (u : List Bool) : List Nat :=
  indicesWhere (fun i x =>
      x && (match s[i]? with
            | some c => !([CONSTANT, INTEGER] ++ (if cfg.D ≤ 1 then [VARIABLE] else [])).contains c.node
            | none => false)) 0 u

/-- what `_get_random_param_mut_location` can return -/
def ParamEligible (cfg : Config) (s : Stack) (loc : Nat) : Prop :=
  ∃ u, Reduce.utilized s = some u ∧ loc ∈ paramIndices cfg s u ∧
    (loc = 1 → ∃ c, s[1]? = some c ∧ Ops.isTerminal c.node = some true)

theorem post_randomParamMutLocation_eligible (cfg : Config) (s : Stack) :
    Post (randomParamMutLocation cfg s) (fun o => ∀ loc, o = some loc → ParamEligible cfg s loc) := by
  unfold randomParamMutLocation
  apply Post.bind (post_utilizedM s)
  intro u hu
  have hjp : ∀ indices : List Nat, (∀ loc ∈ indices, ParamEligible cfg s loc) →
      Post (if indices.isEmpty = true then (pure none : M (Option Nat))
      else do
        let index ← drawBelow indices.length
        let loc ← M.ofOption PyErr.indexError indices[index]?
        pure (some loc)) (fun o => ∀ loc, o = some loc → ParamEligible cfg s loc) := by
    intro inds hinds
    apply post_ite
    · intro _; exact post_pure (by simp)
    · intro _
      apply Post.bind (post_drawBelow _)
      intro k _
      apply Post.bind (post_ofOption (P := fun loc => loc ∈ inds) fun _ h => List.mem_of_getElem? h)
      intro loc hloc
      apply post_pure
      intro loc' e; cases e; exact hinds loc hloc
  dsimp only
  apply post_ite
  · intro _
    apply Post.bind (post_getRow s 1)
    intro c hc
    apply Post.bind (post_isTerminalM c.node)
    intro t ht
    apply post_ite
    · intro htt
      subst htt
      apply Post.bind (post_pure (P := fun inds => inds = paramIndices cfg s u) rfl)
      rintro inds rfl
      exact hjp _ fun loc hloc => ⟨u, hu, hloc, fun _ => ⟨c, hc, ht⟩⟩
    · intro _
      apply Post.bind (post_pure (P := fun inds => inds = (paramIndices cfg s u).erase 1) rfl)
      rintro inds rfl
      apply hjp
      intro loc hloc
      have hnd : (paramIndices cfg s u).Nodup := indicesWhere_nodup _ _ _
      rw [hnd.mem_erase_iff] at hloc
      exact ⟨u, hu, hloc.2, fun e => absurd e hloc.1⟩
  · intro hnc
    apply Post.bind (post_pure (P := fun inds => inds = paramIndices cfg s u) rfl)
    rintro inds rfl
    apply hjp
    intro loc hloc
    refine ⟨u, hu, hloc, fun e => ?_⟩
    subst e
    exact absurd (List.contains_iff_mem.mpr hloc) hnc

/-- at an eligible row of a well-formed parent, `_randomize_parameters` can return a different row -/
theorem randomizeParameters_can_differ {cfg : Config} {s : Stack} (hwf : WF.WFGenome cfg.D cfg.ops s)
    {loc : Nat} (hel : ParamEligible cfg s loc) {old : Cmd} (hold : s[loc]? = some old)
    (rest : List Nat) :
    ∃ new pre, new ≠ old ∧ randomizeParameters cfg old loc (pre ++ rest) = .ok (new, rest) := by
  obtain ⟨u, _, hmem, hrow1⟩ := hel
  rw [paramIndices, mem_indicesWhere_zero] at hmem
  obtain ⟨x, _, hp⟩ := hmem
  rw [hold] at hp
  simp only [Bool.and_eq_true, Bool.not_eq_true'] at hp
  have hnot := hp.2
  have hrow := rowOK_iff_spec.mp (wf_rowOK hwf hold)
  unfold randomizeParameters isTerminalM
  cases hrow with
  | var hv h0 h1 =>
    -- a VARIABLE row is only eligible when `D ≥ 2`
    have hD : 2 ≤ cfg.D := by
      by_cases h : cfg.D ≤ 1
      · rw [hv, if_pos h] at hnot; exact absurd hnot (by decide)
      · omega
    have ht : Ops.isTerminal old.node = some true := by rw [hv]; exact variable_facts.1
    rw [ht, ofOption_some_bind]
    simp only [if_true]
    -- choose another column
    let v : Nat := if old.p1 = 0 then 1 else 0
    have hvlt : v < cfg.D := by dsimp only [v]; split <;> omega
    have hvne : (Int.ofNat v) ≠ old.p1 := by
      dsimp only [v]; split
      · next e => rw [e]; decide
      · next e => intro e'; exact e e'.symm
    refine ⟨⟨old.node, Int.ofNat v, Int.ofNat v⟩, [v], ?_, ?_⟩
    · intro e; apply hvne; rw [← e]
    · refine bind_ok (a := Int.ofNat v) (ds' := rest) ?_ rfl
      unfold randomTerminalParameter
      rw [if_pos hv]
      exact bind_ok (drawBelow_ok hvlt rest) rfl
  | const hv => rw [hv] at hnot; exact absurd hnot (by simp)
  | int hv => rw [hv] at hnot; split at hnot <;> exact absurd hnot (by decide)
  | op ht hm h10 h1 h20 h2 =>
    have hloc2 : 2 ≤ loc := by
      by_cases e : loc = 1
      · obtain ⟨c, hc, hct⟩ := hrow1 e
        subst e
        rw [hold] at hc; cases hc
        rw [ht] at hct; cases hct
      · omega
    rw [ht, ofOption_some_bind]
    simp only [Bool.false_eq_true, if_false]
    let a : Nat := if old.p1 = 0 then 1 else 0
    have halt : a < loc := by dsimp only [a]; split <;> omega
    have hane : (Int.ofNat a) ≠ old.p1 := by
      dsimp only [a]; split
      · next e => rw [e]; decide
      · next e => intro e'; exact e e'.symm
    obtain ⟨b2, hb2⟩ := arity_of_operator ht
    unfold isArity2M
    cases b2 with
    | true =>
      refine ⟨⟨old.node, Int.ofNat a, Int.ofNat 0⟩, [a, 0], fun e => hane (by rw [← e]), ?_⟩
      refine bind_ok (randomOperatorParameter_ok halt _) ?_
      rw [hb2, ofOption_some_bind]
      simp only [if_true]
      exact bind_ok (randomOperatorParameter_ok (by omega) _) rfl
    | false =>
      refine ⟨⟨old.node, Int.ofNat a, old.p2⟩, [a], fun e => hane (by rw [← e]), ?_⟩
      refine bind_ok (randomOperatorParameter_ok halt _) ?_
      rw [hb2, ofOption_some_bind]
      simp only [Bool.false_eq_true, if_false]
      rfl

/-- hence the rejection loop of `_mutate_parameters` can exit in its first iteration -/
theorem mutateParametersLoop_can_exit {cfg : Config} {s : Stack} (hwf : WF.WFGenome cfg.D cfg.ops s)
    {loc : Nat} (hel : ParamEligible cfg s loc) {old : Cmd} (hold : s[loc]? = some old)
    (rest : List Nat) :
    ∃ new pre, new ≠ old ∧
      ∀ fuel, mutateParametersLoop cfg loc old (fuel+1) old (pre ++ rest) = .ok (new, rest) := by
  obtain ⟨new, pre, hne, hp⟩ := randomizeParameters_can_differ hwf hel hold rest
  refine ⟨new, pre, hne, fun fuel => ?_⟩
  unfold mutateParametersLoop
  refine bind_ok hp ?_
  have hne' : ¬ old = new := fun e => hne e.symm
  rw [if_neg hne']; rfl

/-! ## closed forms -/

/-- with a valid configuration the command-mutation loop can exit unless there are no variables, the
row is a CONSTANT and no operator command can be drawn at this row -/
theorem canProgressCmd_iff {cfg : Config} (hcfg : CfgOK cfg) (loc : Nat) (old : Cmd) :
    CanProgressCmd cfg loc old ↔
      1 ≤ cfg.D ∨ old.node ≠ CONSTANT ∨ (cfg.nLoad ≤ loc ∧ 1 ≤ loc ∧ cfg.ops ≠ []) := by
  constructor
  · rintro ⟨new, hf, hr⟩
    by_cases hD : 1 ≤ cfg.D
    · exact Or.inl hD
    by_cases hc : old.node = CONSTANT
    · refine Or.inr (Or.inr ?_)
      rcases hf with (rfl | ⟨v, hv, _⟩) | ⟨hl, op, a, b, hop, ha, _, _⟩
      · exact absurd (Or.inr ⟨hc, rfl⟩) hr
      · omega
      · exact ⟨hl, by omega, fun e => by rw [e] at hop; simp at hop⟩
    · exact Or.inr (Or.inl hc)
  · intro h
    by_cases hc : old.node = CONSTANT
    · rcases h with hD | hn | ⟨hl, h1, hne⟩
      · refine ⟨⟨VARIABLE, Int.ofNat 0, Int.ofNat 0⟩, Or.inl (Or.inr ⟨0, by omega, rfl⟩), ?_⟩
        rintro (e | ⟨_, e⟩)
        · rw [← e] at hc; exact absurd hc (by decide)
        · exact absurd e (by decide)
      · exact absurd hc hn
      · obtain ⟨op, hop⟩ := List.exists_mem_of_ne_nil _ hne
        refine ⟨⟨op, Int.ofNat 0, Int.ofNat 0⟩, Or.inr ⟨hl, op, 0, 0, hop, by omega, by omega, rfl⟩, ?_⟩
        have hnt : op ≠ CONSTANT := by
          intro e; have := hcfg.1 op hop; rw [e, constant_facts.1] at this; cases this
        rintro (e | ⟨_, e⟩)
        · rw [← e] at hc; exact hnt hc
        · exact hnt e
    · refine ⟨⟨CONSTANT, -1, -1⟩, Or.inl (Or.inl rfl), ?_⟩
      rintro (e | ⟨e, _⟩)
      · rw [← e] at hc; exact hc rfl
      · exact hc e

/-- with a valid configuration the node-mutation loop can exit on a terminal row unless it is a
CONSTANT and there are no variables, and on an operator row iff a different operator is enabled -/
theorem canProgressNodeCmd_iff {cfg : Config} (old : Cmd) :
    CanProgressNodeCmd cfg old ↔
      (Ops.isTerminal old.node = some true ∧ (old.node ≠ CONSTANT ∨ 1 ≤ cfg.D)) ∨
      (Ops.isTerminal old.node = some false ∧ ∃ op ∈ cfg.ops, op ≠ old.node) := by
  rw [canProgressNodeCmd_iff_list]
  refine or_congr (and_congr_right fun _ => ?_) Iff.rfl
  constructor
  · rintro ⟨new, hf, hne⟩
    rcases mem_freshTerminals.mp hf with rfl | ⟨v, hv, rfl⟩
    · exact Or.inl fun e => hne e.symm
    · exact Or.inr (by omega)
  · intro h
    by_cases hc : old.node = CONSTANT
    · rcases h with h | h
      · exact absurd hc h
      · refine ⟨⟨VARIABLE, Int.ofNat 0, Int.ofNat 0⟩, mem_freshTerminals.mpr (Or.inr ⟨0, by omega, rfl⟩), ?_⟩
        rw [hc]; decide
    · exact ⟨⟨CONSTANT, -1, -1⟩, mem_freshTerminals.mpr (Or.inl rfl), fun e => hc e.symm⟩

/-! ## operation level -/

instance decExSome {α : Type} (o : Option α) (P : α → Prop) [∀ a, Decidable (P a)] :
    Decidable (∃ a, o = some a ∧ P a) :=
  match o with
  | none => isFalse (by simp)
  | some a => decidable_of_iff (P a) (by simp)

/-- row `loc` can be chosen by `_get_random_command_mutation_location` (it is utilized) -/
def CommandEligible (parent : Stack) (loc : Nat) : Prop :=
  ∃ u, Reduce.utilized parent = some u ∧ loc ∈ cmdIndices u
/-- row `loc` can be chosen by `_get_random_node_mutation_location` -/
def NodeEligible (cfg : Config) (parent : Stack) (loc : Nat) : Prop :=
  ∃ u, Reduce.utilized parent = some u ∧ loc ∈ nodeIndices cfg parent u
/-- the rejection loop of `_mutate_command` at row `loc` of `parent` can exit -/
def CanProgressCommand (cfg : Config) (parent : Stack) (loc : Nat) : Prop :=
  ∃ old, parent[loc]? = some old ∧ CanProgressCmd cfg loc old
/-- the rejection loop of `_mutate_node` at row `loc` of `parent` can exit -/
def CanProgressNode (cfg : Config) (parent : Stack) (loc : Nat) : Prop :=
  ∃ old, parent[loc]? = some old ∧ CanProgressNodeCmd cfg old

instance (parent : Stack) (loc : Nat) : Decidable (CommandEligible parent loc) := by
  unfold CommandEligible; infer_instance
instance (cfg : Config) (parent : Stack) (loc : Nat) : Decidable (NodeEligible cfg parent loc) := by
  unfold NodeEligible; infer_instance
instance (cfg : Config) (parent : Stack) (loc : Nat) : Decidable (CanProgressCommand cfg parent loc) := by
  unfold CanProgressCommand; infer_instance
instance (cfg : Config) (parent : Stack) (loc : Nat) : Decidable (CanProgressNode cfg parent loc) := by
  unfold CanProgressNode; infer_instance

deriving instance DecidableEq for Var.Res

end VarLemmas
end Bingo
