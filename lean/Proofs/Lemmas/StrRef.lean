import Proofs.Lemmas.StrPostfix
import Proofs.Lemmas.MathSem
/-!
# Reference semantics of postfix token lists, and soundness / completeness of `postfixToCommands`

`refRun` is a plain stack machine over `Option ℝ` values (`none` = the value refers to a data column or a
constant that does not exist); it never mentions command arrays.  Operator tokens pop two values and apply
`MathSem.bin`, function tokens pop one and apply `MathSem.un`, `x_k` loads column `k`, an explicit `c_k`
loads constant `k` of the constant list handed to the machine (for `postfixToCommands` that is the list of
constants it RETURNS, exactly as the command array will be evaluated), integer numerals push the integer,
float literals push `val tok` (`val` models Python's `float`).
-/
namespace Bingo
namespace Str
namespace Ref
open Bingo.Str.Tables Gen.OpDefs Post

/-- value of a token that is neither operator nor function; outer `none` = the token is rejected -/
def atomVal (x cs : List ℝ) (val : String → ℝ) (tok : String) : Option (Option ℝ) :=
  match matchVarOrConst tok.toList with
  | some (g0, g1) =>
    (operator_map.lookup (String.ofList [g0])).bind fun node =>
      if g1.length ≤ intMaxStrDigits then some (MathSem.leaf x cs node ((digitsToNat g1 : Nat) : Int))
      else none
  | none =>
    if matchInt tok.toList then
      if tok.toList.length ≤ intMaxStrDigits then some (some (((digitsToNat tok.toList : Nat) : Int) : ℝ))
      else none
    else if pyFloatOk tok.toList then some (some (val tok))
    else none

/-- one step of the reference machine (top of the stack at the head) -/
noncomputable def refStep (x cs : List ℝ) (val : String → ℝ) (R : List (Option ℝ)) (tok : String) :
    Option (List (Option ℝ)) :=
  if operators.contains tok then
    match R with
    | b :: a :: rest =>
      (operator_map.lookup tok).map fun node =>
        (a.bind fun va => b.bind fun vb => MathSem.bin node va vb) :: rest
    | _ => none
  else if functions.contains tok then
    match R with
    | a :: rest => (operator_map.lookup tok).map fun node => (a.bind (MathSem.un node)) :: rest
    | [] => none
  else (atomVal x cs val tok).map (· :: R)

/-- the reference machine -/
noncomputable def refRun (x cs : List ℝ) (val : String → ℝ) :
    List String → List (Option ℝ) → Option (List (Option ℝ))
  | [], R => some R
  | t :: rest, R => (refStep x cs val R t).bind (refRun x cs val rest)

theorem refRun_append (x cs : List ℝ) (val : String → ℝ) (a b : List String) (R : List (Option ℝ)) :
    refRun x cs val (a ++ b) R = (refRun x cs val a R).bind (refRun x cs val b) := by
  induction a generalizing R with
  | nil => rfl
  | cons t a ih =>
    simp only [List.cons_append, refRun]
    cases refStep x cs val R t with
    | none => rfl
    | some R1 => simpa using ih R1

/-! ## the value of a row -/

/-- value of row `j` of a command array -/
noncomputable def rowVal (x cs : List ℝ) (cmds : List Cmd) (j : Nat) : Option ℝ :=
  MathSem.den x cs ((ETree.trees cmds)[j]?.getD .bad)

theorem getT_nat {N : Nat} {T : List ETree} {a : Nat} (ha : a < T.length) (hN : T.length ≤ N) :
    ETree.getT N T (a : Int) = T[a]?.getD .bad := by
  rw [StrTrees.getT_eq (by omega) (by simpa using ha) hN]
  simp

theorem den_leaf_row (x cs : List ℝ) (N : Nat) (T : List ETree) (node k : Int)
    (h : node = VARIABLE ∨ node = CONSTANT ∨ node = INTEGER) :
    MathSem.den x cs (ETree.rowTree N T ⟨node, k, k⟩) = MathSem.leaf x cs node k := by
  have := leaf_isTerminal h
  simp only [ETree.rowTree, this.1, this.2, MathSem.den]

/-- one step: the machine does what `pushCommand` does -/
theorem step_val (x : List ℝ) (val : String → ℝ) (cfin : List String) {st : PState} {tok : String}
    {stk : List Nat} {cs' : List String} {c : Cmd} (hinv : PInv st)
    (ha : stepArgs st tok = some (stk, cs', c)) (hpre : cs' <+: cfin) :
    refStep x (cfin.map val) val (st.stack.map (rowVal x (cfin.map val) st.cmds)) tok =
      some (MathSem.den x (cfin.map val)
          (ETree.rowTree (st.cmds.length + 1) (ETree.trees st.cmds) c) ::
        stk.map (rowVal x (cfin.map val) st.cmds)) := by
  have hl := StrTrees.trees_length st.cmds
  unfold stepArgs at ha
  unfold refStep
  split at ha
  · next ho =>
    rw [if_pos ho]
    split at ha
    · next b a rest heq =>
      cases hlk : operator_map.lookup tok with
      | none => simp [hlk] at ha
      | some node =>
        simp only [hlk, Option.map_some, Option.some.injEq, Prod.mk.injEq] at ha
        obtain ⟨rfl, rfl, rfl⟩ := ha
        have hn := op_node ho hlk
        have hA := hinv.stk a (by simp [heq])
        have hB := hinv.stk b (by simp [heq])
        simp only [heq, List.map_cons, Option.map_some, ETree.rowTree, hn.1, hn.2, MathSem.den,
          rowVal, getT_nat (N := st.cmds.length + 1) (show a < (ETree.trees st.cmds).length by omega)
            (by omega),
          getT_nat (N := st.cmds.length + 1) (show b < (ETree.trees st.cmds).length by omega)
            (by omega)]
    · cases ha
  · next ho =>
    rw [if_neg ho]
    split at ha
    · next hf =>
      rw [if_pos hf]
      split at ha
      · next a rest heq =>
        cases hlk : operator_map.lookup tok with
        | none => simp [hlk] at ha
        | some node =>
          simp only [hlk, Option.map_some, Option.some.injEq, Prod.mk.injEq] at ha
          obtain ⟨rfl, rfl, rfl⟩ := ha
          have hn := fn_node hf hlk
          have hA := hinv.stk a (by simp [heq])
          simp only [heq, List.map_cons, Option.map_some, ETree.rowTree, hn.1, hn.2, MathSem.den,
            rowVal, getT_nat (N := st.cmds.length + 1)
              (show a < (ETree.trees st.cmds).length by omega) (by omega)]
      · cases ha
    · next hf =>
      rw [if_neg hf]
      unfold atomVal
      split at ha
      · next g0 g1 heq =>
        have hm := matchVarOrConst_some heq
        have hlk := name_lookup hm.1
        rw [hlk] at ha
        simp only [heq, hlk, Option.bind_some] at ha ⊢
        split at ha
        · next hlen =>
          simp only [Option.some.injEq, Prod.mk.injEq] at ha
          obtain ⟨rfl, rfl, rfl⟩ := ha
          rw [if_pos hlen]
          simp only [Option.map_some]
          rw [den_leaf_row]
          split
          · exact Or.inl rfl
          · exact Or.inr (Or.inl rfl)
        · cases ha
      · next heq =>
        simp only [heq]
        split at ha
        · next hi =>
          rw [if_pos hi]
          split at ha
          · next hlen =>
            simp only [Option.some.injEq, Prod.mk.injEq] at ha
            obtain ⟨rfl, rfl, rfl⟩ := ha
            rw [if_pos hlen]
            simp only [Option.map_some]
            simp only [NODE_INTEGER]
            rw [den_leaf_row _ _ _ _ _ _ (Or.inr (Or.inr rfl))]
            simp [MathSem.leaf]
          · cases ha
        · next hi =>
          rw [if_neg hi]
          split at ha
          · next hfl =>
            simp only [Option.some.injEq, Prod.mk.injEq] at ha
            obtain ⟨rfl, rfl, rfl⟩ := ha
            rw [if_pos hfl]
            simp only [Option.map_some]
            simp only [NODE_CONSTANT]
            rw [den_leaf_row _ _ _ _ _ _ (Or.inr (Or.inl rfl))]
            obtain ⟨ext, rfl⟩ := hpre
            have hlt : st.consts.length < ((st.consts ++ [tok] ++ ext).map val).length := by
              simp
            simp only [MathSem.leaf, show ¬ CONSTANT = INTEGER from by decide,
              show ¬ CONSTANT = VARIABLE from by decide, ↓reduceIte]
            rw [pyIdx_of_lt (by omega) (by simp)]
            simp
          · cases ha

/-- the invariant relating the machine's stack to the parser's stack -/
theorem loop_val (x : List ℝ) (val : String → ℝ) (cfin : List String) {toks : List String}
    {st st' : PState} (hinv : PInv st) (h : postfixLoop toks st = .ok st')
    (hfin : st'.consts <+: cfin) :
    refRun x (cfin.map val) val toks (st.stack.map (rowVal x (cfin.map val) st.cmds)) =
      some (st'.stack.map (rowVal x (cfin.map val) st'.cmds)) := by
  induction toks generalizing st with
  | nil => simp only [postfixLoop] at h; cases h; rfl
  | cons t rest ih =>
    obtain ⟨st1, h1, h2⟩ := postfixLoop_cons.mp h
    obtain ⟨stk, cs', c, ha, rfl⟩ := postfixStep_ok_iff.mp h1
    have hargs := stepArgs_ok hinv.stk ha
    obtain ⟨j, hj, hcs⟩ := pushCommand_stack st stk cs' c
    have hpre : cs' <+: cfin := by
      have := (postfixLoop_consts h2).trans hfin
      rwa [hcs] at this
    obtain ⟨j', hj', htop, hstable⟩ := push_trees (cs := cs') hinv hargs
    have hinv1 := pushCommand_inv (cs := cs') hinv hargs
    simp only [refRun]
    rw [step_val x val cfin hinv ha hpre]
    simp only [Option.bind_some]
    rw [← ih hinv1 h2]
    congr 1
    rw [hj']
    simp only [List.map_cons, rowVal, htop, Option.getD_some, List.cons.injEq, true_and]
    apply List.map_congr_left
    intro i hi
    simp only [rowVal]
    rw [hstable i (hinv.stk i (hargs.sub i hi))]

/-- B: `postfixToCommands` never silently yields a different function -/
theorem postfix_sound (val : String → ℝ) (x : List ℝ) (toks : List String) (s' : Stack)
    (c' : List String) (hne : toks ≠ []) (h : postfixToCommands toks = .ok (s', c')) :
    refRun x (c'.map val) val toks [] = some [MathSem.den x (c'.map val) (ETree.ofStack s')] := by
  obtain ⟨_, st', hl, hlen, _, rfl, rfl⟩ := postfixToCommands_ok_iff.mp h
  have hinv := postfixLoop_inv PInv.init hl
  have hv := loop_val x val st'.consts PInv.init hl (List.prefix_refl _)
  have hs := postfixLoop_stack_ne hne hl
  obtain ⟨j, hj⟩ : ∃ j, st'.stack = [j] := by
    match hst : st'.stack, hs, hlen with
    | [j], _, _ => exact ⟨j, rfl⟩
    | [], hs, _ => exact absurd rfl hs
    | _ :: _ :: _, _, hlen => simp at hlen
  have hroot := hinv.root_last hj
  simp only [List.map_nil] at hv
  rw [hv, hj, StrTrees.ofStack_eq_last]
  simp only [List.map_cons, List.map_nil, rowVal]
  rw [show st'.cmds.length - 1 = j by omega]

/-! ## completeness: the parser raises only where the machine does -/

theorem stepArgs_isSome_iff (x cs : List ℝ) (val : String → ℝ) (st : PState) (R : List (Option ℝ))
    (tok : String) (hlen : R.length = st.stack.length) :
    (stepArgs st tok).isSome = (refStep x cs val R tok).isSome := by
  unfold stepArgs refStep atomVal
  split
  · match hR : R, hS : st.stack, hlen with
    | [], [], _ => simp
    | [_], [_], _ => simp
    | _ :: _ :: _, _ :: _ :: _, _ => cases operator_map.lookup tok <;> simp
  · split
    · match hR : R, hS : st.stack, hlen with
      | [], [], _ => simp
      | _ :: _, _ :: _, _ => cases operator_map.lookup tok <;> simp
    · split
      · next g0 g1 heq =>
        simp only [heq]
        cases operator_map.lookup (String.ofList [g0]) with
        | none => simp
        | some node => simp only [Option.bind_some]; split <;> simp
      · next heq =>
        simp only [heq]
        split
        · split <;> simp
        · split <;> simp

theorem refStep_length {x cs : List ℝ} {val : String → ℝ} {st : PState} {R R1 : List (Option ℝ)}
    {tok : String} {stk : List Nat} {cs' : List String} {c : Cmd}
    (hlen : R.length = st.stack.length) (ha : stepArgs st tok = some (stk, cs', c))
    (hr : refStep x cs val R tok = some R1) : R1.length = stk.length + 1 := by
  unfold stepArgs at ha
  unfold refStep at hr
  split at ha
  · next ho =>
    rw [if_pos ho] at hr
    split at ha
    · next b a rest heq =>
      cases hlk : operator_map.lookup tok with
      | none => simp [hlk] at ha
      | some node =>
        simp only [hlk, Option.map_some, Option.some.injEq, Prod.mk.injEq] at ha
        obtain ⟨rfl, rfl, rfl⟩ := ha
        match R, hlen, hr with
        | _ :: _ :: R', hlen, hr =>
          simp only [hlk, Option.map_some, Option.some.injEq] at hr
          subst hr
          simp only [heq, List.length_cons] at hlen ⊢
          omega
    · cases ha
  · next ho =>
    rw [if_neg ho] at hr
    split at ha
    · next hf =>
      rw [if_pos hf] at hr
      split at ha
      · next a rest heq =>
        cases hlk : operator_map.lookup tok with
        | none => simp [hlk] at ha
        | some node =>
          simp only [hlk, Option.map_some, Option.some.injEq, Prod.mk.injEq] at ha
          obtain ⟨rfl, rfl, rfl⟩ := ha
          match R, hlen, hr with
          | _ :: R', hlen, hr =>
            simp only [hlk, Option.map_some, Option.some.injEq] at hr
            subst hr
            simp only [heq, List.length_cons] at hlen ⊢
            omega
      · cases ha
    · next hf =>
      rw [if_neg hf] at hr
      have hstk : stk = st.stack := by
        split at ha
        · next g0 g1 heq =>
          cases hlk : operator_map.lookup (String.ofList [g0]) with
          | none => rw [hlk] at ha; cases ha
          | some node =>
            rw [hlk] at ha
            simp only [Option.bind_some] at ha
            split at ha
            · simp only [Option.some.injEq, Prod.mk.injEq] at ha; exact ha.1.symm
            · cases ha
        · split at ha
          · split at ha
            · simp only [Option.some.injEq, Prod.mk.injEq] at ha; exact ha.1.symm
            · cases ha
          · split at ha
            · simp only [Option.some.injEq, Prod.mk.injEq] at ha; exact ha.1.symm
            · cases ha
      cases hav : atomVal x cs val tok with
      | none => simp [hav] at hr
      | some v =>
        simp only [hav, Option.map_some, Option.some.injEq] at hr
        subst hr
        simp [hstk, hlen]

/-- the loop succeeds whenever the reference machine does -/
theorem loop_complete (x cs : List ℝ) (val : String → ℝ) {toks : List String} {st : PState}
    {R R' : List (Option ℝ)} (hlen : R.length = st.stack.length)
    (hr : refRun x cs val toks R = some R') :
    ∃ st', postfixLoop toks st = .ok st' ∧ R'.length = st'.stack.length := by
  induction toks generalizing st R with
  | nil => simp only [refRun, Option.some.injEq] at hr; subst hr; exact ⟨st, rfl, hlen⟩
  | cons t rest ih =>
    simp only [refRun] at hr
    cases hs : refStep x cs val R t with
    | none => simp [hs] at hr
    | some R1 =>
      simp only [hs, Option.bind_some] at hr
      have hsome := stepArgs_isSome_iff x cs val st R t hlen
      rw [hs] at hsome
      cases ha : stepArgs st t with
      | none => simp [ha] at hsome
      | some args =>
        obtain ⟨stk, cs', c⟩ := args
        have hl1 := refStep_length hlen ha hs
        obtain ⟨j, hj, _⟩ := pushCommand_stack st stk cs' c
        obtain ⟨st', h2, hl2⟩ := ih (st := pushCommand st stk cs' c) (R := R1)
          (by rw [hj]; simpa using hl1) hr
        exact ⟨st', postfixLoop_cons.mpr ⟨_, postfixStep_some ha, h2⟩, hl2⟩

end Ref
end Str
end Bingo
