import Proofs.Lemmas.CasSem
/-!
# The optional modifications (`Model/Cas/OptMod.lean`) preserve the fragment and the meaning

* generic tools: an induction principle for the nested inductive `Expr`, monotonicity of `nodeDen`,
  and the relation `Sim k T a b` ("`b` may replace `a`": same meaning everywhere, same kind of
  expression, `Ok k T` is kept) which is a congruence for `node o ·`;
* `insertSubtraction`: `Ok k T` is preserved (both `k`), the meaning is preserved EXACTLY;
* `replaceIntegerPowers`: `Ok k T` is preserved (both `k`), the meaning is preserved EXACTLY;
* `optionalModifications`: composition.

None of the semantic statements needs the `Ok` hypothesis.
-/
namespace Bingo
namespace Cas
open Gen.OpDefs
open Expr

/-! ## induction on the nested inductive `Expr` -/

/-- structural induction: a node may assume the statement for every operand -/
theorem Expr.ind' {P : Expr → Prop} (ht : ∀ o v n, P (term o v n))
    (hn : ∀ o as, (∀ a ∈ as, P a) → P (node o as)) : ∀ e, P e := by
  intro e
  induction e using Expr.rec (motive_2 := fun l => ∀ a ∈ l, P a) with
  | term o v n => exact ht o v n
  | node o as ih => exact hn o as ih
  | nil => rename_i h; cases h
  | cons a as iha ihas =>
    rename_i b hb
    rcases List.mem_cons.1 hb with rfl | h
    · exact iha
    · exact ihas b h

/-! ## monotonicity of the node meaning -/

theorem osum_mono {vs vs' : List (Option ℝ)} (h : List.Forall₂ (· ⊑ ·) vs vs') :
    osum vs ⊑ osum vs' := by
  induction h with
  | nil => exact Refines.rfl'
  | cons h1 _ ih => exact oadd_mono h1 ih

theorem oprod_mono {vs vs' : List (Option ℝ)} (h : List.Forall₂ (· ⊑ ·) vs vs') :
    oprod vs ⊑ oprod vs' := by
  induction h with
  | nil => exact Refines.rfl'
  | cons h1 _ ih => exact omul_mono h1 ih

/-- every node constructor is monotone in the meanings of its operands -/
theorem nodeDen_mono {o : Int} {lit : Option Int} {vs vs' : List (Option ℝ)}
    (h : List.Forall₂ (· ⊑ ·) vs vs') : nodeDen o lit vs ⊑ nodeDen o lit vs' := by
  unfold nodeDen
  by_cases h1 : o = ADDITION
  · rw [if_pos h1, if_pos h1]; exact osum_mono h
  rw [if_neg h1, if_neg h1]
  by_cases h2 : o = MULTIPLICATION
  · rw [if_pos h2, if_pos h2]; exact oprod_mono h
  rw [if_neg h2, if_neg h2]
  match vs, vs', h with
  | [], [], _ => exact Refines.rfl'
  | [_], [_], .cons ha .nil => exact bind_mono ha fun _ => Refines.rfl'
  | [_, _], [_, _], .cons ha (.cons hb .nil) =>
    dsimp only
    by_cases h3 : o = POWER
    · rw [if_pos h3, if_pos h3]
      cases lit with
      | none => exact bind_mono ha fun _ => bind_mono hb fun _ => Refines.rfl'
      | some n => exact bind_mono ha fun _ => Refines.rfl'
    · rw [if_neg h3, if_neg h3]
      exact bind_mono ha fun _ => bind_mono hb fun _ => Refines.rfl'
  | _ :: _ :: _ :: _, _ :: _ :: _ :: _, .cons _ (.cons _ (.cons _ _)) => exact Refines.none_left _

/-! ## replaceable expressions -/

/-- a terminal stays the same terminal, a node stays a node -/
def SameKind : Expr → Expr → Prop
  | term o v n, b => b = term o v n
  | node _ _, b => ∃ o bs, b = node o bs

theorem SameKind.refl (a : Expr) : SameKind a a := by
  cases a with
  | term o v n => rfl
  | node o as => exact ⟨o, as, rfl⟩

theorem SameKind.trans {a b c : Expr} (h1 : SameKind a b) (h2 : SameKind b c) : SameKind a c := by
  cases a with
  | term o v n => simp only [SameKind] at h1; subst h1; exact h2
  | node o as =>
    obtain ⟨o', bs, rfl⟩ := h1
    exact h2

theorem SameKind.node_node (o : Int) (as : List Expr) (o' : Int) (bs : List Expr) :
    SameKind (node o as) (node o' bs) := ⟨o', bs, rfl⟩

theorem SameKind.intVal {a b : Expr} (h : SameKind a b) : b.intVal? = a.intVal? := by
  cases a with
  | term o v n => simp only [SameKind] at h; subst h; rfl
  | node o as => obtain ⟨o', bs, rfl⟩ := h; rfl

theorem expLit_sameKind {as bs : List Expr} (h : List.Forall₂ SameKind as bs) :
    expLit bs = expLit as := by
  match as, bs, h with
  | [], [], _ => rfl
  | [_], [_], .cons _ .nil => rfl
  | [_, _], [_, _], .cons _ (.cons h2 .nil) => simp only [expLit, h2.intVal]
  | _ :: _ :: _ :: _, _ :: _ :: _ :: _, .cons _ (.cons _ (.cons _ _)) => rfl

theorem shapeOK_sameKind {k : Bool} {o : Int} {as bs : List Expr}
    (h : List.Forall₂ SameKind as bs) (hs : shapeOK k o as = true) : shapeOK k o bs = true := by
  have hl := h.length_eq
  simp only [shapeOK, Bool.and_eq_true] at hs ⊢
  refine ⟨⟨hs.1.1, ?_⟩, ?_⟩
  · have h2 := hs.1.2
    by_cases hp : o = POWER
    · rw [if_pos hp] at h2 ⊢
      match as, bs, h with
      | [], [], _ => exact h2
      | [_], [_], .cons _ .nil => exact h2
      | [_, term o' v n], [_, _], .cons _ (.cons hk .nil) =>
        simp only [SameKind] at hk; subst hk; exact h2
      | [_, node _ _], [_, _], .cons _ (.cons hk .nil) => simp at h2
      | _ :: _ :: _ :: _, _ :: _ :: _ :: _, .cons _ (.cons _ (.cons _ _)) => simp at h2
    · rw [if_neg hp]
  · rw [← hl]; exact hs.2

/-- `b` may replace `a`: the same meaning at every point, the same kind, `Ok k T` is kept -/
structure Sim (k : Bool) (T : Int → Int → Bool) (a b : Expr) : Prop where
  den : ∀ x cv, Expr.den x cv b = Expr.den x cv a
  kind : SameKind a b
  ok : Ok k T a = true → Ok k T b = true

section sim
variable {k : Bool} {T : Int → Int → Bool}

theorem Sim.refl (a : Expr) : Sim k T a a := ⟨fun _ _ => rfl, SameKind.refl a, id⟩

theorem Sim.trans {a b c : Expr} (h1 : Sim k T a b) (h2 : Sim k T b c) : Sim k T a c :=
  ⟨fun x cv => (h2.den x cv).trans (h1.den x cv), h1.kind.trans h2.kind, fun h => h2.ok (h1.ok h)⟩

theorem Sim.map_den {as bs : List Expr} (h : List.Forall₂ (Sim k T) as bs) (x : List ℝ)
    (cv : Int → ℝ) : bs.map (Expr.den x cv) = as.map (Expr.den x cv) := by
  induction h with
  | nil => rfl
  | cons h1 _ ih => simp [h1.den x cv, ih]

theorem Sim.all_ok {as bs : List Expr} (h : List.Forall₂ (Sim k T) as bs)
    (hok : ∀ a ∈ as, Ok k T a = true) : ∀ b ∈ bs, Ok k T b = true := by
  induction h with
  | nil => intro b hb; cases hb
  | cons h1 _ ih =>
    intro b hb
    rcases List.mem_cons.1 hb with rfl | hb
    · exact h1.ok (hok _ List.mem_cons_self)
    · exact ih (fun a ha => hok a (List.mem_cons_of_mem _ ha)) b hb

/-- `node o ·` is a congruence for `Sim` -/
theorem Sim.node {as bs : List Expr} (h : List.Forall₂ (Sim k T) as bs) (o : Int) :
    Sim k T (node o as) (node o bs) := by
  have hk : List.Forall₂ SameKind as bs := h.imp fun _ _ s => s.kind
  refine ⟨fun x cv => ?_, SameKind.node_node _ _ _ _, fun hok => ?_⟩
  · rw [den_node, den_node, expLit_sameKind hk, Sim.map_den h]
  · rw [Ok_node] at hok ⊢
    exact ⟨shapeOK_sameKind hk hok.1, Sim.all_ok h hok.2⟩

theorem Sim.forall₂_map {f : Expr → Expr} {as : List Expr} (h : ∀ a ∈ as, Sim k T a (f a)) :
    List.Forall₂ (Sim k T) as (as.map f) := by
  induction as with
  | nil => exact .nil
  | cons a as ih =>
    exact .cons (h a List.mem_cons_self) (ih fun b hb => h b (List.mem_cons_of_mem _ hb))

/-! ## shapes of rebuilt nodes -/

theorem shapeOK_add {l : List Expr} (h : k = true → 2 ≤ l.length) : shapeOK k ADDITION l = true := by
  have h1 : (ADDITION != SAFE_POWER) = true := by decide
  have h2 : ¬ ADDITION = POWER := by decide
  have h3 : (Ops.isTerminal ADDITION == some false) = true := by decide
  unfold shapeOK
  rw [h1, if_neg h2, h3, if_pos (Or.inl rfl)]
  cases k with
  | false => rfl
  | true => simp [h rfl]

theorem shapeOK_mul {l : List Expr} (h : k = true → 2 ≤ l.length) :
    shapeOK k MULTIPLICATION l = true := by
  have h1 : (MULTIPLICATION != SAFE_POWER) = true := by decide
  have h2 : ¬ MULTIPLICATION = POWER := by decide
  have h3 : (Ops.isTerminal MULTIPLICATION == some false) = true := by decide
  unfold shapeOK
  rw [h1, if_neg h2, h3, if_pos (Or.inr rfl)]
  cases k with
  | false => rfl
  | true => simp [h rfl]

theorem Ok_add {l : List Expr} (h : k = true → 2 ≤ l.length) (hl : ∀ a ∈ l, Ok k T a = true) :
    Ok k T (node ADDITION l) = true := Ok_node.2 ⟨shapeOK_add h, hl⟩

theorem Ok_mul {l : List Expr} (h : k = true → 2 ≤ l.length) (hl : ∀ a ∈ l, Ok k T a = true) :
    Ok k T (node MULTIPLICATION l) = true := Ok_node.2 ⟨shapeOK_mul h, hl⟩

/-- an `Ok true` sum or product has at least two operands -/
theorem shapeOK_len {o : Int} {l : List Expr} (h : shapeOK k o l = true)
    (ho : o = ADDITION ∨ o = MULTIPLICATION) (hk : k = true) : 2 ≤ l.length := by
  subst hk
  simp only [shapeOK, Bool.and_eq_true] at h
  have := h.2
  simp [ho] at this
  exact this.2

end sim

/-! ## `insertSubtraction` -/

theorem insertSubtractionList_eq_map (as : List Expr) :
    insertSubtractionList as = as.map insertSubtraction := by
  induction as with
  | nil => rfl
  | cons a as ih => simp [insertSubtractionList, ih]

/-- what `splitSubtractive` puts into the subtractive list for `(-1) * rest` -/
def subItem (rest : List Expr) : Expr :=
  match rest with
  | [s] => s
  | _ => node MULTIPLICATION rest

/-- a one-element list stands for its element, any other one for the sum -/
def oneOrAdd (l : List Expr) : Expr :=
  match l with
  | [a] => a
  | _ => node ADDITION l

/-- the result of `_insert_subtraction` on a sum, from the two lists -/
def assembleSub (additive subtractive : List Expr) : Expr :=
  if subtractive.isEmpty then node ADDITION additive
  else if additive.isEmpty then node MULTIPLICATION [NEGATIVE_ONE, node ADDITION subtractive]
  else node SUBTRACTION [oneOrAdd additive, oneOrAdd subtractive]

theorem insertSubtraction_node (op : Int) (args : List Expr) :
    insertSubtraction (node op args) =
      if op != ADDITION then node op (args.map insertSubtraction)
      else assembleSub (splitSubtractive (args.map insertSubtraction)).1
        (splitSubtractive (args.map insertSubtraction)).2 := by
  rw [insertSubtraction, insertSubtractionList_eq_map]
  rfl

/-- `operand.coefficient == NEGATIVE_ONE` pins the shape of the operand down -/
theorem coefficient_negOne {e : Expr} (h : optBeq e.coefficient (some NEGATIVE_ONE) = true) :
    ∃ np rest, e = node MULTIPLICATION (term INTEGER (-1) np :: rest) := by
  have hne : optBeq (some ONE) (some NEGATIVE_ONE) = false := by decide
  cases e with
  | term o v n =>
    simp only [coefficient] at h
    split at h
    · simp [optBeq] at h
    · rw [hne] at h; cases h
  | node o as =>
    simp only [coefficient] at h
    split at h
    · rename_i ho
      subst ho
      cases as with
      | nil => simp [optBeq] at h
      | cons c rest =>
        dsimp only at h
        split at h
        · cases c with
          | term o' v' n' =>
            simp only [optBeq, NEGATIVE_ONE, beq, Bool.and_eq_true, beq_iff_eq] at h
            obtain ⟨rfl, rfl⟩ := h
            exact ⟨n', rest, rfl⟩
          | node o' cs => simp [optBeq, NEGATIVE_ONE, beq] at h
        · rw [hne] at h; cases h
    · rw [hne] at h; cases h

theorem splitSubtractive_cons_neg (np : Bool) (rest l : List Expr) :
    splitSubtractive (node MULTIPLICATION (term INTEGER (-1) np :: rest) :: l) =
      ((splitSubtractive l).1, subItem rest :: (splitSubtractive l).2) := by
  have h1 : optBeq (node MULTIPLICATION (term INTEGER (-1) np :: rest)).coefficient
      (some NEGATIVE_ONE) = true := by
    simp [coefficient, isIntOrConst, Expr.op, optBeq, NEGATIVE_ONE, beq]
  have h2 : (node MULTIPLICATION (term INTEGER (-1) np :: rest)).termOf
      = some (node MULTIPLICATION rest) := by
    simp [termOf, isIntOrConst, Expr.op]
  rw [splitSubtractive]
  simp only [h1, h2, if_true, Expr.args]
  clear h1 h2
  rcases rest with _ | ⟨a, _ | ⟨b, r⟩⟩ <;> rfl

theorem splitSubtractive_cons_other {e : Expr} (l : List Expr)
    (h : optBeq e.coefficient (some NEGATIVE_ONE) = false) :
    splitSubtractive (e :: l) = (e :: (splitSubtractive l).1, (splitSubtractive l).2) := by
  rw [splitSubtractive]
  simp [h]

/-- `a - b`, defined iff both are -/
def osub (a b : Option ℝ) : Option ℝ := a.bind fun x => b.map fun y => x - y

theorem binDen_sub (a b : ℝ) : binDen SUBTRACTION a b = some (a - b) := by
  have hd : MathSem.binDefined SUBTRACTION a b :=
    ⟨fun h => absurd h (by decide), fun h => absurd h (by decide), fun h => absurd h (by decide)⟩
  unfold binDen
  rw [if_pos hd]
  unfold MathSem.bin
  rw [if_neg (by decide), if_pos rfl]

section den
variable (x : List ℝ) (cv : Int → ℝ)

theorem den_subItem (rest : List Expr) : den x cv (subItem rest) = P x cv rest := by
  rcases rest with _ | ⟨a, _ | ⟨b, r⟩⟩
  · exact den_mul x cv []
  · simp [subItem]
  · exact den_mul x cv _

theorem den_oneOrAdd (l : List Expr) : den x cv (oneOrAdd l) = S x cv l := by
  rcases l with _ | ⟨a, _ | ⟨b, r⟩⟩
  · exact den_add x cv []
  · simp [oneOrAdd]
  · exact den_add x cv _

/-- the sum of all operands is the sum of the additive ones minus the sum of the subtractive ones -/
theorem splitSubtractive_den (l : List Expr) :
    S x cv l = osub (S x cv (splitSubtractive l).1) (S x cv (splitSubtractive l).2) := by
  induction l with
  | nil => simp [splitSubtractive, osub]
  | cons e l ih =>
    by_cases h : optBeq e.coefficient (some NEGATIVE_ONE) = true
    · obtain ⟨np, rest, rfl⟩ := coefficient_negOne h
      rw [splitSubtractive_cons_neg]
      simp only [S_cons, den_mul, den_subItem, P_cons, den_int]
      rw [ih]
      generalize S x cv (splitSubtractive l).1 = A
      generalize S x cv (splitSubtractive l).2 = B
      generalize P x cv rest = C
      cases A <;> cases B <;> cases C <;> simp [osub]
      ring
    · rw [splitSubtractive_cons_other l (by simpa using h)]
      simp only [S_cons]
      rw [ih]
      generalize S x cv (splitSubtractive l).1 = A
      generalize S x cv (splitSubtractive l).2 = B
      generalize den x cv e = C
      cases A <;> cases B <;> cases C <;> simp [osub]
      ring

theorem assembleSub_den (add sub : List Expr) :
    den x cv (assembleSub add sub) = osub (S x cv add) (S x cv sub) := by
  unfold assembleSub
  split
  · rename_i h
    rw [List.isEmpty_iff.1 h, den_add]
    cases S x cv add <;> simp [osub]
  · split
    · rename_i h
      rw [List.isEmpty_iff.1 h, den_mul]
      simp only [P_cons, P_nil, den_NEGATIVE_ONE, den_add, S_nil]
      cases S x cv sub <;> simp [osub]
    · rw [den_bin x cv SUBTRACTION _ _ (by decide) (by decide) (by decide), den_oneOrAdd,
        den_oneOrAdd]
      cases S x cv add <;> cases S x cv sub <;> simp [osub, binDen_sub]

end den

section ok
variable {k : Bool} {T : Int → Int → Bool}

theorem shapeOK_sub (a b : Expr) : shapeOK k SUBTRACTION [a, b] = true := by
  have h1 : (SUBTRACTION != SAFE_POWER) = true := by decide
  have h2 : ¬ SUBTRACTION = POWER := by decide
  have h3 : (Ops.isTerminal SUBTRACTION == some false) = true := by decide
  have h4 : ¬ (SUBTRACTION = ADDITION ∨ SUBTRACTION = MULTIPLICATION) := by decide
  unfold shapeOK
  rw [h1, if_neg h2, h3, if_neg h4]
  cases k <;> rfl

/-- the term of an `Ok` product `c * rest` (for `k = true` the product has at least two operands, so
`rest` is never empty; `[single]` stands for `single`, a longer `rest` is again a legal product) -/
theorem Ok_subItem {c : Expr} {rest : List Expr}
    (h : Ok k T (node MULTIPLICATION (c :: rest)) = true) : Ok k T (subItem rest) = true := by
  obtain ⟨hs, hm⟩ := Ok_node.1 h
  rcases rest with _ | ⟨a, _ | ⟨b, r⟩⟩
  · refine Ok_mul (fun hk => ?_) (fun a ha => by cases ha)
    have := shapeOK_len hs (Or.inr rfl) hk
    simp at this
  · exact hm a (by simp)
  · exact Ok_mul (fun _ => by simp) (fun a ha => hm a (List.mem_cons_of_mem _ ha))

theorem Ok_oneOrAdd {l : List Expr} (hne : l ≠ []) (h : ∀ a ∈ l, Ok k T a = true) :
    Ok k T (oneOrAdd l) = true := by
  rcases l with _ | ⟨a, _ | ⟨b, r⟩⟩
  · exact absurd rfl hne
  · exact h a (by simp)
  · exact Ok_add (fun _ => by simp) h

theorem splitSubtractive_ok {l : List Expr} (h : ∀ a ∈ l, Ok k T a = true) :
    (∀ a ∈ (splitSubtractive l).1, Ok k T a = true) ∧
    (∀ a ∈ (splitSubtractive l).2, Ok k T a = true) ∧
    (splitSubtractive l).1.length + (splitSubtractive l).2.length = l.length := by
  induction l with
  | nil => simp [splitSubtractive]
  | cons e l ih =>
    obtain ⟨i1, i2, i3⟩ := ih fun a ha => h a (List.mem_cons_of_mem _ ha)
    have he := h e List.mem_cons_self
    by_cases hc : optBeq e.coefficient (some NEGATIVE_ONE) = true
    · obtain ⟨np, rest, rfl⟩ := coefficient_negOne hc
      rw [splitSubtractive_cons_neg]
      refine ⟨i1, fun a ha => ?_, by simp only [List.length_cons]; omega⟩
      rcases List.mem_cons.1 ha with rfl | ha
      · exact Ok_subItem he
      · exact i2 a ha
    · rw [splitSubtractive_cons_other l (by simpa using hc)]
      refine ⟨fun a ha => ?_, i2, by simp only [List.length_cons]; omega⟩
      rcases List.mem_cons.1 ha with rfl | ha
      · exact he
      · exact i1 a ha

theorem assembleSub_ok {add sub : List Expr} (hadd : ∀ a ∈ add, Ok k T a = true)
    (hsub : ∀ a ∈ sub, Ok k T a = true) (hlen : k = true → 2 ≤ add.length + sub.length) :
    Ok k T (assembleSub add sub) = true := by
  unfold assembleSub
  split
  · rename_i h
    have h0 := List.isEmpty_iff.1 h
    subst h0
    exact Ok_add (by simpa using hlen) hadd
  · split
    · rename_i h
      have h0 := List.isEmpty_iff.1 h
      subst h0
      refine Ok_mul (fun _ => by simp) (fun a ha => ?_)
      simp only [List.mem_cons, List.not_mem_nil, or_false] at ha
      rcases ha with rfl | rfl
      · exact Ok_NEGATIVE_ONE
      · exact Ok_add (by simpa using hlen) hsub
    · rename_i h1 h2
      refine Ok_node.2 ⟨shapeOK_sub _ _, fun a ha => ?_⟩
      simp only [List.mem_cons, List.not_mem_nil, or_false] at ha
      rcases ha with rfl | rfl
      · exact Ok_oneOrAdd (by simpa using h2) hadd
      · exact Ok_oneOrAdd (by simpa using h1) hsub

theorem assembleSub_isNode (add sub : List Expr) : ∃ o bs, assembleSub add sub = node o bs := by
  unfold assembleSub
  split
  · exact ⟨_, _, rfl⟩
  · split <;> exact ⟨_, _, rfl⟩

/-- `insertSubtraction e` may replace `e` -/
theorem insertSubtraction_sim (k : Bool) (T : Int → Int → Bool) :
    ∀ e, Sim k T e (insertSubtraction e) := by
  intro e
  induction e using Expr.ind' with
  | ht o v n => rw [insertSubtraction]; exact Sim.refl _
  | hn o as ih =>
    rw [insertSubtraction_node]
    have hnode := Sim.node (Sim.forall₂_map ih) o
    split
    · exact hnode
    · rename_i ho
      have ho' : o = ADDITION := by simpa using ho
      subst ho'
      refine hnode.trans ⟨fun x cv => ?_, assembleSub_isNode _ _, fun hok => ?_⟩
      · rw [assembleSub_den, den_add, ← splitSubtractive_den]
      · obtain ⟨hs, hm⟩ := Ok_node.1 hok
        obtain ⟨i1, i2, i3⟩ := splitSubtractive_ok hm
        exact assembleSub_ok i1 i2 fun hk => by
          rw [i3]; exact shapeOK_len hs (Or.inl rfl) hk

/-- 1. `_insert_subtraction` keeps the fragment (both `k`) -/
theorem insertSubtraction_ok {e : Expr} (h : Ok k T e = true) :
    Ok k T (insertSubtraction e) = true :=
  (insertSubtraction_sim k T e).ok h

end ok

/-- 2. `_insert_subtraction` preserves the meaning exactly (no hypothesis on `e`) -/
theorem insertSubtraction_den (e : Expr) (x : List ℝ) (cv : Int → ℝ) :
    (insertSubtraction e).den x cv = e.den x cv :=
  (insertSubtraction_sim false (fun _ _ => true) e).den x cv

/-- 2'. the refinement form -/
theorem insertSubtraction_sound (e : Expr) (x : List ℝ) (cv : Int → ℝ) :
    e.den x cv ⊑ (insertSubtraction e).den x cv :=
  Refines.of_eq (insertSubtraction_den e x cv).symm

/-! ## `replaceIntegerPowers` -/

/-- the operands of the result are the results for the operands -/
theorem replaceIntegerPowersList_spec {Q : Expr → Expr → Prop} : ∀ (as bs : List Expr),
    (∀ a ∈ as, ∀ b, replaceIntegerPowers a = .ok b → Q a b) →
    replaceIntegerPowersList as = .ok bs → List.Forall₂ Q as bs := by
  intro as
  induction as with
  | nil =>
    intro bs _ h
    rw [replaceIntegerPowersList] at h
    cases h
    exact .nil
  | cons a as ih =>
    intro bs hQ h
    rw [replaceIntegerPowersList] at h
    cases ha : replaceIntegerPowers a with
    | error s => rw [ha] at h; cases h
    | ok a' =>
      cases hl : replaceIntegerPowersList as with
      | error s => rw [ha, hl] at h; cases h
      | ok bs' =>
        rw [ha, hl] at h
        cases h
        exact .cons (hQ a List.mem_cons_self a' ha)
          (ih bs' (fun c hc => hQ c (List.mem_cons_of_mem _ hc)) hl)

/-- what `_replace_integer_powers` does to a node whose operands have been processed -/
def powStep (op : Int) (operands : List Expr) : R Expr :=
  if op != POWER then pure (node op operands)
  else match operands with
    | [b, term o v _] =>
      if o != INTEGER || v ≤ 0 then pure (node op operands)
      else if !inInt64 v then throw "OverflowError"
      else if v.toNat > maxReplicate then throw "MemoryError"
      else pure (node MULTIPLICATION (List.replicate v.toNat b))
    | _ :: _ :: _ => pure (node op operands)
    | _ => throw "IndexError"

theorem replaceIntegerPowers_node (op : Int) (args : List Expr) :
    replaceIntegerPowers (node op args) = replaceIntegerPowersList args >>= powStep op := by
  rw [replaceIntegerPowers]
  rfl

theorem P_replicate (x : List ℝ) (cv : Int → ℝ) (n : Nat) (hn : 0 < n) (b : Expr) :
    P x cv (List.replicate n b) = (den x cv b).bind fun a => some (a ^ n) := by
  unfold P
  rw [List.map_replicate]
  cases den x cv b with
  | none =>
    obtain ⟨m, rfl⟩ := Nat.exists_eq_succ_of_ne_zero hn.ne'
    simp [List.replicate_succ]
  | some a => simp [oprod_replicate]

section ok
variable {k : Bool} {T : Int → Int → Bool}

theorem shapeOK_pow_exp {b : Expr} {o v : Int} {np : Bool}
    (h : shapeOK k POWER [b, term o v np] = true) (hk : k = true) : v ≠ 1 := by
  subst hk
  simp only [shapeOK, Bool.and_eq_true] at h
  have h2 := h.1.2
  simp at h2
  exact h2.2

/-- a positive literal power is the repeated product -/
theorem pow_replicate_sim (b : Expr) (v : Int) (np : Bool) (hv : 0 < v) :
    Sim k T (node POWER [b, term INTEGER v np]) (node MULTIPLICATION (List.replicate v.toNat b)) := by
  refine ⟨fun x cv => ?_, SameKind.node_node _ _ _ _, fun hok => ?_⟩
  · rw [den_mul, den_pow_lit, P_replicate x cv _ (by omega)]
    congr 1
    funext a
    exact (zpowDen_nonneg hv.le a).symm
  · obtain ⟨hs, hm⟩ := Ok_node.1 hok
    refine Ok_mul (fun hk => ?_) (fun a ha => ?_)
    · have := shapeOK_pow_exp hs hk
      rw [List.length_replicate]
      omega
    · rw [List.eq_of_mem_replicate ha]
      exact hm b (by simp)

theorem powStep_sim {op : Int} {bs : List Expr} {e' : Expr} (h : powStep op bs = .ok e') :
    Sim k T (node op bs) e' := by
  unfold powStep at h
  split at h
  · cases h; exact Sim.refl _
  · rename_i hop
    have hop' : op = POWER := by simpa using hop
    subst hop'
    split at h
    · rename_i b o v np
      split at h
      · cases h; exact Sim.refl _
      · rename_i hc
        split at h
        · cases h
        · split at h
          · cases h
          · cases h
            simp only [Bool.or_eq_true, bne_iff_ne, ne_eq, decide_eq_true_eq, not_or, not_not,
              not_le] at hc
            obtain ⟨rfl, hv⟩ := hc
            exact pow_replicate_sim b v np hv
    · cases h; exact Sim.refl _
    · cases h

/-- if `replaceIntegerPowers e` returns `e'` then `e'` may replace `e` -/
theorem replaceIntegerPowers_sim (k : Bool) (T : Int → Int → Bool) :
    ∀ e e', replaceIntegerPowers e = .ok e' → Sim k T e e' := by
  intro e
  induction e using Expr.ind' with
  | ht o v n =>
    intro e' h
    rw [replaceIntegerPowers] at h
    cases h
    exact Sim.refl _
  | hn o as ih =>
    intro e' h
    rw [replaceIntegerPowers_node] at h
    cases hl : replaceIntegerPowersList as with
    | error s => rw [hl] at h; cases h
    | ok bs =>
      rw [hl] at h
      exact (Sim.node (replaceIntegerPowersList_spec as bs ih hl) o).trans (powStep_sim h)

/-- 3a. `_replace_integer_powers` keeps the fragment (both `k`) -/
theorem replaceIntegerPowers_ok {e e' : Expr} (h : Ok k T e = true)
    (hr : replaceIntegerPowers e = .ok e') : Ok k T e' = true :=
  (replaceIntegerPowers_sim k T e e' hr).ok h

end ok

/-- 3b. `_replace_integer_powers` preserves the meaning exactly (no hypothesis on `e`) -/
theorem replaceIntegerPowers_den {e e' : Expr} (hr : replaceIntegerPowers e = .ok e')
    (x : List ℝ) (cv : Int → ℝ) : e'.den x cv = e.den x cv :=
  (replaceIntegerPowers_sim false (fun _ _ => true) e e' hr).den x cv

/-- 3b'. the refinement form -/
theorem replaceIntegerPowers_sound {e e' : Expr} (hr : replaceIntegerPowers e = .ok e')
    (x : List ℝ) (cv : Int → ℝ) : e.den x cv ⊑ e'.den x cv :=
  Refines.of_eq (replaceIntegerPowers_den hr x cv).symm

/-! ## `optionalModifications` -/

/-- 4a. `optional_modifications` keeps the fragment (both `k`) -/
theorem optionalModifications_ok {k : Bool} {T : Int → Int → Bool} {e e' : Expr}
    (h : Ok k T e = true) (hr : optionalModifications e = .ok e') : Ok k T e' = true :=
  replaceIntegerPowers_ok (insertSubtraction_ok h) hr

/-- 4b. `optional_modifications` preserves the meaning exactly (no hypothesis on `e`) -/
theorem optionalModifications_den {e e' : Expr} (hr : optionalModifications e = .ok e')
    (x : List ℝ) (cv : Int → ℝ) : e'.den x cv = e.den x cv :=
  (replaceIntegerPowers_den hr x cv).trans (insertSubtraction_den e x cv)

/-- 4b'. the refinement form -/
theorem optionalModifications_sound {e e' : Expr} (hr : optionalModifications e = .ok e')
    (x : List ℝ) (cv : Int → ℝ) : e.den x cv ⊑ e'.den x cv :=
  Refines.of_eq (optionalModifications_den hr x cv).symm

/-- the whole relation at once -/
theorem optionalModifications_sim (k : Bool) (T : Int → Int → Bool) {e e' : Expr}
    (hr : optionalModifications e = .ok e') : Sim k T e e' :=
  (insertSubtraction_sim k T e).trans (replaceIntegerPowers_sim k T _ e' hr)

end Cas
end Bingo
