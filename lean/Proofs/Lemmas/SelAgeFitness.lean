import Proofs.Lemmas.SelSwap
import Proofs.Lemmas.SelFindRemovals
/-!
# Age-fitness selection: one round, and the whole `while` loop (core only)

* `DrawsOK` -- the oracle contract for one call of `_get_unique_rand_indices(live)`.
* `findRemovals_spec` -- who is removed in one round and why (with a *surviving* justifier).
* `AFRun` -- the relational reading of `afLoop` (one constructor per loop iteration); every
  successful `afLoop` is an `AFRun` (`afLoop_run`), all loop theorems are inductions over `AFRun`.
* `afRounds` -- ghost trace: the snapshot of every completed round.
* `RunDrawsOK` -- "every draw the run actually consumes satisfies `DrawsOK`".
-/
namespace Bingo
namespace Sel

/-- oracle contract of one `_get_unique_rand_indices(live)` call -/
structure DrawsOK (selSize live : Nat) (inds : List Nat) : Prop where
  selSize_ge : 2 ≤ selSize
  nodup : inds.Nodup
  lt_live : ∀ i ∈ inds, i < live
  length_eq : inds.length = min selSize live

/-! ## one round -/

/-- the size bound needs no assumption on the draws -/
theorem findRemovals_length {selSize : Nat} {inds : List Nat} {pop : List Indv} {needed : Nat}
    {rem : List Nat} (hn : 1 ≤ needed) (h : findRemovals selSize inds pop needed = some rem) :
    rem.length ≤ needed := by
  unfold findRemovals at h
  split at h
  · match inds, h with
    | i1 :: i2 :: _, h =>
      simp only at h
      rw [pairRemoval_eq] at h
      cases h1 : pop[i1]? with
      | none => simp [h1] at h
      | some a =>
        cases h2 : pop[i2]? with
        | none => simp [h1, h2] at h
        | some b =>
          simp only [h1, h2, Option.some.injEq] at h
          subst h
          split <;> simp only [List.length_cons, List.length_nil] <;> omega
  · exact outerLoop_length inds [] rem (by simp; omega) h

/-- the justification clause: `x` is NaN, or somebody in `inds` who is *not* removed is
non-NaN, no older and no worse -/
def Justified (pop : List Indv) (inds rem : List Nat) (x : Nat) : Prop :=
  ∃ px, pop[x]? = some px ∧
    (px.key.isNan = true ∨
      ∃ y ∈ inds, y ∉ rem ∧ ∃ py, pop[y]? = some py ∧ py.key.isNan = false ∧
        py.age ≤ px.age ∧ Key.le py.key px.key = true)

theorem pairRemoval_spec {pop : List Indv} {i1 i2 : Nat} {rem : List Nat} (hne : i1 ≠ i2)
    (h : pairRemoval pop i1 i2 = some rem) :
    rem.Nodup ∧ (∀ x ∈ rem, x = i1 ∨ x = i2) ∧ rem.length ≤ 1 ∧
    ∀ x ∈ rem, Justified pop [i1, i2] rem x := by
  rw [pairRemoval_eq] at h
  cases h1 : pop[i1]? with
  | none => simp [h1] at h
  | some a =>
    cases h2 : pop[i2]? with
    | none => simp [h1, h2] at h
    | some b =>
      simp only [h1, h2, Option.some.injEq] at h
      cases hv : verdict a b with
      | none => simp only [hv] at h; subst h; simp
      | some t =>
        cases t with
        | true =>
          simp only [hv] at h; subst h
          refine ⟨by simp, by simp, by simp, ?_⟩
          intro x hx
          simp at hx; subst hx
          refine ⟨a, h1, ?_⟩
          rcases verdict_true hv with hn | ⟨d, _⟩
          · exact Or.inl hn
          · exact Or.inr ⟨i2, by simp, by simpa using Ne.symm hne, b, h2, d.not_nan_left, d.1, d.2⟩
        | false =>
          simp only [hv] at h; subst h
          refine ⟨by simp, by simp, by simp, ?_⟩
          intro x hx
          simp at hx; subst hx
          refine ⟨b, h2, ?_⟩
          obtain ⟨hna, hn | d⟩ := verdict_false hv
          · exact Or.inl hn
          · exact Or.inr ⟨i1, by simp, by simpa using hne, a, h1, hna, d.1, d.2⟩

/-- **`af_round_justified`** -/
theorem findRemovals_spec {selSize live : Nat} {inds : List Nat} {pop : List Indv} {needed : Nat}
    {rem : List Nat} (hd : DrawsOK selSize live inds)
    (h : findRemovals selSize inds pop needed = some rem) :
    rem.Nodup ∧ (∀ x ∈ rem, x ∈ inds) ∧ (1 ≤ needed → rem.length ≤ needed) ∧
    (selSize = 2 → rem.length ≤ 1) ∧ ∀ x ∈ rem, Justified pop inds rem x := by
  refine ⟨?_, ?_, fun hn => findRemovals_length hn h, ?_, ?_⟩
  all_goals
    unfold findRemovals at h
  · split at h
    · match inds, hd, h with
      | i1 :: i2 :: _, hd, h =>
        have hne : i1 ≠ i2 := by have := hd.nodup; simp at this; exact this.1.1
        exact (pairRemoval_spec hne h).1
    · exact (outerLoop_inv (pos := inds.idxOf) inds [] rem (RsInv.nil _ _ _) (fun _ hb => hb)
        (pairwise_idxOf_lt hd.nodup) h).nodup
  · split at h
    · match inds, hd, h with
      | i1 :: i2 :: _, hd, h =>
        have hne : i1 ≠ i2 := by have := hd.nodup; simp at this; exact this.1.1
        intro x hx
        rcases (pairRemoval_spec hne h).2.1 x hx with rfl | rfl <;> simp
    · exact (outerLoop_inv (pos := inds.idxOf) inds [] rem (RsInv.nil _ _ _) (fun _ hb => hb)
        (pairwise_idxOf_lt hd.nodup) h).sub
  · intro h2
    simp only [h2, if_true] at h
    match inds, hd, h with
    | i1 :: i2 :: _, hd, h =>
      have hne : i1 ≠ i2 := by have := hd.nodup; simp at this; exact this.1.1
      exact (pairRemoval_spec hne h).2.2.1
  · split at h
    · match inds, hd, h with
      | i1 :: i2 :: tl, hd, h =>
        have hne : i1 ≠ i2 := by have := hd.nodup; simp at this; exact this.1.1
        intro x hx
        obtain ⟨px, hpx, hj⟩ := (pairRemoval_spec hne h).2.2.2 x hx
        refine ⟨px, hpx, ?_⟩
        rcases hj with hn | ⟨y, hy, hyr, rest⟩
        · exact Or.inl hn
        · refine Or.inr ⟨y, ?_, hyr, rest⟩
          simp at hy ⊢
          rcases hy with rfl | rfl <;> simp
    · have inv := outerLoop_inv (pos := inds.idxOf) inds [] rem (RsInv.nil _ _ _) (fun _ hb => hb)
        (pairwise_idxOf_lt hd.nodup) h
      intro x hx
      obtain ⟨px, hpx, hj⟩ := inv.just x hx
      refine ⟨px, hpx, ?_⟩
      by_cases hn : px.key.isNan = true
      · exact Or.inl hn
      · right
        -- follow the chain of justifications down to an unmarked index
        have chain := exists_unmarked_below (precB pop inds.idxOf)
          (fun a b c => precB_trans) precB_irrefl inds
          (fun z => z ∈ rem ∧ ∃ pz, pop[z]? = some pz ∧ pz.key.isNan = false)
          (by
            rintro z _ ⟨hz, pz, hpz, hnz⟩
            obtain ⟨pz', hpz', hjz⟩ := inv.just z hz
            rw [hpz] at hpz'; cases hpz'
            rcases hjz with hnan | hjz
            · rw [hnz] at hnan; cases hnan
            · exact hjz)
          x (inv.sub x hx) ⟨hx, px, hpx, by simpa using hn⟩
        obtain ⟨j, hj, hnm, hlt⟩ := chain
        obtain ⟨pj, px', hpj, hpx', d⟩ := precB_dom hlt
        rw [hpx] at hpx'; cases hpx'
        refine ⟨j, hj, ?_, pj, hpj, d.not_nan_left, d.1, d.2⟩
        intro hjr
        exact hnm ⟨hjr, pj, hpj, d.not_nan_left⟩

/-- a round never raises when the draw is OK (for `selSize = 2` at least two live individuals
are needed: Python indexes `inds[1]`) -/
theorem findRemovals_isSome {selSize live : Nat} {inds : List Nat} {pop : List Indv} (needed : Nat)
    (hd : DrawsOK selSize live inds) (hlive : live ≤ pop.length) (h2 : selSize = 2 → 2 ≤ live) :
    ∃ rem, findRemovals selSize inds pop needed = some rem := by
  have hlt : ∀ i ∈ inds, i < pop.length := fun i hi => Nat.lt_of_lt_of_le (hd.lt_live i hi) hlive
  unfold findRemovals
  split
  · rename_i hs
    have hl : inds.length = 2 := by
      have := hd.length_eq; have := h2 hs; omega
    match inds, hl, hlt with
    | [i1, i2], _, hlt =>
      simp only
      rw [pairRemoval_eq, List.getElem?_eq_getElem (hlt i1 (by simp)),
        List.getElem?_eq_getElem (hlt i2 (by simp))]
      exact ⟨_, rfl⟩
  · exact outerLoop_isSome inds [] hlt

/-! ## the loop, relationally -/

inductive AFRun (selSize start tr factor : Nat) :
    List Indv → Nat → Nat → List (List Nat) → List (List Nat) → AFResult → Prop
  | stop {pop n a draws log} (h : ¬ (n < tr ∧ a < start * factor)) :
      AFRun selSize start tr factor pop n a draws log
        { pop := pop, kept := start - n, rounds := a, removedLog := log }
  | step {pop n a inds rest log rem pop' r} (h : n < tr ∧ a < start * factor)
      (hf : findRemovals selSize inds pop (tr - n) = some rem)
      (hs : swapRemovalsToEnd pop rem n = some pop')
      (hr : AFRun selSize start tr factor pop' (n + rem.length) (a + 1) rest
        (log ++ [rem.filterMap fun i => (pop[i]?).map (·.id)]) r) :
      AFRun selSize start tr factor pop n a (inds :: rest) log r

theorem afLoop_run {selSize start tr factor : Nat} :
    ∀ (fuel : Nat) (pop : List Indv) (n a : Nat) (draws log : List (List Nat)) (r : AFResult),
    afLoop selSize start tr factor fuel pop n a draws log = some r →
    AFRun selSize start tr factor pop n a draws log r := by
  intro fuel
  induction fuel with
  | zero => intro pop n a draws log r h; simp [afLoop] at h
  | succ fuel ih =>
    intro pop n a draws log r h
    cases draws with
    | nil =>
      rw [afLoop] at h
      split at h
      · cases h
      · rename_i hc
        simp only [Option.some.injEq] at h
        subst h
        exact AFRun.stop hc
    | cons inds rest =>
      rw [afLoop] at h
      split at h
      · rename_i hc
        cases hf : findRemovals selSize inds pop (tr - n) with
        | none => simp [hf] at h
        | some rem =>
          simp only [hf] at h
          cases hs : swapRemovalsToEnd pop rem n with
          | none => simp [hs] at h
          | some pop' =>
            simp only [hs] at h
            exact AFRun.step hc hf hs (ih _ _ _ _ _ _ h)
      · rename_i hc
        simp only [Option.some.injEq] at h
        subst h
        exact AFRun.stop hc

/-- snapshot of one completed round -/
structure Round where
  before : List Indv
  nRemoved : Nat
  inds : List Nat
  rem : List Nat
  after : List Indv
  deriving Repr, DecidableEq

/-- ghost trace of the completed rounds (same control flow as `afLoop`, structural on `draws`) -/
def afRounds (selSize start tr factor : Nat) :
    List Indv → Nat → Nat → List (List Nat) → List Round
  | _, _, _, [] => []
  | pop, n, a, inds :: rest =>
    if n < tr ∧ a < start * factor then
      match findRemovals selSize inds pop (tr - n) with
      | none => []
      | some rem =>
        match swapRemovalsToEnd pop rem n with
        | none => []
        | some pop' =>
          ⟨pop, n, inds, rem, pop'⟩ ::
            afRounds selSize start tr factor pop' (n + rem.length) (a + 1) rest
    else []

/-- every draw that the run consumes satisfies the oracle contract for the live size at that
moment -/
def RunDrawsOK (selSize start tr factor : Nat) :
    List Indv → Nat → Nat → List (List Nat) → Prop
  | _, _, _, [] => True
  | pop, n, a, inds :: rest =>
    (n < tr ∧ a < start * factor) →
      DrawsOK selSize (start - n) inds ∧
      ∀ rem pop', findRemovals selSize inds pop (tr - n) = some rem →
        swapRemovalsToEnd pop rem n = some pop' →
        RunDrawsOK selSize start tr factor pop' (n + rem.length) (a + 1) rest

section run
variable {selSize start tr factor : Nat}

/-- **`af_perm`** (loop form) -/
theorem AFRun.perm {pop n a draws log r}
    (h : AFRun selSize start tr factor pop n a draws log r) : r.pop.Perm pop := by
  induction h with
  | stop _ => exact List.Perm.refl _
  | step _ _ hs _ ih => exact ih.trans (swapRemovalsToEnd_perm hs).1

/-- **`af_size`** (loop form): no assumption on the draws -/
theorem AFRun.kept {pop n a draws log r}
    (h : AFRun selSize start tr factor pop n a draws log r) (hn : n ≤ tr) :
    ∃ n', r.kept = start - n' ∧ n ≤ n' ∧ n' ≤ tr := by
  induction h with
  | stop _ => exact ⟨_, rfl, Nat.le_refl _, hn⟩
  | @step pop n a inds rest log rem pop' r hc hf _ _ ih =>
    have := findRemovals_length (by omega) hf
    obtain ⟨n', h1, h2, h3⟩ := ih (by omega)
    exact ⟨n', h1, by omega, h3⟩

/-- **`af_terminates`** (round bound, loop form) -/
theorem AFRun.rounds {pop n a draws log r}
    (h : AFRun selSize start tr factor pop n a draws log r) (ha : a ≤ start * factor) :
    a ≤ r.rounds ∧ r.rounds ≤ start * factor := by
  induction h with
  | stop _ => exact ⟨Nat.le_refl _, ha⟩
  | step hc _ _ _ ih =>
    have := ih (by omega)
    omega

/-- the log grows by one entry per round, and entry `t` lists the ids of round `t`'s removals -/
theorem AFRun.log_eq {pop n a draws log r}
    (h : AFRun selSize start tr factor pop n a draws log r) :
    r.removedLog = log ++ (afRounds selSize start tr factor pop n a draws).map
      (fun rd => rd.rem.filterMap fun i => (rd.before[i]?).map (·.id)) ∧
    r.rounds = a + (afRounds selSize start tr factor pop n a draws).length ∧
    r.pop = ((afRounds selSize start tr factor pop n a draws).getLast?.map (·.after)).getD pop := by
  induction h with
  | @stop pop n a draws log hc =>
    cases draws <;> simp [afRounds, hc]
  | @step pop n a inds rest log rem pop' r hc hf hs _ ih =>
    obtain ⟨ih1, ih2, ih3⟩ := ih
    have e : afRounds selSize start tr factor pop n a (inds :: rest) =
        ⟨pop, n, inds, rem, pop'⟩ ::
          afRounds selSize start tr factor pop' (n + rem.length) (a + 1) rest := by
      rw [afRounds]; simp only [hc, and_self, if_true, hf, hs]
    rw [e]
    refine ⟨by rw [ih1]; simp, by rw [ih2]; simp; omega, ?_⟩
    rw [ih3, List.getLast?_cons]
    cases (afRounds selSize start tr factor pop' (n + rem.length) (a + 1) rest).getLast? <;> simp

/-- what is known about every completed round (under the oracle contract) -/
structure RoundOK (selSize start tr : Nat) (pop₀ : List Indv) (rd : Round) : Prop where
  before_perm : rd.before.Perm pop₀
  after_perm : rd.after.Perm pop₀
  nRemoved_lt : rd.nRemoved < tr
  draws : DrawsOK selSize (start - rd.nRemoved) rd.inds
  find : findRemovals selSize rd.inds rd.before (tr - rd.nRemoved) = some rd.rem
  swap : swapRemovalsToEnd rd.before rd.rem rd.nRemoved = some rd.after
  rem_nodup : rd.rem.Nodup
  rem_sub : ∀ x ∈ rd.rem, x ∈ rd.inds
  rem_le : rd.nRemoved + rd.rem.length ≤ tr
  /-- the removed prefix of earlier rounds is not touched -/
  tail_eq : rd.after.drop (start - rd.nRemoved) = rd.before.drop (start - rd.nRemoved)
  /-- the individuals removed in this round now sit right below the old boundary -/
  removed_at : ((rd.after.take (start - rd.nRemoved)).drop (start - (rd.nRemoved + rd.rem.length))).Perm
      (rd.rem.filterMap fun i => rd.before[i]?)
  /-- every removal is justified by an individual that is in the live prefix after the round -/
  justified : ∀ x ∈ rd.rem, ∃ px, rd.before[x]? = some px ∧
    (px.key.isNan = true ∨
      ∃ py ∈ rd.after.take (start - (rd.nRemoved + rd.rem.length)),
        py.key.isNan = false ∧ py.age ≤ px.age ∧ Key.le py.key px.key = true)

theorem roundOK_of_step {pop₀ pop pop' : List Indv} {n : Nat} {inds rem : List Nat}
    (hlen : pop.length = start) (hperm : pop.Perm pop₀) (hn : n < tr) (htr : tr ≤ start)
    (hd : DrawsOK selSize (start - n) inds)
    (hf : findRemovals selSize inds pop (tr - n) = some rem)
    (hs : swapRemovalsToEnd pop rem n = some pop') :
    RoundOK selSize start tr pop₀ ⟨pop, n, inds, rem, pop'⟩ := by
  obtain ⟨hnd, hsub, hle, _, hjust⟩ := findRemovals_spec hd hf
  have hlt : ∀ x ∈ rem, x < pop.length - n := fun x hx => by
    have := hd.lt_live x (hsub x hx); omega
  obtain ⟨pop'', hs', hlen', hperm', _, hdrop, _, _, hmid, hlow⟩ :=
    swapRemovalsToEnd_spec (pop := pop) (R := rem) (k := n) (by omega) hnd hlt
  rw [hs] at hs'; cases hs'
  have hle' := hle (by omega)
  have e1 : pop.length - n = start - n := by omega
  have e2 : start - n - rem.length = start - (n + rem.length) := by omega
  rw [e1] at hdrop hmid hlow
  rw [e2] at hmid hlow
  refine ⟨hperm, hperm'.trans hperm, hn, hd, hf, hs, hnd, hsub, ?_, hdrop, hmid, ?_⟩
  · show n + rem.length ≤ tr
    omega
  intro x hx
  obtain ⟨px, hpx, hj⟩ := hjust x hx
  refine ⟨px, hpx, ?_⟩
  rcases hj with hnan | ⟨y, hy, hyr, py, hpy, h1, h2, h3⟩
  · exact Or.inl hnan
  · refine Or.inr ⟨py, ?_, h1, h2, h3⟩
    rw [hlow.mem_iff, List.mem_filterMap]
    refine ⟨y, ?_, hpy⟩
    rw [List.mem_filter, List.mem_range]
    refine ⟨hd.lt_live y hy, ?_⟩
    simpa using hyr

/-- **`af_removal_justified`** (loop form) -/
theorem AFRun.rounds_ok {pop₀ pop n a draws log r}
    (h : AFRun selSize start tr factor pop n a draws log r)
    (hok : RunDrawsOK selSize start tr factor pop n a draws)
    (hlen : pop.length = start) (hperm : pop.Perm pop₀) (htr : tr ≤ start) :
    ∀ rd ∈ afRounds selSize start tr factor pop n a draws, RoundOK selSize start tr pop₀ rd := by
  induction h with
  | @stop pop n a draws log hc =>
    cases draws <;> simp [afRounds, hc]
  | @step pop n a inds rest log rem pop' r hc hf hs _ ih =>
    have e : afRounds selSize start tr factor pop n a (inds :: rest) =
        ⟨pop, n, inds, rem, pop'⟩ ::
          afRounds selSize start tr factor pop' (n + rem.length) (a + 1) rest := by
      rw [afRounds]; simp only [hc, and_self, if_true, hf, hs]
    rw [e]
    rw [RunDrawsOK] at hok
    obtain ⟨hd, hnext⟩ := hok hc
    have hp := swapRemovalsToEnd_perm hs
    intro rd hrd
    rcases List.mem_cons.1 hrd with rfl | hrd
    · exact roundOK_of_step hlen hperm hc.1 htr hd hf hs
    · exact ih (hnext rem pop' hf hs) (hp.2.trans hlen) (hp.1.trans hperm) rd hrd

/-! ### the log is exactly the removed suffix -/

/-- ids logged for one round -/
def Round.ids (rd : Round) : List Nat := rd.rem.filterMap fun i => (rd.before[i]?).map (·.id)

theorem drop_eq_mid_append {β : Type} (l : List β) {a b : Nat} (hab : a ≤ b) (hb : b ≤ l.length) :
    l.drop a = (l.take b).drop a ++ l.drop b := by
  conv => lhs; rw [← List.take_append_drop b l]
  rw [List.drop_append_of_le_length (by simp; omega)]

theorem RoundOK.log_step {pop₀ : List Indv} {rd : Round} (h : RoundOK selSize start tr pop₀ rd)
    (hstart : pop₀.length = start) {ids : List Nat}
    (hids : ids.Perm ((rd.before.drop (start - rd.nRemoved)).map (·.id))) :
    (ids ++ rd.ids).Perm
      ((rd.after.drop (start - (rd.nRemoved + rd.rem.length))).map (·.id)) := by
  have hl : rd.after.length = start := h.after_perm.length_eq.trans hstart
  rw [drop_eq_mid_append rd.after (a := start - (rd.nRemoved + rd.rem.length))
    (b := start - rd.nRemoved) (by omega) (by omega), List.map_append, h.tail_eq]
  have h1 := h.removed_at.map (·.id)
  rw [List.map_filterMap] at h1
  exact List.perm_append_comm.trans (List.Perm.append h1.symm hids)

theorem AFRun.log_prefix {pop₀ pop n a draws log r}
    (h : AFRun selSize start tr factor pop n a draws log r)
    (hok : RunDrawsOK selSize start tr factor pop n a draws)
    (hlen : pop.length = start) (hperm : pop.Perm pop₀) (htr : tr ≤ start)
    (ids : List Nat) (hids : ids.Perm ((pop.drop (start - n)).map (·.id))) :
    ∀ t rd, (afRounds selSize start tr factor pop n a draws)[t]? = some rd →
      (ids ++ (((afRounds selSize start tr factor pop n a draws).take (t + 1)).map Round.ids).flatten).Perm
        ((rd.after.drop (start - (rd.nRemoved + rd.rem.length))).map (·.id)) := by
  induction h generalizing ids with
  | @stop pop n a draws log hc =>
    cases draws <;> simp [afRounds, hc]
  | @step pop n a inds rest log rem pop' r hc hf hs _ ih =>
    have e : afRounds selSize start tr factor pop n a (inds :: rest) =
        ⟨pop, n, inds, rem, pop'⟩ ::
          afRounds selSize start tr factor pop' (n + rem.length) (a + 1) rest := by
      rw [afRounds]; simp only [hc, and_self, if_true, hf, hs]
    rw [e]
    rw [RunDrawsOK] at hok
    obtain ⟨hd, hnext⟩ := hok hc
    have hp := swapRemovalsToEnd_perm hs
    have hstart : pop₀.length = start := hperm.length_eq.symm.trans hlen
    have rok : RoundOK selSize start tr pop₀ ⟨pop, n, inds, rem, pop'⟩ :=
      roundOK_of_step hlen hperm hc.1 htr hd hf hs
    have hstep := rok.log_step hstart hids
    intro t rd hrd
    cases t with
    | zero =>
      simp only [List.getElem?_cons_zero, Option.some.injEq] at hrd
      subst hrd
      simpa using hstep
    | succ t =>
      simp only [List.getElem?_cons_succ] at hrd
      have := ih (hnext rem pop' hf hs) (hp.2.trans hlen) (hp.1.trans hperm) _ hstep t rd hrd
      simpa [List.append_assoc] using this

/-- the flattened log is exactly (the ids of) the removed suffix of the final list -/
theorem AFRun.log_exact {pop₀ pop n a draws log r}
    (h : AFRun selSize start tr factor pop n a draws log r)
    (hok : RunDrawsOK selSize start tr factor pop n a draws)
    (hlen : pop.length = start) (hperm : pop.Perm pop₀) (htr : tr ≤ start)
    (hids : log.flatten.Perm ((pop.drop (start - n)).map (·.id))) :
    r.removedLog.flatten.Perm ((r.pop.drop r.kept).map (·.id)) := by
  induction h with
  | stop _ => exact hids
  | @step pop n a inds rest log rem pop' r hc hf hs _ ih =>
    rw [RunDrawsOK] at hok
    obtain ⟨hd, hnext⟩ := hok hc
    have hp := swapRemovalsToEnd_perm hs
    have hstart : pop₀.length = start := hperm.length_eq.symm.trans hlen
    have rok : RoundOK selSize start tr pop₀ ⟨pop, n, inds, rem, pop'⟩ :=
      roundOK_of_step hlen hperm hc.1 htr hd hf hs
    have hstep := rok.log_step hstart hids
    apply ih (hnext rem pop' hf hs) (hp.2.trans hlen) (hp.1.trans hperm)
    simpa [Round.ids] using hstep

end run

/-! ## fuel and draws suffice -/

theorem afLoop_isSome {selSize start tr factor : Nat} (htr : tr < start) :
    ∀ (fuel : Nat) (pop : List Indv) (n a : Nat) (draws log : List (List Nat)),
    start * factor < fuel + a → start * factor ≤ draws.length + a → a ≤ start * factor →
    pop.length = start → n ≤ tr →
    RunDrawsOK selSize start tr factor pop n a draws →
    ∃ r, afLoop selSize start tr factor fuel pop n a draws log = some r := by
  intro fuel
  induction fuel with
  | zero =>
    intro pop n a draws log hfu hdr ha hlen hn hok
    omega
  | succ fuel ih =>
    intro pop n a draws log hfu hdr ha hlen hn hok
    cases draws with
    | nil =>
      rw [afLoop]
      split
      · rename_i hc; simp at hdr; omega
      · exact ⟨_, rfl⟩
    | cons inds rest =>
      rw [afLoop]
      split
      · rename_i hc
        rw [RunDrawsOK] at hok
        obtain ⟨hd, hnext⟩ := hok hc
        obtain ⟨rem, hf⟩ := findRemovals_isSome (pop := pop) (tr - n) hd (by omega) (by omega)
        obtain ⟨hnd, hsub, hle, _, _⟩ := findRemovals_spec hd hf
        have hlt : ∀ x ∈ rem, x < pop.length - n := fun x hx => by
          have := hd.lt_live x (hsub x hx); omega
        obtain ⟨pop', hs, hlen', _⟩ :=
          swapRemovalsToEnd_spec (pop := pop) (R := rem) (k := n) (by omega) hnd hlt
        simp only [hf, hs]
        have := hle (by omega)
        exact ih pop' _ _ rest _ (by omega) (by simp at hdr; omega) (by omega)
          (hlen'.trans hlen) (by omega) (hnext rem pop' hf hs)
      · exact ⟨_, rfl⟩

/-! ## `ageFitness` -/

theorem ageFitness_run {selSize factor : Nat} {pop : List Indv} {target : Nat}
    {draws : List (List Nat)} {r : AFResult}
    (h : ageFitness selSize factor pop target draws = some r) :
    target ≤ pop.length ∧
    AFRun selSize pop.length (pop.length - target) factor pop 0 0 draws [] r := by
  unfold ageFitness at h
  split at h
  · cases h
  · exact ⟨by omega, afLoop_run _ _ _ _ _ _ _ h⟩

/-- trace-free form of the justification theorem, for populations with distinct ids -/
theorem ageFitness_justified_ids {selSize factor : Nat} {pop : List Indv} {target : Nat}
    {draws : List (List Nat)} {r : AFResult}
    (h : ageFitness selSize factor pop target draws = some r)
    (hok : RunDrawsOK selSize pop.length (pop.length - target) factor pop 0 0 draws)
    (hids : (pop.map (·.id)).Nodup) :
    ∀ t (ht : t < r.removedLog.length), ∀ i ∈ r.removedLog[t],
      ∃ px ∈ pop, px.id = i ∧
        (px.key.isNan = true ∨
          ∃ py ∈ pop, py.id ∉ (r.removedLog.take (t + 1)).flatten ∧
            py.key.isNan = false ∧ py.age ≤ px.age ∧ Key.le py.key px.key = true) := by
  obtain ⟨_, run⟩ := ageFitness_run h
  have hlog := run.log_eq.1
  have hrok := run.rounds_ok (pop₀ := pop) hok rfl (List.Perm.refl _) (Nat.sub_le _ _)
  have hpre := run.log_prefix (pop₀ := pop) hok rfl (List.Perm.refl _) (Nat.sub_le _ _) []
    (by simp)
  generalize afRounds selSize pop.length (pop.length - target) factor pop 0 0 draws = rounds at *
  simp only [List.nil_append] at hlog hpre
  intro t ht i hi
  have ht' : t < rounds.length := by rw [hlog] at ht; simpa using ht
  have hrd : rounds[t]? = some rounds[t] := List.getElem?_eq_getElem ht'
  have rok := hrok _ (List.getElem_mem ht')
  have hpre' := hpre t _ hrd
  generalize rounds[t] = rd at *
  have hi' : i ∈ rd.ids := by
    have : r.removedLog[t]? = some rd.ids := by rw [hlog, List.getElem?_map, hrd]; rfl
    rw [List.getElem?_eq_getElem ht, Option.some.injEq] at this
    rw [← this]; exact hi
  obtain ⟨x, hx, hxi⟩ := List.mem_filterMap.1 hi'
  obtain ⟨px, hpx, hj⟩ := rok.justified x hx
  rw [hpx] at hxi
  simp only [Option.map_some, Option.some.injEq] at hxi
  refine ⟨px, rok.before_perm.mem_iff.1 (List.mem_of_getElem? hpx), hxi, ?_⟩
  rcases hj with hn | ⟨py, hpy, h1, h2, h3⟩
  · exact Or.inl hn
  · refine Or.inr ⟨py, rok.after_perm.mem_iff.1 (List.mem_of_mem_take hpy), ?_, h1, h2, h3⟩
    have e : (r.removedLog.take (t + 1)).flatten = ((rounds.take (t + 1)).map Round.ids).flatten := by
      rw [hlog, List.map_take]; rfl
    rw [e, hpre'.mem_iff]
    have hnd : (rd.after.map (·.id)).Nodup := (rok.after_perm.map (·.id)).nodup_iff.2 hids
    rw [← List.take_append_drop (pop.length - (rd.nRemoved + rd.rem.length)) rd.after,
      List.map_append, List.nodup_append] at hnd
    intro hmem
    exact hnd.2.2 py.id (List.mem_map.2 ⟨py, hpy, rfl⟩) py.id hmem rfl

end Sel
end Bingo
