import Proofs.Lemmas.CasFold
/-!
# The folding loop of `fold_constants` keeps the fragment `Ok k T`

Main results: `foldConstants_ok_false`, `foldConstants_ok_true`, `foldConstants_ok`; the intermediate
notions are `Grp` (the normal form of `_group_constants`), `ReplOK` (what every entry of the replacement
instructions satisfies) and `GoodIns` (where an insertion comes from).  The semantic statement
`foldConstants_sound_Full` is only stated.
-/
namespace Bingo
namespace Cas
open Gen.OpDefs
open Expr

/-! ## facts about `Expression.__eq__` -/

theorem beq_term_left {o v : Int} {n : Bool} {b : Expr} (h : (term o v n).beq b = true) :
    ∃ n', b = term o v n' := by
  cases b with
  | term o' v' n' =>
    simp only [beq, Bool.and_eq_true, beq_iff_eq] at h
    obtain ⟨rfl, rfl⟩ := h
    exact ⟨n', rfl⟩
  | node o' bs => simp [beq] at h

theorem beq_term_right {o v : Int} {n : Bool} {a : Expr} (h : a.beq (term o v n) = true) :
    ∃ n', a = term o v n' := by
  cases a with
  | term o' v' n' =>
    simp only [beq, Bool.and_eq_true, beq_iff_eq] at h
    obtain ⟨rfl, rfl⟩ := h
    exact ⟨n', rfl⟩
  | node o' bs => simp [beq] at h

theorem beq_node_left {o : Int} {as : List Expr} {b : Expr} (h : (node o as).beq b = true) :
    ∃ bs, b = node o bs ∧ beqList as bs = true := by
  cases b with
  | term o' v' n' => simp [beq] at h
  | node o' bs =>
    simp only [beq, Bool.and_eq_true, beq_iff_eq] at h
    obtain ⟨rfl, h2⟩ := h
    exact ⟨bs, rfl, h2⟩

theorem beq_node_right {o : Int} {bs : List Expr} {a : Expr} (h : a.beq (node o bs) = true) :
    ∃ as, a = node o as ∧ beqList as bs = true := by
  cases a with
  | term o' v' n' => simp [beq] at h
  | node o' as =>
    simp only [beq, Bool.and_eq_true, beq_iff_eq] at h
    obtain ⟨rfl, h2⟩ := h
    exact ⟨as, rfl, h2⟩

theorem beq_op {a b : Expr} (h : a.beq b = true) : a.op = b.op := by
  cases a with
  | term o v n => obtain ⟨n', rfl⟩ := beq_term_left h; rfl
  | node o as => obtain ⟨bs, rfl, _⟩ := beq_node_left h; rfl

theorem beqList_pair_left {a l : Expr} {bs : List Expr} (h : beqList [a, l] bs = true) :
    ∃ a' l', bs = [a', l'] ∧ l.beq l' = true := by
  match bs, h with
  | [a', l'], h =>
    simp only [beqList, Bool.and_eq_true] at h
    exact ⟨a', l', rfl, h.2.1⟩
  | [], h => simp [beqList] at h
  | [_], h => simp [beqList] at h
  | _ :: _ :: _ :: _, h => simp [beqList] at h

theorem beqList_pair_right {a l : Expr} {as : List Expr} (h : beqList as [a, l] = true) :
    ∃ a' l', as = [a', l'] ∧ l'.beq l = true := by
  match as, h with
  | [a', l'], h =>
    simp only [beqList, Bool.and_eq_true] at h
    exact ⟨a', l', rfl, h.2.1⟩
  | [], h => simp [beqList] at h
  | [_], h => simp [beqList] at h
  | _ :: _ :: _ :: _, h => simp [beqList] at h

/-- an expression equal to a literal power is a literal power with the same exponent -/
theorem beq_powLit_left {b : Expr} {n : Int} {np : Bool} {q : Expr}
    (h : (node POWER [b, term INTEGER n np]).beq q = true) :
    ∃ b' np', q = node POWER [b', term INTEGER n np'] := by
  obtain ⟨bs, rfl, h2⟩ := beq_node_left h
  obtain ⟨a', l', rfl, h3⟩ := beqList_pair_left h2
  obtain ⟨n', rfl⟩ := beq_term_left h3
  exact ⟨a', n', rfl⟩

theorem beq_powLit_right {b : Expr} {n : Int} {np : Bool} {q : Expr}
    (h : q.beq (node POWER [b, term INTEGER n np]) = true) :
    ∃ b' np', q = node POWER [b', term INTEGER n np'] := by
  obtain ⟨bs, rfl, h2⟩ := beq_node_right h
  obtain ⟨a', l', rfl, h3⟩ := beqList_pair_right h2
  obtain ⟨n', rfl⟩ := beq_term_right h3
  exact ⟨a', n', rfl⟩

theorem optBeq_refl (p : Option Expr) : optBeq p p = true := by
  cases p with
  | none => rfl
  | some a => exact beq_refl a

theorem optBeq_some_right {p : Option Expr} {e : Expr} (h : optBeq p (some e) = true) :
    ∃ q, p = some q ∧ q.beq e = true := by
  cases p with
  | none => simp [optBeq] at h
  | some q => exact ⟨q, rfl, h⟩

theorem isCVList_iff {l : List Expr} : isCVList l = true ↔ ∀ a ∈ l, isCV a = true := by
  induction l with
  | nil => simp [isCVList]
  | cons a l ih => simp [isCVList, ih]

mutual
theorem beq_isCV : ∀ (a b : Expr), a.beq b = true → isCV a = isCV b
  | term o v n, term o' v' n', h => by
    simp only [beq, Bool.and_eq_true, beq_iff_eq] at h
    obtain ⟨rfl, rfl⟩ := h
    rfl
  | term _ _ _, node _ _, h => by simp [beq] at h
  | node _ _, term _ _ _, h => by simp [beq] at h
  | node o as, node o' bs, h => by
    simp only [beq, Bool.and_eq_true, beq_iff_eq] at h
    simp only [isCV]
    exact beqList_isCV as bs h.2
theorem beqList_isCV : ∀ (as bs : List Expr), beqList as bs = true → isCVList as = isCVList bs
  | [], [], _ => rfl
  | [], _ :: _, h => by simp [beqList] at h
  | _ :: _, [], h => by simp [beqList] at h
  | a :: as, b :: bs, h => by
    simp only [beqList, Bool.and_eq_true] at h
    simp only [isCVList]
    rw [beq_isCV a b h.1, beqList_isCV as bs h.2]
end

/-! ## grouped expressions over the three terminal kinds -/

mutual
/-- every terminal is an `INTEGER`, a `VARIABLE` or a `CONSTANT`, and no sum / product has both
more than one constant-valued operand and some other operand (the normal form of `_group_constants`) -/
def Grp : Expr → Bool
  | term o _ _ => o == INTEGER || o == VARIABLE || o == CONSTANT
  | node o as =>
    (!(o == MULTIPLICATION || o == ADDITION) ||
      !(decide ((as.filter isCV).length > 1) && decide ((as.filter fun a => !a.isCV).length > 0)))
    && GrpList as
def GrpList : List Expr → Bool
  | [] => true
  | a :: as => Grp a && GrpList as
end

theorem GrpList_iff {l : List Expr} : GrpList l = true ↔ ∀ a ∈ l, Grp a = true := by
  induction l with
  | nil => simp [GrpList]
  | cons a l ih => simp [GrpList, ih]

theorem Grp_node {o : Int} {as : List Expr} : Grp (node o as) = true ↔
    ((o = MULTIPLICATION ∨ o = ADDITION) →
      ¬ ((as.filter isCV).length > 1 ∧ (as.filter fun a => !a.isCV).length > 0)) ∧
    ∀ a ∈ as, Grp a = true := by
  simp only [Grp, GrpList_iff, Bool.and_eq_true, Bool.or_eq_true, Bool.not_eq_true',
    Bool.or_eq_false_iff, Bool.and_eq_false_iff, beq_eq_false_iff_ne,
    decide_eq_false_iff_not]
  constructor
  · rintro ⟨h1, h2⟩
    refine ⟨fun ho hc => ?_, h2⟩
    rcases h1 with h1 | h1
    · rcases ho with ho | ho
      · exact h1.1 ho
      · exact h1.2 ho
    · rcases h1 with h1 | h1
      · exact h1 hc.1
      · exact h1 hc.2
  · rintro ⟨h1, h2⟩
    refine ⟨?_, h2⟩
    by_cases ho : o = MULTIPLICATION ∨ o = ADDITION
    · right
      by_cases hc : (as.filter isCV).length > 1
      · right; exact fun h => h1 ho ⟨hc, h⟩
      · left; exact hc
    · left
      exact ⟨fun h => ho (Or.inl h), fun h => ho (Or.inr h)⟩

/-- `GoodConst T c`: `c` is an admissible `CONSTANT` terminal -/
def GoodConst (T : Int → Int → Bool) (c : Expr) : Prop :=
  ∃ j np, c = term CONSTANT j np ∧ T CONSTANT j = true

theorem GoodConst.ok {k : Bool} {T : Int → Int → Bool} {c : Expr} (h : GoodConst T c) :
    Ok k T c = true := by
  obtain ⟨j, np, rfl, hT⟩ := h
  exact Ok_term.2 (Or.inr hT)

theorem GoodConst.isCV {T : Int → Int → Bool} {c : Expr} (h : GoodConst T c) : isCV c = true := by
  obtain ⟨j, np, rfl, _⟩ := h
  simp [Expr.isCV]

theorem GoodConst.grp {T : Int → Int → Bool} {c : Expr} (h : GoodConst T c) : Grp c = true := by
  obtain ⟨j, np, rfl, _⟩ := h
  simp [Grp]

/-! ## the replacement pass -/

/-- an invariant of every entry `replacements[parent][child] = value` -/
def RInv (Φ : Option Expr → Expr → Option Expr → Prop) (repl : Replacements) : Prop :=
  ∀ pd ∈ repl, ∀ kv ∈ pd.2, Φ pd.1 kv.1 kv.2

/-- what the folding pass needs to know about an entry:
* an inserted expression is an admissible `CONSTANT` terminal;
* below a literal power only nodes are replaced and nothing is deleted (so the exponent stays);
* (`strong`) only constant-valued operands are touched, and nothing is deleted below a sum / product -/
def ReplOK (T : Int → Int → Bool) (strong : Prop) (p : Option Expr) (ch : Expr) (v : Option Expr) :
    Prop :=
  (∀ c, v = some c → GoodConst T c) ∧
  (∀ b n np, p = some (node POWER [b, term INTEGER n np]) →
    (∃ o as, ch = node o as) ∧ v.isSome = true) ∧
  (strong → isCV ch = true ∧
    ∀ q, p = some q → (q.op = ADDITION ∨ q.op = MULTIPLICATION) → v.isSome = true)

/-- `None not in replacements` -/
def NoNoneKey (repl : Replacements) : Prop := repl.find? (·.1.isNone) = none

theorem wholeReplacement?_none {repl : Replacements} (h : NoNoneKey repl) (e : Expr) :
    wholeReplacement? repl e = none := by
  unfold wholeReplacement?
  rw [h]

theorem replacementsFor_inv {Φ : Option Expr → Expr → Option Expr → Prop} {repl : Replacements}
    (hr : RInv Φ repl) (e : Expr) :
    ∀ kv ∈ replacementsFor repl e, ∃ p, optBeq p (some e) = true ∧ Φ p kv.1 kv.2 := by
  unfold replacementsFor
  cases h : repl.find? (fun p => optBeq p.1 (some e)) with
  | none => intro kv hkv; cases hkv
  | some pd =>
    intro kv hkv
    have h1 := List.find?_some h
    exact ⟨pd.1, h1, hr pd (List.mem_of_find?_eq_some h) kv hkv⟩

/-- operand lists related by replacing / recursing (`R`) or deleting (`D`) -/
inductive FoldRel (R : Expr → Expr → Prop) (D : Expr → Prop) : List Expr → List Expr → Prop
  | nil : FoldRel R D [] []
  | keep {a b : Expr} {as bs : List Expr} : R a b → FoldRel R D as bs → FoldRel R D (a :: as) (b :: bs)
  | drop {a : Expr} {as bs : List Expr} : D a → FoldRel R D as bs → FoldRel R D (a :: as) bs

theorem FoldRel.mem {R : Expr → Expr → Prop} {D : Expr → Prop} {as bs : List Expr}
    (h : FoldRel R D as bs) : ∀ b ∈ bs, ∃ a ∈ as, R a b := by
  induction h with
  | nil => intro b hb; cases hb
  | keep hr _ ih =>
    intro b hb
    rcases List.mem_cons.1 hb with rfl | hb
    · exact ⟨_, List.mem_cons_self, hr⟩
    · obtain ⟨a, ha, h⟩ := ih b hb
      exact ⟨a, List.mem_cons_of_mem _ ha, h⟩
  | drop _ _ ih =>
    intro b hb
    obtain ⟨a, ha, h⟩ := ih b hb
    exact ⟨a, List.mem_cons_of_mem _ ha, h⟩

theorem FoldRel.forall₂ {R : Expr → Expr → Prop} {D : Expr → Prop} {as bs : List Expr}
    (h : FoldRel R D as bs) (hD : ∀ a ∈ as, ¬ D a) : List.Forall₂ R as bs := by
  induction h with
  | nil => exact .nil
  | keep hr _ ih => exact .cons hr (ih fun a ha => hD a (List.mem_cons_of_mem _ ha))
  | drop hd _ _ => exact absurd hd (hD _ List.mem_cons_self)

theorem FoldRel.filter_le {R : Expr → Expr → Prop} {D : Expr → Prop} {as bs : List Expr}
    (h : FoldRel R D as bs) (q : Expr → Bool) (hq : ∀ a ∈ as, ∀ b, R a b → q b = q a) :
    (bs.filter q).length ≤ (as.filter q).length := by
  induction h with
  | nil => exact Nat.le_refl _
  | @keep a b as bs hr _ ih =>
    have ih := ih fun a ha => hq a (List.mem_cons_of_mem _ ha)
    rw [List.filter_cons, List.filter_cons, hq a List.mem_cons_self b hr]
    split
    · simp only [List.length_cons]; omega
    · exact ih
  | @drop a as bs _ _ ih =>
    have ih := ih fun a ha => hq a (List.mem_cons_of_mem _ ha)
    rw [List.filter_cons]
    split
    · simp only [List.length_cons]; omega
    · exact ih

theorem FoldRel.mem_left {R : Expr → Expr → Prop} {D : Expr → Prop} {as bs : List Expr}
    (h : FoldRel R D as bs) : ∀ a ∈ as, D a ∨ ∃ b ∈ bs, R a b := by
  induction h with
  | nil => intro a ha; cases ha
  | keep hr _ ih =>
    intro a ha
    rcases List.mem_cons.1 ha with rfl | ha
    · exact Or.inr ⟨_, List.mem_cons_self, hr⟩
    · rcases ih a ha with h | ⟨b, hb, h⟩
      · exact Or.inl h
      · exact Or.inr ⟨b, List.mem_cons_of_mem _ hb, h⟩
  | drop hd _ ih =>
    intro a ha
    rcases List.mem_cons.1 ha with rfl | ha
    · exact Or.inl hd
    · exact ih a ha

/-- the operand list computed by `_get_new_operands_with_replacements` -/
theorem foldOperands_rel (repl : Replacements) (d : List (Expr × Option Expr)) :
    ∀ (args bs : List Expr), foldOperands repl d args = .ok bs →
      FoldRel
        (fun a b => (∃ kv ∈ d, kv.1.beq a = true ∧ kv.2 = some b) ∨
          ((∀ kv ∈ d, kv.1.beq a = false) ∧ performConstantFolding repl a = .ok b))
        (fun a => ∃ kv ∈ d, kv.1.beq a = true ∧ kv.2 = none) args bs := by
  intro args
  induction args with
  | nil =>
    intro bs h
    rw [foldOperands] at h
    cases h
    exact .nil
  | cons o os ih =>
    intro bs h
    rw [foldOperands] at h
    split at h
    · rename_i k c hf
      cases hos : foldOperands repl d os with
      | error s => rw [hos] at h; cases h
      | ok bs' =>
        rw [hos] at h
        cases h
        have h1 := List.find?_some hf
        exact .keep (Or.inl ⟨_, List.mem_of_find?_eq_some hf, h1, rfl⟩) (ih bs' hos)
    · rename_i k hf
      have h1 := List.find?_some hf
      exact .drop ⟨_, List.mem_of_find?_eq_some hf, h1, rfl⟩ (ih bs h)
    · rename_i hf
      cases ho : performConstantFolding repl o with
      | error s => rw [ho] at h; cases h
      | ok o' =>
        cases hos : foldOperands repl d os with
        | error s => rw [ho, hos] at h; cases h
        | ok bs' =>
          rw [ho, hos] at h
          cases h
          refine .keep (Or.inr ⟨fun kv hkv => ?_, ho⟩) (ih bs' hos)
          have := List.find?_eq_none.1 hf kv hkv
          simpa using this

theorem pCF_term {repl : Replacements} (hn : NoNoneKey repl) (o v : Int) (n : Bool) :
    performConstantFolding repl (term o v n) = .ok (term o v n) := by
  rw [performConstantFolding, wholeReplacement?_none hn]
  rfl

theorem pCF_node {repl : Replacements} (hn : NoNoneKey repl) {op : Int} {args : List Expr}
    {e' : Expr} (h : performConstantFolding repl (node op args) = .ok e') :
    ∃ bs, foldOperands repl (replacementsFor repl (node op args)) args = .ok bs ∧
      e' = node op bs := by
  rw [performConstantFolding, wholeReplacement?_none hn] at h
  dsimp only at h
  cases hf : foldOperands repl (replacementsFor repl (node op args)) args with
  | error s => rw [hf] at h; cases h
  | ok bs => rw [hf] at h; cases h; exact ⟨bs, rfl, rfl⟩

theorem shapeOK_pow_args {k : Bool} {as : List Expr} (h : shapeOK k POWER as = true) :
    ∃ b n np, as = [b, term INTEGER n np] := by
  simp only [shapeOK, Bool.and_eq_true] at h
  have h2 := h.1.2
  rw [if_pos trivial] at h2
  split at h2
  · rename_i b o' v np
    simp only [Bool.and_eq_true, beq_iff_eq] at h2
    obtain ⟨rfl, _⟩ := h2
    exact ⟨b, v, np, rfl⟩
  · cases h2

/-- away from `POWER` the shape only depends on the number of operands -/
theorem shapeOK_of_len {k : Bool} {op : Int} {as bs : List Expr} (h : shapeOK k op as = true)
    (hp : op ≠ POWER)
    (hl : k = true → (op = ADDITION ∨ op = MULTIPLICATION) → as.length ≤ bs.length) :
    shapeOK k op bs = true := by
  simp only [shapeOK, Bool.and_eq_true] at h ⊢
  refine ⟨⟨h.1.1, by rw [if_neg hp]⟩, ?_⟩
  cases k with
  | false => rfl
  | true =>
    have h2 := h.2
    simp only [Bool.not_true, Bool.false_or, Bool.and_eq_true] at h2 ⊢
    refine ⟨h2.1, ?_⟩
    by_cases hop : op = ADDITION ∨ op = MULTIPLICATION
    · have h3 := h2.2
      rw [if_pos hop] at h3 ⊢
      have := hl rfl hop
      simp only [decide_eq_true_eq] at h3 ⊢
      omega
    · rw [if_neg hop]

section fold
variable {k : Bool} {T : Int → Int → Bool} {strong : Prop} {repl : Replacements}

/-- one replacement pass keeps the fragment -/
theorem pCF_ok (hk : k = true → strong) (hn : NoNoneKey repl) (hr : RInv (ReplOK T strong) repl) :
    ∀ e e', Ok k T e = true → performConstantFolding repl e = .ok e' → Ok k T e' = true := by
  intro e
  induction e using Expr.ind' with
  | ht o v n =>
    intro e' hok h
    rw [pCF_term hn] at h
    cases h
    exact hok
  | hn o as ih =>
    intro e' hok h
    obtain ⟨bs, hf, rfl⟩ := pCF_node hn h
    obtain ⟨hs, hm⟩ := Ok_node.1 hok
    have hrel := foldOperands_rel repl _ as bs hf
    have hd := replacementsFor_inv hr (node o as)
    have hmem : ∀ b ∈ bs, Ok k T b = true := by
      intro b hb
      obtain ⟨a, ha, hR⟩ := hrel.mem b hb
      rcases hR with ⟨kv, hkv, _, hv⟩ | ⟨_, hp⟩
      · obtain ⟨p, _, hΦ⟩ := hd kv hkv
        exact (hΦ.1 b hv).ok
      · exact ih a ha b (hm a ha) hp
    refine Ok_node.2 ⟨?_, hmem⟩
    by_cases hp : o = POWER
    · subst hp
      obtain ⟨b, n, np, rfl⟩ := shapeOK_pow_args hs
      have hpow : ∀ kv ∈ replacementsFor repl (node POWER [b, term INTEGER n np]),
          (∃ o as, kv.1 = node o as) ∧ kv.2.isSome = true := by
        intro kv hkv
        obtain ⟨p, hpb, hΦ⟩ := hd kv hkv
        obtain ⟨q, rfl, hq⟩ := optBeq_some_right hpb
        obtain ⟨b', np', rfl⟩ := beq_powLit_right hq
        exact hΦ.2.1 b' n np' rfl
      have h2 := hrel.forall₂ (by
        rintro a _ ⟨kv, hkv, _, hv⟩
        have := (hpow kv hkv).2
        rw [hv] at this
        cases this)
      match bs, h2 with
      | [b', l'], .cons _ (.cons hl .nil) =>
        have hl' : l' = term INTEGER n np := by
          rcases hl with ⟨kv, hkv, hbeq, _⟩ | ⟨_, hp⟩
          · obtain ⟨⟨o', as', hnode⟩, _⟩ := hpow kv hkv
            rw [hnode] at hbeq
            simp [beq] at hbeq
          · rw [pCF_term hn] at hp
            cases hp
            rfl
        subst hl'
        exact hs
    · refine shapeOK_of_len hs hp fun hk1 hop => ?_
      have h2 := hrel.forall₂ (by
        rintro a _ ⟨kv, hkv, _, hv⟩
        obtain ⟨p, hpb, hΦ⟩ := hd kv hkv
        obtain ⟨q, rfl, hq⟩ := optBeq_some_right hpb
        have := (hΦ.2.2 (hk hk1)).2 q rfl (by rw [beq_op hq]; exact hop)
        rw [hv] at this
        cases this)
      exact h2.length_eq.le

end fold

/-- one replacement pass keeps the grouped normal form and the constant-valuedness -/
theorem pCF_grp {T : Int → Int → Bool} {repl : Replacements} (hn : NoNoneKey repl)
    (hr : RInv (ReplOK T True) repl) :
    ∀ e e', Grp e = true → performConstantFolding repl e = .ok e' →
      Grp e' = true ∧ isCV e' = isCV e := by
  intro e
  induction e using Expr.ind' with
  | ht o v n =>
    intro e' hg h
    rw [pCF_term hn] at h
    cases h
    exact ⟨hg, rfl⟩
  | hn o as ih =>
    intro e' hg h
    obtain ⟨bs, hf, rfl⟩ := pCF_node hn h
    obtain ⟨hc, hm⟩ := Grp_node.1 hg
    have hrel := foldOperands_rel repl _ as bs hf
    have hd := replacementsFor_inv hr (node o as)
    have hR : ∀ a ∈ as, ∀ b,
        ((∃ kv ∈ replacementsFor repl (node o as), kv.1.beq a = true ∧ kv.2 = some b) ∨
          ((∀ kv ∈ replacementsFor repl (node o as), kv.1.beq a = false) ∧
            performConstantFolding repl a = .ok b)) → Grp b = true ∧ isCV b = isCV a := by
      intro a ha b hR
      rcases hR with ⟨kv, hkv, hbeq, hv⟩ | ⟨_, hp⟩
      · obtain ⟨p, _, hΦ⟩ := hd kv hkv
        have hc := hΦ.1 b hv
        refine ⟨hc.grp, ?_⟩
        rw [hc.isCV, ← beq_isCV _ _ hbeq, (hΦ.2.2 trivial).1]
      · exact ih a ha b (hm a ha) hp
    have hD : ∀ a, (∃ kv ∈ replacementsFor repl (node o as), kv.1.beq a = true ∧ kv.2 = none) →
        isCV a = true := by
      rintro a ⟨kv, hkv, hbeq, _⟩
      obtain ⟨p, _, hΦ⟩ := hd kv hkv
      rw [← beq_isCV _ _ hbeq, (hΦ.2.2 trivial).1]
    refine ⟨Grp_node.2 ⟨fun ho hcon => hc ho ⟨?_, ?_⟩, fun b hb => ?_⟩, ?_⟩
    · exact Nat.lt_of_lt_of_le hcon.1 (hrel.filter_le isCV fun a ha b h => (hR a ha b h).2)
    · exact Nat.lt_of_lt_of_le hcon.2
        (hrel.filter_le (fun a => !a.isCV) fun a ha b h => by simp only [(hR a ha b h).2])
    · obtain ⟨a, ha, h⟩ := hrel.mem b hb
      exact (hR a ha b h).1
    · simp only [isCV]
      rw [Bool.eq_iff_iff, isCVList_iff, isCVList_iff]
      constructor
      · intro hall a ha
        rcases hrel.mem_left a ha with hdel | ⟨b, hb, h⟩
        · exact hD a hdel
        · rw [← (hR a ha b h).2]; exact hall b hb
      · intro hall b hb
        obtain ⟨a, ha, h⟩ := hrel.mem b hb
        rw [(hR a ha b h).2]; exact hall a ha

/-! ## building the replacement instructions -/

theorem RInv_nil (Φ : Option Expr → Expr → Option Expr → Prop) : RInv Φ [] := by
  intro pd h; cases h

theorem setReplacement_inv {Φ : Option Expr → Expr → Option Expr → Prop} {repl : Replacements}
    {parent : Option Expr} {child : Expr} {v : Option Expr} (hr : RInv Φ repl)
    (h : ∀ p ch', optBeq p parent = true → ch'.beq child = true → Φ p ch' v) :
    RInv Φ (setReplacement repl parent child v) := by
  induction repl with
  | nil =>
    intro pd hpd kv hkv
    simp only [setReplacement, List.mem_singleton] at hpd
    subst hpd
    simp only [List.mem_singleton] at hkv
    subst hkv
    exact h parent child (optBeq_refl _) (beq_refl _)
  | cons pd0 rest ih =>
    obtain ⟨p, d⟩ := pd0
    rw [setReplacement]
    split
    · rename_i hpb
      intro pd hpd kv hkv
      rcases List.mem_cons.1 hpd with rfl | hpd
      · dsimp only at hkv ⊢
        split at hkv
        · obtain ⟨kv0, hkv0, rfl⟩ := List.mem_map.1 hkv
          split
          · rename_i hb
            exact h p kv0.1 hpb hb
          · exact hr (p, d) List.mem_cons_self kv0 hkv0
        · rcases List.mem_append.1 hkv with hkv | hkv
          · exact hr (p, d) List.mem_cons_self kv hkv
          · simp only [List.mem_singleton] at hkv
            subst hkv
            exact h p child hpb (beq_refl _)
      · exact hr pd (List.mem_cons_of_mem _ hpd) kv hkv
    · intro pd hpd kv hkv
      rcases List.mem_cons.1 hpd with rfl | hpd
      · exact hr _ List.mem_cons_self kv hkv
      · exact ih (fun pd hpd => hr pd (List.mem_cons_of_mem _ hpd)) pd hpd kv hkv

/-- the values `genChildren` assigns: the first child gets the constant, the others `None` -/
def vals (c : Expr) : Bool → List Expr → List (Expr × Option Expr)
  | _, [] => []
  | first, ch :: rest => (ch, if first then some c else none) :: vals c false rest

/-- what has to hold for the entries one insertion `(parent, children)` creates -/
def InsCond (Φ : Option Expr → Expr → Option Expr → Prop) (c : Expr) (ins : Insertion) : Prop :=
  ∀ cv ∈ vals c true ins.2, ∀ p ch', optBeq p ins.1 = true → ch'.beq cv.1 = true → Φ p ch' cv.2

theorem genChildren_inv {Φ : Option Expr → Expr → Option Expr → Prop} {c : Expr}
    {parent : Option Expr} : ∀ (children : List Expr) (first : Bool) (s : GenState), RInv Φ s.1 →
    (∀ cv ∈ vals c first children, ∀ p ch', optBeq p parent = true → ch'.beq cv.1 = true →
      Φ p ch' cv.2) →
    RInv Φ (genChildren c parent children first s).1 := by
  intro children
  induction children with
  | nil => intro first s hs _; rw [genChildren]; exact hs
  | cons ch rest ih =>
    intro first s hs h
    obtain ⟨repl, ins, reps⟩ := s
    rw [genChildren]
    refine ih false _ (setReplacement_inv hs fun p ch' hp hc => ?_) fun cv hcv => ?_
    · exact h (ch, if first then some c else none) (by simp [vals]) p ch' hp hc
    · exact h cv (by simp only [vals]; exact List.mem_cons_of_mem _ hcv)

theorem genInsertions_inv {Φ : Option Expr → Expr → Option Expr → Prop} {c : Expr} :
    ∀ (insertions : List Insertion) (s : GenState), RInv Φ s.1 →
    (∀ ins ∈ insertions, InsCond Φ c ins) → RInv Φ (genInsertions c insertions s).1 := by
  intro insertions
  induction insertions with
  | nil => intro s hs _; rw [genInsertions]; exact hs
  | cons ins rest ih =>
    intro s hs h
    obtain ⟨parent, children⟩ := ins
    rw [genInsertions]
    exact ih _ (genChildren_inv children true s hs (h (parent, children) List.mem_cons_self))
      fun ins hins => h ins (List.mem_cons_of_mem _ hins)

theorem genZip_inv {Φ : Option Expr → Expr → Option Expr → Prop} {constants : List (Int × Expr)} :
    ∀ (cs : List Int) (ips : InsertionPoints) (s r : GenState), RInv Φ s.1 →
    (∀ j c, constants.lookup j = some c → ∀ ks ∈ ips, ∀ ins ∈ ks.2, InsCond Φ c ins) →
    genZip constants cs ips s = .ok r → RInv Φ r.1 := by
  intro cs
  induction cs with
  | nil =>
    intro ips s r hs _ h
    rw [genZip] at h
    · cases h
      exact hs
    · intro _ _ _ _ _ h1
      cases h1
  | cons j cs ih =>
    intro ips s r hs hc h
    cases ips with
    | nil =>
      rw [genZip] at h
      · cases h
        exact hs
      · intro _ _ _ _ _ _ h2
        cases h2
    | cons ks ips =>
      obtain ⟨key, insertions⟩ := ks
      rw [genZip] at h
      split at h
      · rename_i c hl
        refine ih ips _ r (genInsertions_inv insertions s hs fun ins hins => ?_) ?_ h
        · exact hc j c hl (key, insertions) List.mem_cons_self ins hins
        · exact fun j' c' hl' ks hks => hc j' c' hl' ks (List.mem_cons_of_mem _ hks)
      · cases h

theorem generateReplacements_inv {Φ : Option Expr → Expr → Option Expr → Prop} {S : List Int}
    {constants : List (Int × Expr)} {ips : InsertionPoints} {repl : Replacements}
    (hc : ∀ j c, constants.lookup j = some c → ∀ ks ∈ ips, ∀ ins ∈ ks.2, InsCond Φ c ins)
    (h : generateReplacements S constants ips = .ok repl) : RInv Φ repl := by
  unfold generateReplacements at h
  split at h
  · cases h; exact RInv_nil Φ
  · cases hz : genZip constants S ips ([], [], []) with
    | error s => rw [hz] at h; cases h
    | ok r =>
      rw [hz] at h
      obtain ⟨repl', ins, reps⟩ := r
      have hr : RInv Φ repl' := genZip_inv S ips _ _ (RInv_nil Φ) hc hz
      change (if sameSets ins reps = true then pure [] else pure repl') = Except.ok repl at h
      split at h
      · cases h; exact RInv_nil Φ
      · cases h; exact hr

/-! ## the insertions found by the search are harmless -/

theorem vals_mem {c : Expr} : ∀ {l : List Expr} {first : Bool} {cv : Expr × Option Expr},
    cv ∈ vals c first l → cv.1 ∈ l ∧ (cv.2 = some c ∨ cv.2 = none) := by
  intro l
  induction l with
  | nil => intro first cv h; cases h
  | cons a l ih =>
    intro first cv h
    simp only [vals] at h
    rcases List.mem_cons.1 h with rfl | h
    · refine ⟨List.mem_cons_self, ?_⟩
      cases first <;> simp
    · exact ⟨List.mem_cons_of_mem _ (ih h).1, (ih h).2⟩

theorem vals_le_one {c : Expr} {l : List Expr} (hl : l.length ≤ 1) {cv : Expr × Option Expr}
    (h : cv ∈ vals c true l) : cv.2 = some c := by
  match l, hl with
  | [], _ => cases h
  | [a], _ =>
    simp only [vals, List.mem_singleton] at h
    subst h
    rfl

theorem isInsertionPoint_powLit (S : List Int) (b : Expr) (n : Int) (np : Bool) :
    isInsertionPoint S [b, term INTEGER n np] = false := by
  have h1 : hasConsts S (term INTEGER n np) = false := by
    simp only [hasConsts]
    have : (INTEGER == CONSTANT) = false := by decide
    rw [this]; rfl
  have h2 : hasOthers S (term INTEGER n np) = false := by
    simp only [hasOthers]
    have e1 : (INTEGER == CONSTANT) = false := by decide
    have e2 : (INTEGER == VARIABLE) = false := by decide
    rw [e1, e2]; rfl
  simp only [isInsertionPoint, List.any_cons, List.any_nil, h1, h2]
  cases hasOthers S b <;> simp

/-- where an insertion `(parent, children)` may come from -/
def GoodIns (S : List Int) (strong : Prop) (ins : Insertion) : Prop :=
  (∃ o as, ins.2 = [node o as] ∧ isCV (node o as) = true) ∨
  (∃ o args, ins.1 = some (node o args) ∧ isInsertionPoint S args = true ∧
    (strong → (∀ ch ∈ ins.2, isCV ch = true) ∧
      ((o = ADDITION ∨ o = MULTIPLICATION) → ins.2.length ≤ 1))) ∨
  (ins.1 = none ∧ (strong → ∀ ch ∈ ins.2, isCV ch = true))

theorem insCond_of_good {T : Int → Int → Bool} {S : List Int} {strong : Prop} {c : Expr}
    {ins : Insertion} (hc : GoodConst T c) (hg : GoodIns S strong ins) :
    InsCond (ReplOK T strong) c ins := by
  intro cv hcv p ch' hp hch
  obtain ⟨hmem, hval⟩ := vals_mem hcv
  refine ⟨?_, ?_, ?_⟩
  · intro c' hc'
    rcases hval with h | h
    · rw [h] at hc'; cases hc'; exact hc
    · rw [h] at hc'; cases hc'
  · intro b n np hpp
    subst hpp
    rcases hg with ⟨o, as, h2, _⟩ | ⟨o, args, h1, hip, _⟩ | ⟨h1, _⟩
    · rw [h2] at hcv
      simp only [vals, List.mem_singleton] at hcv
      subst hcv
      obtain ⟨as', rfl, _⟩ := beq_node_right hch
      exact ⟨⟨_, _, rfl⟩, rfl⟩
    · rw [h1] at hp
      have hp' : (node POWER [b, term INTEGER n np]).beq (node o args) = true := hp
      obtain ⟨b', np', hq⟩ := beq_powLit_left hp'
      cases hq
      rw [isInsertionPoint_powLit] at hip
      cases hip
    · rw [h1] at hp
      simp [optBeq] at hp
  · intro hs
    constructor
    · rw [beq_isCV _ _ hch]
      rcases hg with ⟨o, as, h2, hcvn⟩ | ⟨o, args, _, _, h3⟩ | ⟨_, h3⟩
      · rw [h2, List.mem_singleton] at hmem
        rw [hmem]; exact hcvn
      · exact (h3 hs).1 _ hmem
      · exact h3 hs _ hmem
    · intro q hq hop
      subst hq
      rcases hg with ⟨o, as, h2, _⟩ | ⟨o, args, h1, _, h3⟩ | ⟨h1, _⟩
      · rw [h2] at hcv
        simp only [vals, List.mem_singleton] at hcv
        subst hcv
        rfl
      · rw [h1] at hp
        have hop' : o = ADDITION ∨ o = MULTIPLICATION := by
          have hp' : q.beq (node o args) = true := hp
          have := beq_op hp'
          simp only [Expr.op] at this
          rw [← this]; exact hop
        rw [vals_le_one ((h3 hs).2 hop') hcv]
        rfl
      · rw [h1] at hp
        simp [optBeq] at hp

/-- every insertion recorded in `insertion_points` satisfies `G` -/
def IPInv (G : Insertion → Prop) (ips : InsertionPoints) : Prop :=
  ∀ ks ∈ ips, ∀ ins ∈ ks.2, G ins

theorem addInsertion_inv {G : Insertion → Prop} {ips : InsertionPoints} {key : Expr}
    {ins : Insertion} (h : IPInv G ips) (hi : G ins) : IPInv G (addInsertion ips key ins) := by
  induction ips with
  | nil =>
    intro ks hks i hi'
    simp only [addInsertion, List.mem_singleton] at hks
    subst hks
    simp only [List.mem_singleton] at hi'
    subst hi'
    exact hi
  | cons ks0 rest ih =>
    obtain ⟨k0, set⟩ := ks0
    rw [addInsertion]
    split
    · intro ks hks i hi'
      rcases List.mem_cons.1 hks with rfl | hks
      · dsimp only at hi'
        split at hi'
        · exact h _ List.mem_cons_self i hi'
        · rcases List.mem_append.1 hi' with hi' | hi'
          · exact h _ List.mem_cons_self i hi'
          · simp only [List.mem_singleton] at hi'
            subst hi'
            exact hi
      · exact h ks (List.mem_cons_of_mem _ hks) i hi'
    · intro ks hks i hi'
      rcases List.mem_cons.1 hks with rfl | hks
      · exact h _ List.mem_cons_self i hi'
      · exact ih (fun ks hks => h ks (List.mem_cons_of_mem _ hks)) ks hks i hi'

/-! ## the search for insertion points -/

theorem mem_dedupExprs {a : Expr} : ∀ {l : List Expr}, a ∈ dedupExprs l → a ∈ l := by
  intro l
  induction l with
  | nil => intro h; cases h
  | cons b l ih =>
    intro h
    rw [dedupExprs] at h
    rcases List.mem_cons.1 h with rfl | h
    · exact List.mem_cons_self
    · exact List.mem_cons_of_mem _ (ih (List.mem_of_mem_filter h))

theorem length_dedupExprs_le (l : List Expr) : (dedupExprs l).length ≤ l.length := by
  induction l with
  | nil => exact Nat.le_refl _
  | cons b l ih =>
    rw [dedupExprs]
    simp only [List.length_cons]
    have := List.length_filter_le (fun c => !(b.beq c)) (dedupExprs l)
    omega

theorem filter_length_le_of_imp {p q : Expr → Bool} : ∀ (l : List Expr),
    (∀ a ∈ l, p a = true → q a = true) → (l.filter p).length ≤ (l.filter q).length := by
  intro l
  induction l with
  | nil => intro _; exact Nat.le_refl _
  | cons a l ih =>
    intro h
    have ih := ih fun b hb => h b (List.mem_cons_of_mem _ hb)
    rw [List.filter_cons, List.filter_cons]
    by_cases hp : p a = true
    · rw [if_pos hp, if_pos (h a List.mem_cons_self hp)]
      simp only [List.length_cons]; omega
    · rw [if_neg hp]
      split
      · simp only [List.length_cons]; omega
      · exact ih

theorem hasOthersList_false {S : List Int} {l : List Expr} (h : hasOthersList S l = false) :
    ∀ a ∈ l, hasOthers S a = false := by
  induction l with
  | nil => intro a ha; cases ha
  | cons b l ih =>
    simp only [hasOthersList, Bool.or_eq_false_iff] at h
    intro a ha
    rcases List.mem_cons.1 ha with rfl | ha
    · exact h.1
    · exact ih h.2 a ha

/-- over the three terminal kinds, "depends on nothing but the chosen constants" implies
"constant-valued" -/
theorem isCV_of_not_hasOthers (S : List Int) : ∀ e, Grp e = true → hasOthers S e = false →
    isCV e = true := by
  intro e
  induction e using Expr.ind' with
  | ht o v n =>
    intro hg ho
    simp only [Grp, Bool.or_eq_true, beq_iff_eq] at hg
    simp only [hasOthers, Bool.or_eq_false_iff, beq_eq_false_iff_ne] at ho
    simp only [isCV, Bool.or_eq_true, beq_iff_eq]
    rcases hg with (h | h) | h
    · exact Or.inl h
    · exact absurd h ho.1
    · exact Or.inr h
  | hn o as ih =>
    intro hg ho
    simp only [hasOthers] at ho
    simp only [isCV]
    exact isCVList_iff.2 fun a ha =>
      ih a ha ((Grp_node.1 hg).2 a ha) (hasOthersList_false ho a ha)

theorem IPInv_nil (G : Insertion → Prop) : IPInv G [] := by
  intro ks h; cases h

theorem searchList_inv {G : Insertion → Prop} {S : List Int} {parent : Option Expr} :
    ∀ (as : List Expr) (acc : InsertionPoints),
    (∀ a ∈ as, ∀ acc, IPInv G acc → IPInv G (searchInsertionPoints S a parent acc)) →
    IPInv G acc → IPInv G (searchInsertionPointsList S as parent acc) := by
  intro as
  induction as with
  | nil => intro acc _ h; rw [searchInsertionPointsList]; exact h
  | cons a as ih =>
    intro acc hm h
    rw [searchInsertionPointsList]
    exact ih _ (fun b hb => hm b (List.mem_cons_of_mem _ hb)) (hm a List.mem_cons_self acc h)

theorem search_inv {S : List Int} {strong : Prop} : ∀ e, (strong → Grp e = true) →
    ∀ parent acc, IPInv (GoodIns S strong) acc →
      IPInv (GoodIns S strong) (searchInsertionPoints S e parent acc) := by
  intro e
  induction e using Expr.ind' with
  | ht o v n => intro _ parent acc h; rw [searchInsertionPoints]; exact h
  | hn o args ih =>
    intro hg parent acc hacc
    rw [searchInsertionPoints]
    have h1 : IPInv (GoodIns S strong)
        (searchInsertionPointsList S args (some (node o args)) acc) :=
      searchList_inv args acc
        (fun a ha acc' h => ih a ha (fun hs => (Grp_node.1 (hg hs)).2 a ha) _ acc' h) hacc
    split
    · exact h1
    · rename_i hip
      have hip' : isInsertionPoint S args = true := by simpa using hip
      split
      · rename_i hcv
        exact addInsertion_inv h1 (Or.inl ⟨o, args, rfl, hcv⟩)
      · rename_i hcv
        refine addInsertion_inv h1 (Or.inr (Or.inl ⟨o, args, rfl, hip', fun hs => ?_⟩))
        obtain ⟨hc, hm⟩ := Grp_node.1 (hg hs)
        have himp : ∀ a ∈ args, (!hasOthers S a) = true → isCV a = true := fun a ha h =>
          isCV_of_not_hasOthers S a (hm a ha) (by simpa using h)
        refine ⟨fun ch hch => ?_, fun hop => ?_⟩
        · have h2 := mem_dedupExprs hch
          rw [List.mem_filter] at h2
          exact himp ch h2.1 h2.2
        · dsimp only
          have l1 := length_dedupExprs_le (args.filter fun o => !hasOthers S o)
          have l2 := filter_length_le_of_imp args himp
          have hpos : (args.filter fun a => !a.isCV).length > 0 := by
            have : ¬ (∀ a ∈ args, isCV a = true) := fun h => hcv (by
              simp only [isCV]; exact isCVList_iff.2 h)
            simp only [not_forall] at this
            obtain ⟨a, ha, hna⟩ := this
            exact List.length_pos_of_mem (List.mem_filter.2 ⟨ha, by simpa using hna⟩)
          have := hc hop.symm
          omega

theorem findInsertionPoints_inv {S : List Int} {strong : Prop} {e : Expr}
    (hg : strong → Grp e = true) : IPInv (GoodIns S strong) (findInsertionPoints e S) := by
  unfold findInsertionPoints
  split
  · rename_i h
    simp only [Bool.and_eq_true, Bool.not_eq_true'] at h
    intro ks hks ins hins
    simp only [List.mem_singleton] at hks
    subst hks
    simp only [List.mem_singleton] at hins
    subst hins
    refine Or.inr (Or.inr ⟨rfl, fun hs ch hch => ?_⟩)
    simp only [List.mem_singleton] at hch
    subst hch
    exact isCV_of_not_hasOthers S _ (hg hs) h.2
  · exact search_inv e hg none [] (IPInv_nil _)

/-! ## the constants that may be inserted -/

theorem dictSet_mem {d : List (Int × Expr)} {k : Int} {v : Expr} {p : Int × Expr}
    (h : p ∈ dictSet d k v) : p ∈ d ∨ p = (k, v) := by
  unfold dictSet at h
  split at h
  · obtain ⟨p0, hp0, rfl⟩ := List.mem_map.1 h
    split
    · exact Or.inr rfl
    · exact Or.inl hp0
  · rcases List.mem_append.1 h with h | h
    · exact Or.inl h
    · exact Or.inr (List.mem_singleton.1 h)

theorem getConstantsList_good {T : Int → Int → Bool} : ∀ (as : List Expr),
    (∀ a ∈ as, ∀ acc, (∀ p ∈ acc, GoodConst T p.2) → ∀ p ∈ getConstantsAcc a acc, GoodConst T p.2) →
    ∀ acc, (∀ p ∈ acc, GoodConst T p.2) → ∀ p ∈ getConstantsList as acc, GoodConst T p.2 := by
  intro as
  induction as with
  | nil => intro _ acc h; rw [getConstantsList]; exact h
  | cons a as ih =>
    intro hm acc h
    rw [getConstantsList]
    exact ih (fun b hb => hm b (List.mem_cons_of_mem _ hb)) _ (hm a List.mem_cons_self acc h)

theorem getConstantsAcc_good {k : Bool} {T : Int → Int → Bool} : ∀ e, Ok k T e = true →
    ∀ acc, (∀ p ∈ acc, GoodConst T p.2) → ∀ p ∈ getConstantsAcc e acc, GoodConst T p.2 := by
  intro e
  induction e using Expr.ind' with
  | ht o v n =>
    intro hok acc hacc
    rw [getConstantsAcc]
    split
    · rename_i ho
      subst ho
      intro p hp
      rcases dictSet_mem hp with hp | rfl
      · exact hacc p hp
      · refine ⟨v, n, rfl, ?_⟩
        rcases Ok_term.1 hok with h | h
        · exact absurd h (by decide)
        · exact h
    · exact hacc
  | hn o as ih =>
    intro hok acc hacc
    rw [getConstantsAcc]
    exact getConstantsList_good as
      (fun a ha => ih a ha ((Ok_node.1 hok).2 a ha)) acc hacc

theorem lookup_mem {l : List (Int × Expr)} {j : Int} {c : Expr} (h : l.lookup j = some c) :
    ∃ j', (j', c) ∈ l := by
  induction l with
  | nil => simp at h
  | cons p l ih =>
    obtain ⟨k', b⟩ := p
    rw [List.lookup_cons] at h
    split at h
    · cases h; exact ⟨k', List.mem_cons_self⟩
    · obtain ⟨j', hj⟩ := ih h
      exact ⟨j', List.mem_cons_of_mem _ hj⟩

theorem getConstants_lookup_good {k : Bool} {T : Int → Int → Bool} {e : Expr}
    (hok : Ok k T e = true) {j : Int} {c : Expr} (h : (getConstants e).lookup j = some c) :
    GoodConst T c := by
  obtain ⟨j', hj⟩ := lookup_mem h
  exact getConstantsAcc_good e hok [] (fun p hp => by cases hp) (j', c) hj

/-! ## the subset enumeration only returns instructions made by `generateReplacements` -/

theorem firstFoldOfSize_zero {e : Expr} {constants : List (Int × Expr)} {pool acc : List Int}
    {r : Replacements} (h : firstFoldOfSize e constants 0 pool acc = .ok (some r)) :
    ∃ S, generateReplacements S constants (findInsertionPoints e S) = .ok r := by
  rw [firstFoldOfSize] at h
  cases hg : generateReplacements acc.reverse constants (findInsertionPoints e acc.reverse) with
  | error s => simp only [hg] at h; cases h
  | ok repl =>
    simp only [hg] at h
    change Except.ok (if repl.isEmpty = true then none else some repl) = Except.ok (some r) at h
    split at h
    · cases h
    · cases h; exact ⟨_, hg⟩

theorem firstFoldOfSize_some {e : Expr} {constants : List (Int × Expr)} :
    ∀ (pool : List Int) (k : Nat) (acc : List Int) (r : Replacements),
    firstFoldOfSize e constants k pool acc = .ok (some r) →
    ∃ S, generateReplacements S constants (findInsertionPoints e S) = .ok r := by
  intro pool
  induction pool with
  | nil =>
    intro k acc r h
    cases k with
    | zero => exact firstFoldOfSize_zero h
    | succ k => rw [firstFoldOfSize] at h; cases h
  | cons c cs ih =>
    intro k acc r h
    cases k with
    | zero => exact firstFoldOfSize_zero h
    | succ k =>
      rw [firstFoldOfSize] at h
      split at h
      · cases h
      · cases h1 : firstFoldOfSize e constants k cs (c :: acc) with
        | error s => simp only [h1] at h; cases h
        | ok o =>
          simp only [h1] at h
          cases o with
          | some r' =>
            change Except.ok (some r') = Except.ok (some r) at h
            cases h
            exact ih k _ r h1
          | none => exact ih (k+1) acc r h

theorem firstFold_some {e : Expr} {constants : List (Int × Expr)} {ids : List Int} :
    ∀ (n size : Nat) (r : Replacements), firstFold e constants ids n size = .ok (some r) →
    ∃ S, generateReplacements S constants (findInsertionPoints e S) = .ok r := by
  intro n
  induction n with
  | zero => intro size r h; rw [firstFold] at h; cases h
  | succ n ih =>
    intro size r h
    rw [firstFold] at h
    cases h1 : firstFoldOfSize e constants size ids [] with
    | error s => simp only [h1] at h; cases h
    | ok o =>
      simp only [h1] at h
      cases o with
      | some r' =>
        change Except.ok (some r') = Except.ok (some r) at h
        cases h
        exact firstFoldOfSize_some ids size [] r h1
      | none => exact ih (size+1) r h

/-! ## the replacement pass from the top (`None in replacements` included) -/

theorem pCF_whole {repl : Replacements} (hn : ¬ NoNoneKey repl) {e e' : Expr}
    (h : performConstantFolding repl e = .ok e') : ∃ pd ∈ repl, ∃ kv ∈ pd.2, kv.2 = some e' := by
  unfold NoNoneKey at hn
  cases hf : repl.find? (·.1.isNone) with
  | none => exact absurd hf hn
  | some pd =>
    obtain ⟨p, d⟩ := pd
    have hw : wholeReplacement? repl e =
        some (match d.find? (·.1.beq e) with
          | some (_, some c) => pure c
          | some (_, none) => throw "AttributeError"
          | none => throw "KeyError") := by
      unfold wholeReplacement?
      rw [hf]
      dsimp only
      split <;> (rename_i heq; rw [heq])
    have h' : (match d.find? (·.1.beq e) with
          | some (_, some c) => (pure c : R Expr)
          | some (_, none) => throw "AttributeError"
          | none => throw "KeyError") = .ok e' := by
      cases e <;> (rw [performConstantFolding, hw] at h; exact h)
    split at h'
    · rename_i k c hd
      cases h'
      exact ⟨(p, d), List.mem_of_find?_eq_some hf, (k, some e'), List.mem_of_find?_eq_some hd, rfl⟩
    · cases h'
    · cases h'

theorem ReplOK.mono {T : Int → Int → Bool} {s s' : Prop} (hs : s' → s) {p : Option Expr}
    {ch : Expr} {v : Option Expr} (h : ReplOK T s p ch v) : ReplOK T s' p ch v :=
  ⟨h.1, h.2.1, fun h' => h.2.2 (hs h')⟩

theorem RInv.mono {Φ Ψ : Option Expr → Expr → Option Expr → Prop} {repl : Replacements}
    (h : RInv Φ repl) (hi : ∀ p ch v, Φ p ch v → Ψ p ch v) : RInv Ψ repl :=
  fun pd hpd kv hkv => hi _ _ _ (h pd hpd kv hkv)

theorem pCF_top_ok {k : Bool} {T : Int → Int → Bool} {strong : Prop} {repl : Replacements}
    (hk : k = true → strong) (hr : RInv (ReplOK T strong) repl) {e e' : Expr}
    (hok : Ok k T e = true) (h : performConstantFolding repl e = .ok e') : Ok k T e' = true := by
  by_cases hn : NoNoneKey repl
  · exact pCF_ok hk hn hr e e' hok h
  · obtain ⟨pd, hpd, kv, hkv, hv⟩ := pCF_whole hn h
    exact ((hr pd hpd kv hkv).1 e' hv).ok

theorem pCF_top_grp {T : Int → Int → Bool} {repl : Replacements}
    (hr : RInv (ReplOK T True) repl) {e e' : Expr}
    (hg : Grp e = true) (h : performConstantFolding repl e = .ok e') : Grp e' = true := by
  by_cases hn : NoNoneKey repl
  · exact (pCF_grp hn hr e e' hg h).1
  · obtain ⟨pd, hpd, kv, hkv, hv⟩ := pCF_whole hn h
    exact ((hr pd hpd kv hkv).1 e' hv).grp

/-- the instructions computed for `e` are harmless -/
theorem generateReplacements_good {k : Bool} {T : Int → Int → Bool} {strong : Prop} {e : Expr}
    (hok : Ok k T e = true) (hg : strong → Grp e = true) {S : List Int} {repl : Replacements}
    (h : generateReplacements S (getConstants e) (findInsertionPoints e S) = .ok repl) :
    RInv (ReplOK T strong) repl :=
  generateReplacements_inv (fun _ _ hl ks hks ins hins =>
    insCond_of_good (getConstants_lookup_good hok hl) (findInsertionPoints_inv hg ks hks ins hins)) h

/-! ## the loop -/

/-- the `while check_for_folding` loop keeps the fragment; for `k = true` the argument uses the
grouped normal form `Grp` (established by `_group_constants`, kept by every pass) -/
theorem foldLoop_ok {k : Bool} {T : Int → Int → Bool} : ∀ (fuel : Nat) (e e' : Expr),
    Ok k T e = true → (k = true → Grp e = true) → foldLoop fuel e = .ok e' →
    Ok k T e' = true ∧ (k = true → Grp e' = true) := by
  intro fuel
  induction fuel with
  | zero => intro e e' _ _ h; rw [foldLoop] at h; cases h
  | succ fuel ih =>
    intro e e' hok hg h
    rw [foldLoop] at h
    cases hff : firstFold e (getConstants e) ((getConstants e).map (·.1))
        ((getConstants e).map (·.1)).length 1 with
    | error s => simp only [hff] at h; cases h
    | ok o =>
      simp only [hff] at h
      cases o with
      | none =>
        change Except.ok e = Except.ok e' at h
        cases h
        exact ⟨hok, hg⟩
      | some repl =>
        obtain ⟨S, hgen⟩ := firstFold_some _ _ _ hff
        have hr : RInv (ReplOK T (k = true)) repl := generateReplacements_good hok hg hgen
        change (performConstantFolding repl e >>= fun x => foldLoop fuel x) = Except.ok e' at h
        cases hp : performConstantFolding repl e with
        | error s => rw [hp] at h; cases h
        | ok e1 =>
          rw [hp] at h
          change foldLoop fuel e1 = Except.ok e' at h
          refine ih e1 e' (pCF_top_ok id hr hok hp) (fun hk => ?_) h
          exact pCF_top_grp (hr.mono fun _ _ _ hΦ => hΦ.mono fun _ => hk) (hg hk) hp

/-! ## `_group_constants` establishes the grouped normal form -/

/-- the admissible non-`INTEGER` terminals are variables and constants -/
def TermT (T : Int → Int → Bool) : Prop := ∀ o v, T o v = true → o = VARIABLE ∨ o = CONSTANT

theorem termT_varsBelow (D : Nat) : TermT (varsBelow D) := by
  intro o v h
  simp only [varsBelow, Bool.and_eq_true, beq_iff_eq] at h
  exact Or.inl h.1.1

theorem groupStep_grp (op : Int) (l : List Expr) (hl : ∀ b ∈ l, Grp b = true) :
    Grp (groupStep op l) = true ∧ isCV (groupStep op l) = isCVList l := by
  unfold groupStep
  split
  · rename_i hop
    simp only [Bool.or_eq_true, beq_iff_eq] at hop
    split
    · rename_i hc
      simp only [Bool.and_eq_true, decide_eq_true_eq] at hc
      have hcs : isCVList (l.filter isCV) = true :=
        isCVList_iff.2 fun a ha => (List.mem_filter.1 ha).2
      have hf1 : (l.filter fun o => !o.isCV).filter isCV = [] := by
        rw [List.filter_eq_nil_iff]
        intro a ha
        have := (List.mem_filter.1 ha).2
        simpa using this
      have hf2 : (l.filter isCV).filter (fun o => !o.isCV) = [] := by
        rw [List.filter_eq_nil_iff]
        intro a ha
        have := (List.mem_filter.1 ha).2
        simp [this]
      refine ⟨Grp_node.2 ⟨fun _ hcon => ?_, fun b hb => ?_⟩, ?_⟩
      · have : ((node op (l.filter isCV) :: l.filter fun o => !o.isCV).filter isCV).length = 1 := by
          rw [List.filter_cons, if_pos (by simpa only [isCV] using hcs), hf1]
          rfl
        omega
      · rcases List.mem_cons.1 hb with rfl | hb
        · refine Grp_node.2 ⟨fun _ hcon => ?_, fun a ha => hl a (List.mem_of_mem_filter ha)⟩
          rw [hf2] at hcon
          exact absurd hcon.2 (by simp)
        · exact hl b (List.mem_of_mem_filter hb)
      · obtain ⟨a, ha⟩ := List.exists_mem_of_length_pos hc.2
        have ha' := List.mem_filter.1 ha
        have hna : isCV a = false := by simpa using ha'.2
        have e1 : isCVList l = false := by
          rw [Bool.eq_false_iff]
          intro h
          rw [isCVList_iff.1 h a ha'.1] at hna
          cases hna
        have e2 : isCVList (l.filter fun o => !o.isCV) = false := by
          rw [Bool.eq_false_iff]
          intro h
          rw [isCVList_iff.1 h a ha] at hna
          cases hna
        simp only [isCV, isCVList, e1, e2, Bool.and_false]
    · rename_i hc
      refine ⟨Grp_node.2 ⟨fun _ hcon => hc ?_, hl⟩, rfl⟩
      simp only [Bool.and_eq_true, decide_eq_true_eq]
      exact hcon
  · rename_i hop
    simp only [Bool.or_eq_true, beq_iff_eq] at hop
    exact ⟨Grp_node.2 ⟨fun ho => absurd ho hop, hl⟩, rfl⟩

theorem groupConstants_grp {k : Bool} {T : Int → Int → Bool} (hT : TermT T) :
    ∀ e, Ok k T e = true → Grp (groupConstants e) = true ∧ isCV (groupConstants e) = isCV e := by
  intro e
  induction e using Expr.ind' with
  | ht o v n =>
    intro hok
    rw [groupConstants]
    refine ⟨?_, rfl⟩
    simp only [Grp, Bool.or_eq_true, beq_iff_eq]
    rcases Ok_term.1 hok with h | h
    · exact Or.inl (Or.inl h)
    · rcases hT o v h with h | h
      · exact Or.inl (Or.inr h)
      · exact Or.inr h
  | hn o as ih =>
    intro hok
    have hm := (Ok_node.1 hok).2
    rw [groupConstants_node]
    have hl : ∀ b ∈ as.map groupConstants, Grp b = true := by
      intro b hb
      obtain ⟨a, ha, rfl⟩ := List.mem_map.1 hb
      exact (ih a ha (hm a ha)).1
    have hcv : isCVList (as.map groupConstants) = isCVList as := by
      rw [Bool.eq_iff_iff, isCVList_iff, isCVList_iff]
      constructor
      · intro h a ha
        rw [← (ih a ha (hm a ha)).2]
        exact h _ (List.mem_map_of_mem ha)
      · intro h b hb
        obtain ⟨a, ha, rfl⟩ := List.mem_map.1 hb
        rw [(ih a ha (hm a ha)).2]
        exact h a ha
    obtain ⟨h1, h2⟩ := groupStep_grp o _ hl
    exact ⟨h1, by rw [h2, hcv]; rfl⟩

/-! ## `fold_constants` keeps the fragment -/

/-- 7a. `fold_constants` keeps `Ok false T` for every `T`: every `POWER` keeps its integer literal
exponent, and every `CONSTANT` id of the result occurs in the input (take `T` = "occurs in `e`") -/
theorem foldConstants_ok_false {T : Int → Int → Bool} {fuel : Nat} {e e' : Expr}
    (h : Ok false T e = true) (hr : foldConstants fuel e = .ok e') : Ok false T e' = true :=
  (foldLoop_ok fuel _ e' (groupConstants_ok h) (fun hk => by cases hk) hr).1

/-- 7b. `fold_constants` keeps `Ok true T` when the admissible terminals are variables and
constants (`TermT T`): no sum / product drops below two operands.  (`TermT` is only used to know that
an operand without variables is constant-valued; a terminal of an unknown kind is neither.) -/
theorem foldConstants_ok_true {T : Int → Int → Bool} (hT : TermT T) {fuel : Nat} {e e' : Expr}
    (h : Ok true T e = true) (hr : foldConstants fuel e = .ok e') : Ok true T e' = true :=
  (foldLoop_ok fuel _ e' (groupConstants_ok h) (fun _ => (groupConstants_grp hT e h).1) hr).1

/-- 7a + 7b in one statement -/
theorem foldConstants_ok {k : Bool} {T : Int → Int → Bool} (hT : k = true → TermT T) {fuel : Nat}
    {e e' : Expr} (h : Ok k T e = true) (hr : foldConstants fuel e = .ok e') :
    Ok k T e' = true := by
  cases k with
  | false => exact foldConstants_ok_false h hr
  | true => exact foldConstants_ok_true (hT rfl) h hr

/-! ## the semantic statement (not proved) -/

/-- 7c. The statement believed true for `fold_constants` (NOT proved here): the result refines the
input up to a reparametrisation `cv'` of the constants which depends on the old constant values only.
One pass for a subset `S` of constant ids replaces every maximal sub-expression that depends on nothing
but the constants in `S` (each is an operand of an "insertion point") by a `CONSTANT` terminal whose id
is taken from `S`; distinct insertion points get distinct ids and a pass is only made when there are at
most `|S|` insertion points, so `cv'` maps the id given to an insertion point to the old value of the
replaced sub-expression and leaves the ids outside `S` alone.  (Randomised numerical tests of exactly
this `cv'` on several thousand expressions found no deviation.) -/
def foldConstants_sound_Full : Prop :=
  ∀ (fuel : Nat) (e e' : Expr), foldConstants fuel e = .ok e' →
    ∀ cv : Int → ℝ, ∃ cv' : Int → ℝ, ∀ x : List ℝ, e.den x cv ⊑ e'.den x cv'

end Cas
end Bingo
