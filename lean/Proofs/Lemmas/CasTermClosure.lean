import Proofs.Lemmas.CasTermBase2
/-!
# Stage 1: the operand lists of one level are closed under the results of the simplifier

By induction on the fuel (partial correctness): a result, if there is one, is `NE` and its level is bounded
by the level of the arguments.
-/
namespace Bingo
namespace Cas
namespace Term
open Gen.OpDefs Expr Auto

variable {T : Int → Bool}

/-- `NE` of the operands that a factor contributes to a product -/
def NEM (T : Int → Bool) (a : Expr) : Prop := NEL T (mergeOperands MULTIPLICATION a) = true

theorem NEM_of_NE {a : Expr} (h : NE T a = true) : NEM T a := NEL_mergeOperands _ h

theorem NE_of_NEM {a : Expr} (h : NEM T a) (hm : (a.op != MULTIPLICATION) = true) : NE T a = true := by
  unfold NEM mergeOperands at h
  rw [if_neg (by simpa using hm)] at h
  simpa [NEL] using h

structure ClAt (T : Int → Bool) (st : Bool) (f : Nat) : Prop where
  pow : ∀ b e r, NE T b = true → NE T e = true → simplifyPower st f b e = .ok r →
    NE T r = true ∧ pl r ≤ 1 + sl e + cl b
  cpow : ∀ b e r, NE T b = true → NE T e = true → simplifyConstantPower st f b e = .ok r →
    NE T r = true ∧ pl r ≤ 1 + sl e + cl b
  prodM : ∀ l r, (∀ a ∈ l, NEM T a) → (∀ a, l = [a] → NE T a = true) → simplifyProduct st f l = .ok r →
    NE T r = true ∧ pl r ≤ plL l
  prodRec : ∀ l rs, (∀ a ∈ l, NEM T a) → simplifyProductRec st f l = .ok rs →
    NEL T rs = true ∧ plL rs ≤ plL l
  mergeP : ∀ l₁ l₂ rs, NEL T l₁ = true → NEL T l₂ = true → mergeProducts st f l₁ l₂ = .ok rs →
    NEL T rs = true ∧ plL rs ≤ max (plL l₁) (plL l₂)
  sum : ∀ l r, NEL T l = true → simplifySum st f l = .ok r → NE T r = true ∧ sl r ≤ slL l
  sumRec : ∀ l rs, NEL T l = true → simplifySumRec st f l = .ok rs →
    NEL T rs = true ∧ slL rs ≤ slL l
  mergeS : ∀ l₁ l₂ rs, NEL T l₁ = true → NEL T l₂ = true → mergeSums st f l₁ l₂ = .ok rs →
    NEL T rs = true ∧ slL rs ≤ max (slL l₁) (slL l₂)

theorem ClAt.prod {st : Bool} {f : Nat} (ih : ClAt T st f) (l : List Expr) (r : Expr)
    (hl : NEL T l = true) (h : simplifyProduct st f l = .ok r) : NE T r = true ∧ pl r ≤ plL l :=
  ih.prodM l r (fun a ha => NEM_of_NE (NEL_iff.1 hl a ha))
    (fun a ha => NEL_iff.1 hl a (by rw [ha]; exact List.mem_singleton_self a)) h

theorem NE_pow_node {b e : Expr} (hb : NE T b = true) (he : NE T e = true) :
    NE T (node POWER [b, e]) = true := by
  simp [NE, NEL, hb, he]

section step
variable {st : Bool} {f : Nat}

theorem cl_pow_step (ih : ClAt T st f) (b e r : Expr) (hb : NE T b = true) (he : NE T e = true)
    (h : simplifyPower st (f+1) b e = .ok r) : NE T r = true ∧ pl r ≤ 1 + sl e + cl b := by
  rw [simplifyPower.eq_2] at h
  split at h
  · cases pure_ok h; exact ⟨NE_ONE, by rw [pl_ONE]; omega⟩
  · split at h
    · cases pure_ok h; exact ⟨NE_ZERO, by rw [pl_ZERO]; omega⟩
    · split at h
      · exact ih.cpow b e r hb he h
      · cases pure_ok h
        exact ⟨NE_pow_node hb he, Nat.le_of_eq (pl_pow b e)⟩

theorem forall₂_right {α β : Type} {R : α → β → Prop} : ∀ {l : List α} {rs : List β},
    List.Forall₂ R l rs → ∀ r ∈ rs, ∃ a ∈ l, R a r
  | _, _, .nil, r, hr => by cases hr
  | _, _, .cons h t, r, hr => by
    rcases List.mem_cons.mp hr with rfl | hr
    · exact ⟨_, List.mem_cons_self, h⟩
    · obtain ⟨a, ha, har⟩ := forall₂_right t r hr
      exact ⟨a, List.mem_cons_of_mem _ ha, har⟩

theorem clL_args_of_mul {a : Expr} (h : (a.op == MULTIPLICATION) = true) : clL a.args + 1 ≤ cl a ∨ a.args = [] := by
  cases a with
  | term o v n => right; rfl
  | node o as =>
    have : o = MULTIPLICATION := by simpa [op] using h
    subst this
    left; rw [cl_mul]; simp only [args]; omega

theorem cl_cpow_step (ih : ClAt T st f) (b e r : Expr) (hb : NE T b = true) (he : NE T e = true)
    (h : simplifyConstantPower st (f+1) b e = .ok r) : NE T r = true ∧ pl r ≤ 1 + sl e + cl b := by
  have keep : NE T (node POWER [b, e]) = true ∧ pl (node POWER [b, e]) ≤ 1 + sl e + cl b :=
    ⟨NE_pow_node hb he, Nat.le_of_eq (pl_pow b e)⟩
  rw [simplifyConstantPower.eq_2] at h
  split at h
  · cases pure_ok h
    have := pl_le_cl b
    exact ⟨hb, by omega⟩
  · split at h
    · cases pure_ok h; exact ⟨NE_ONE, by rw [pl_ONE]; omega⟩
    · split at h
      · split at h
        · obtain ⟨p, _, h⟩ := bind_ok h
          cases pure_ok h
          exact ⟨NE_ofPInt _, by rw [pl_ofPInt]; omega⟩
        · cases pure_ok h; exact keep
      · split at h
        · rename_i hop'
          rw [Bool.and_eq_true] at hop'
          have hei : e.isIntOrConst = true := by
            unfold isIntOrConst; rw [hop'.2]; rfl
          have hop := hop'.1
          rw [beq_iff_eq] at hop
          cases b with
          | term o v np' =>
            simp only [args] at h
            exact (throw_ok h).elim
          | node o as =>
            simp only [op] at hop; subst hop
            simp only [args] at h
            split at h
            · rename_i bb be hx
              have hargs := NE_args hb
              simp only [args, NEL, Bool.and_eq_true] at hargs
              obtain ⟨ne, hne, h⟩ := bind_ok h
              obtain ⟨hne1, hne2⟩ := ih.prod _ ne (by simp [NEL, hargs.2.1, he]) hne
              simp only [plL_cons, plL_nil] at hne2
              have hple := (lv_isIntOrConst hei).2
              have hsl := sl_le_pl ne
              rw [cl_pow]
              split at h
              · rename_i hbe
                have := (lv_isIntOrConst hbe).2
                obtain ⟨hr1, hr2⟩ := ih.cpow bb ne r hargs.1 hne1 h
                exact ⟨hr1, by omega⟩
              · cases pure_ok h
                exact ⟨NE_pow_node hargs.1 hne1, by rw [pl_pow]; omega⟩
            · exact (throw_ok h).elim
        · split at h
          · rename_i hop
            obtain ⟨parts, hparts, h⟩ := bind_ok h
            have hf := mapM_ok hparts
            have hall : ∀ p ∈ parts, NE T p = true ∧ pl p ≤ 1 + sl e + clL b.args := by
              intro p hp
              obtain ⟨a, ha, hap⟩ := forall₂_right hf p hp
              obtain ⟨h1, h2⟩ := ih.cpow a e p (NEL_iff.1 (NE_args hb) a ha) he hap
              have := cl_le_clL ha
              exact ⟨h1, by omega⟩
            obtain ⟨hr1, hr2⟩ := ih.prod parts r (NEL_iff.2 (fun p hp => (hall p hp).1)) h
            have hpl : plL parts ≤ 1 + sl e + clL b.args := plL_le.2 (fun p hp => (hall p hp).2)
            refine ⟨hr1, ?_⟩
            rcases clL_args_of_mul hop with h' | h'
            · omega
            · rw [h'] at hpl; simp only [clL] at hpl; omega
          · cases pure_ok h; exact keep

theorem two_le_length {α : Type} {rs : List α} (hn0 : rs = [] → False) (hn1 : ∀ a, rs = [a] → False) :
    ∃ a b tl, rs = a :: b :: tl := by
  match rs, hn0, hn1 with
  | [], hn0, _ => exact (hn0 rfl).elim
  | [a], _, hn1 => exact (hn1 a rfl).elim
  | a :: b :: tl, _, _ => exact ⟨a, b, tl, rfl⟩

theorem NE_mul_node {a b : Expr} {tl : List Expr} (h : NEL T (a :: b :: tl) = true) :
    NE T (node MULTIPLICATION (a :: b :: tl)) = true := by
  simp only [NE, Bool.and_eq_true]
  exact ⟨⟨rfl, by simp⟩, h⟩

theorem NE_add_node {a b : Expr} {tl : List Expr} (h : NEL T (a :: b :: tl) = true) :
    NE T (node ADDITION (a :: b :: tl)) = true := by
  simp only [NE, Bool.and_eq_true]
  exact ⟨⟨rfl, by simp⟩, h⟩

theorem cl_prod_step (ih : ClAt T st f) (l : List Expr) (r : Expr) (hl : ∀ a ∈ l, NEM T a)
    (h1 : ∀ a, l = [a] → NE T a = true) (h : simplifyProduct st (f+1) l = .ok r) :
    NE T r = true ∧ pl r ≤ plL l := by
  by_cases hsingle : ∃ a, l = [a]
  · obtain ⟨a, rfl⟩ := hsingle
    rw [simplifyProduct.eq_2] at h
    split at h
    · cases pure_ok h; exact ⟨NE_ZERO, by rw [pl_ZERO]; omega⟩
    · cases pure_ok h
      exact ⟨h1 _ rfl, by simp⟩
  · rw [simplifyProduct.eq_3 _ _ _ (fun a ha => hsingle ⟨a, ha⟩)] at h
    split at h
    · cases pure_ok h; exact ⟨NE_ZERO, by rw [pl_ZERO]; omega⟩
    · obtain ⟨rs, hrs, h⟩ := bind_ok h
      obtain ⟨hne, hpl⟩ := ih.prodRec l rs hl hrs
      split at h
      · cases pure_ok h; exact ⟨NE_ONE, by rw [pl_ONE]; omega⟩
      · rename_i a
        cases pure_ok h
        simp only [NEL, Bool.and_true] at hne
        simp only [plL_cons, plL_nil] at hpl
        exact ⟨hne, by omega⟩
      · rename_i hn0 hn1
        cases pure_ok h
        obtain ⟨a, b, tl, rfl⟩ := two_le_length hn0 hn1
        exact ⟨NE_mul_node hne, by rw [pl_mul]; exact hpl⟩

theorem cl_sum_step (ih : ClAt T st f) (l : List Expr) (r : Expr) (hl : NEL T l = true)
    (h : simplifySum st (f+1) l = .ok r) : NE T r = true ∧ sl r ≤ slL l := by
  by_cases hsingle : ∃ a, l = [a]
  · obtain ⟨a, rfl⟩ := hsingle
    rw [simplifySum.eq_2] at h
    cases pure_ok h
    simp only [NEL, Bool.and_true] at hl
    exact ⟨hl, by simp⟩
  · rw [simplifySum.eq_3 _ _ _ (fun a ha => hsingle ⟨a, ha⟩)] at h
    obtain ⟨rs, hrs, h⟩ := bind_ok h
    obtain ⟨hne, hsl⟩ := ih.sumRec l rs hl hrs
    split at h
    · cases pure_ok h; exact ⟨NE_ZERO, by rw [sl_ZERO]; omega⟩
    · rename_i a
      cases pure_ok h
      simp only [NEL, Bool.and_true] at hne
      simp only [slL_cons, slL_nil] at hsl
      exact ⟨hne, by omega⟩
    · rename_i hn0 hn1
      cases pure_ok h
      obtain ⟨a, b, tl, rfl⟩ := two_le_length hn0 hn1
      exact ⟨NE_add_node hne, by rw [sl_add]; exact hsl⟩

theorem optBeq_some_left {x : Option Expr} {a : Expr} (h : optBeq (some a) x = true) :
    ∃ b, x = some b ∧ a.beq b = true := by
  cases x with
  | none => simp [optBeq] at h
  | some b => exact ⟨b, rfl, h⟩

theorem cl_prodRec_pair (ih : ClAt T st f) (a b : Expr) (rs : List Expr) (ha : NEM T a) (hb : NEM T b)
    (h : simplifyProductRec st (f+1) [a, b] = .ok rs) :
    NEL T rs = true ∧ plL rs ≤ max (pl a) (pl b) := by
  rw [simplifyProductRec.eq_3] at h
  split at h
  · obtain ⟨p, _, h⟩ := bind_ok h
    cases pure_ok h
    split
    · exact ⟨rfl, by simp⟩
    · exact ⟨by simp [NEL, NE_ofPInt], by simp [pl_ofPInt]⟩
  · split at h
    · rename_i hnm
      rw [Bool.and_eq_true] at hnm
      have hna := NE_of_NEM ha hnm.1
      have hnb := NE_of_NEM hb hnm.2
      split at h
      · cases pure_ok h; exact ⟨by simp [NEL, hnb], by simp⟩
      · split at h
        · cases pure_ok h; exact ⟨by simp [NEL, hna], by simp⟩
        · split at h
          · rename_i hbase
            split at h
            · rename_i β e1 e2 hβ he1 he2
              rw [hβ] at hbase
              obtain ⟨β', hβ', hbeq⟩ := optBeq_some_left hbase
              obtain ⟨hla, hnea⟩ := base_exponent_lv (T := T) hnm.1 hβ he1
              obtain ⟨hlb, hneb⟩ := base_exponent_lv (T := T) hnm.2 hβ' he2
              have hcl := (beq_sameLv β β' hbeq).2.2
              obtain ⟨ne, hne, h⟩ := bind_ok h
              obtain ⟨comb, hcomb, h⟩ := bind_ok h
              obtain ⟨hne1, hne2⟩ := ih.sum [e1, e2] ne
                (by simp [NEL, (hnea hna).2, (hneb hnb).2]) hne
              simp only [slL_cons, slL_nil] at hne2
              obtain ⟨hc1, hc2⟩ := ih.pow β ne comb (hnea hna).1 hne1 hcomb
              cases pure_ok h
              split
              · exact ⟨rfl, by simp⟩
              · exact ⟨by simp [NEL, hc1], by simp only [plL_cons, plL_nil]; omega⟩
            · exact (throw_ok h).elim
          · obtain ⟨lt, _, h⟩ := bind_ok h
            split at h
            · cases pure_ok h
              exact ⟨by simp [NEL, hna, hnb], by simp only [plL_cons, plL_nil]; omega⟩
            · cases pure_ok h
              exact ⟨by simp [NEL, hna, hnb], by simp only [plL_cons, plL_nil]; omega⟩
    · obtain ⟨h1, h2⟩ := ih.mergeP _ _ rs ha hb h
      have := plL_mergeOperands a
      have := plL_mergeOperands b
      exact ⟨h1, by omega⟩

theorem cl_prodRec_step (ih : ClAt T st f) (l rs : List Expr) (hl : ∀ a ∈ l, NEM T a)
    (h : simplifyProductRec st (f+1) l = .ok rs) : NEL T rs = true ∧ plL rs ≤ plL l := by
  by_cases hpair : ∃ op1 op2, l = [op1, op2]
  · obtain ⟨op1, op2, rfl⟩ := hpair
    have := cl_prodRec_pair ih op1 op2 rs (hl _ (by simp)) (hl _ (by simp)) h
    simpa using this
  · cases l with
    | nil => rw [simplifyProductRec.eq_2] at h; exact (throw_ok h).elim
    | cons op rest =>
      rw [simplifyProductRec.eq_4 _ _ _ _ (fun op2 h2 => hpair ⟨op, op2, by rw [h2]⟩)] at h
      obtain ⟨rsimp, h1, h2⟩ := bind_ok h
      obtain ⟨hne1, hpl1⟩ := ih.prodRec rest rsimp (fun e he => hl e (List.mem_cons_of_mem _ he)) h1
      obtain ⟨hne, hpl⟩ := ih.mergeP _ _ rs (hl op List.mem_cons_self) hne1 h2
      have := plL_mergeOperands op
      exact ⟨hne, by simp only [plL_cons]; omega⟩

theorem cl_mergeP_step (ih : ClAt T st f) (l₁ l₂ rs : List Expr) (h1 : NEL T l₁ = true)
    (h2 : NEL T l₂ = true) (h : mergeProducts st (f+1) l₁ l₂ = .ok rs) :
    NEL T rs = true ∧ plL rs ≤ max (plL l₁) (plL l₂) := by
  cases l₁ with
  | nil => rw [mergeProducts.eq_2] at h; cases pure_ok h; exact ⟨h2, by simp⟩
  | cons a as =>
    cases l₂ with
    | nil =>
      rw [mergeProducts.eq_3 _ _ _ (by intro h; cases h)] at h
      cases pure_ok h; exact ⟨h1, by simp⟩
    | cons b bs =>
      rw [mergeProducts.eq_4] at h
      have h1' := h1
      have h2' := h2
      simp only [NEL, Bool.and_eq_true] at h1' h2'
      simp only [plL_cons]
      split at h
      · rename_i hop
        obtain ⟨hr1, hr2⟩ := ih.mergeP _ _ rs (NEL_append (NE_args h1'.1) h1'.2) h2 h
        have := plL_args_of_mul hop
        rw [plL_append, plL_cons] at hr2
        exact ⟨hr1, by omega⟩
      · split at h
        · rename_i hop
          obtain ⟨hr1, hr2⟩ := ih.mergeP _ _ rs h1 (NEL_append (NE_args h2'.1) h2'.2) h
          have := plL_args_of_mul hop
          rw [plL_append, plL_cons] at hr2
          exact ⟨hr1, by omega⟩
        · obtain ⟨firsts, hf, h⟩ := bind_ok h
          obtain ⟨hf1, hf2⟩ := ih.prodRec [a, b] firsts
            (by intro x hx
                rcases List.mem_cons.1 hx with rfl | hx
                · exact NEM_of_NE h1'.1
                · rcases List.mem_cons.1 hx with rfl | hx
                  · exact NEM_of_NE h2'.1
                  · cases hx) hf
          simp only [plL_cons, plL_nil] at hf2
          split at h
          · obtain ⟨hr1, hr2⟩ := ih.mergeP _ _ rs h1'.2 h2'.2 h
            exact ⟨hr1, by omega⟩
          · rename_i s
            obtain ⟨m, hm, h⟩ := bind_ok h
            cases pure_ok h
            obtain ⟨hr1, hr2⟩ := ih.mergeP _ _ m h1'.2 h2'.2 hm
            simp only [NEL, Bool.and_eq_true, plL_cons, plL_nil] at hf1 hf2 ⊢
            exact ⟨⟨hf1.1, hr1⟩, by omega⟩
          · rename_i s tl _ _
            simp only [NEL, Bool.and_eq_true, plL_cons] at hf1 hf2
            split at h
            · obtain ⟨m, hm, h⟩ := bind_ok h
              cases pure_ok h
              obtain ⟨hr1, hr2⟩ := ih.mergeP _ _ m h1'.2 h2 hm
              simp only [NEL, Bool.and_eq_true, plL_cons] at hr2 ⊢
              exact ⟨⟨hf1.1, hr1⟩, by omega⟩
            · obtain ⟨m, hm, h⟩ := bind_ok h
              cases pure_ok h
              obtain ⟨hr1, hr2⟩ := ih.mergeP _ _ m h1 h2'.2 hm
              simp only [NEL, Bool.and_eq_true, plL_cons] at hr2 ⊢
              exact ⟨⟨hf1.1, hr1⟩, by omega⟩

theorem NEM_mul_node {rest : List Expr} (h : NEL T rest = true) : NEM T (node MULTIPLICATION rest) := by
  unfold NEM mergeOperands
  rw [if_pos (by simp [op])]
  exact h

theorem cl_sumRec_pair (ih : ClAt T st f) (a b : Expr) (rs : List Expr) (hna : NE T a = true)
    (hnb : NE T b = true) (h : simplifySumRec st (f+1) [a, b] = .ok rs) :
    NEL T rs = true ∧ slL rs ≤ max (sl a) (sl b) := by
  rw [simplifySumRec.eq_3] at h
  split at h
  · obtain ⟨p, _, h⟩ := bind_ok h
    cases pure_ok h
    split
    · exact ⟨rfl, by simp⟩
    · exact ⟨by simp [NEL, NE_ofPInt], by simp [sl_ofPInt]⟩
  · split at h
    · rename_i hnm
      rw [Bool.and_eq_true] at hnm
      split at h
      · cases pure_ok h; exact ⟨by simp [NEL, hnb], by simp⟩
      · split at h
        · cases pure_ok h; exact ⟨by simp [NEL, hna], by simp⟩
        · split at h
          · rename_i hterm
            split at h
            · rename_i t c1 c2 ht hc1 hc2
              rw [ht] at hterm
              obtain ⟨t', ht', _⟩ := optBeq_some_left hterm
              obtain ⟨rest, rfl, hla, hc1l, hnea⟩ := termOf_coefficient_lv (T := T) hnm.1 ht hc1
              obtain ⟨rest', _, _, hc2l, hneb⟩ := termOf_coefficient_lv (T := T) hnm.2 ht' hc2
              obtain ⟨nc, hnc, h⟩ := bind_ok h
              obtain ⟨comb, hcomb, h⟩ := bind_ok h
              obtain ⟨hnc1, hnc2⟩ := ih.sum [c1, c2] nc
                (by simp [NEL, (hnea hna).2, (hneb hnb).2]) hnc
              simp only [slL_cons, slL_nil] at hnc2
              have hncp : pl nc ≤ 1 := pl_le_one_of_sl (by omega)
              obtain ⟨hc1', hc2'⟩ := ih.prodM [nc, node MULTIPLICATION rest] comb
                (by intro x hx
                    rcases List.mem_cons.1 hx with rfl | hx
                    · exact NEM_of_NE hnc1
                    · rcases List.mem_cons.1 hx with rfl | hx
                      · exact NEM_mul_node (hnea hna).1
                      · cases hx)
                (by intro x hx; cases hx) hcomb
              simp only [plL_cons, plL_nil, pl_mul] at hc2'
              have := sl_le_pl comb
              cases pure_ok h
              split
              · exact ⟨rfl, by simp⟩
              · exact ⟨by simp [NEL, hc1'], by simp only [slL_cons, slL_nil]; omega⟩
            · exact (throw_ok h).elim
          · obtain ⟨lt, _, h⟩ := bind_ok h
            split at h
            · cases pure_ok h
              exact ⟨by simp [NEL, hna, hnb], by simp only [slL_cons, slL_nil]; omega⟩
            · cases pure_ok h
              exact ⟨by simp [NEL, hna, hnb], by simp only [slL_cons, slL_nil]; omega⟩
    · obtain ⟨h1, h2⟩ := ih.mergeS _ _ rs (NEL_mergeOperands _ hna) (NEL_mergeOperands _ hnb) h
      have := slL_mergeOperands a
      have := slL_mergeOperands b
      exact ⟨h1, by omega⟩

theorem cl_sumRec_step (ih : ClAt T st f) (l rs : List Expr) (hl : NEL T l = true)
    (h : simplifySumRec st (f+1) l = .ok rs) : NEL T rs = true ∧ slL rs ≤ slL l := by
  by_cases hpair : ∃ op1 op2, l = [op1, op2]
  · obtain ⟨op1, op2, rfl⟩ := hpair
    simp only [NEL, Bool.and_eq_true] at hl
    have := cl_sumRec_pair ih op1 op2 rs hl.1 hl.2.1 h
    simpa using this
  · cases l with
    | nil => rw [simplifySumRec.eq_2] at h; exact (throw_ok h).elim
    | cons op rest =>
      rw [simplifySumRec.eq_4 _ _ _ _ (fun op2 h2 => hpair ⟨op, op2, by rw [h2]⟩)] at h
      simp only [NEL, Bool.and_eq_true] at hl
      obtain ⟨rsimp, h1, h2⟩ := bind_ok h
      obtain ⟨hne1, hsl1⟩ := ih.sumRec rest rsimp hl.2 h1
      obtain ⟨hne, hsl⟩ := ih.mergeS _ _ rs (NEL_mergeOperands _ hl.1) hne1 h2
      have := slL_mergeOperands op
      exact ⟨hne, by simp only [slL_cons]; omega⟩

theorem cl_mergeS_step (ih : ClAt T st f) (l₁ l₂ rs : List Expr) (h1 : NEL T l₁ = true)
    (h2 : NEL T l₂ = true) (h : mergeSums st (f+1) l₁ l₂ = .ok rs) :
    NEL T rs = true ∧ slL rs ≤ max (slL l₁) (slL l₂) := by
  cases l₁ with
  | nil => rw [mergeSums.eq_2] at h; cases pure_ok h; exact ⟨h2, by simp⟩
  | cons a as =>
    cases l₂ with
    | nil =>
      rw [mergeSums.eq_3 _ _ _ (by intro h; cases h)] at h
      cases pure_ok h; exact ⟨h1, by simp⟩
    | cons b bs =>
      rw [mergeSums.eq_4] at h
      have h1' := h1
      have h2' := h2
      simp only [NEL, Bool.and_eq_true] at h1' h2'
      simp only [slL_cons]
      split at h
      · rename_i hop
        obtain ⟨hr1, hr2⟩ := ih.mergeS _ _ rs (NEL_append (NE_args h1'.1) h1'.2) h2 h
        have := slL_args_of_add hop
        rw [slL_append, slL_cons] at hr2
        exact ⟨hr1, by omega⟩
      · split at h
        · rename_i hop
          obtain ⟨hr1, hr2⟩ := ih.mergeS _ _ rs h1 (NEL_append (NE_args h2'.1) h2'.2) h
          have := slL_args_of_add hop
          rw [slL_append, slL_cons] at hr2
          exact ⟨hr1, by omega⟩
        · obtain ⟨firsts, hf, h⟩ := bind_ok h
          obtain ⟨hf1, hf2⟩ := ih.sumRec [a, b] firsts (by simp [NEL, h1'.1, h2'.1]) hf
          simp only [slL_cons, slL_nil] at hf2
          split at h
          · obtain ⟨hr1, hr2⟩ := ih.mergeS _ _ rs h1'.2 h2'.2 h
            exact ⟨hr1, by omega⟩
          · rename_i s
            obtain ⟨m, hm, h⟩ := bind_ok h
            cases pure_ok h
            obtain ⟨hr1, hr2⟩ := ih.mergeS _ _ m h1'.2 h2'.2 hm
            simp only [NEL, Bool.and_eq_true, slL_cons, slL_nil] at hf1 hf2 ⊢
            exact ⟨⟨hf1.1, hr1⟩, by omega⟩
          · rename_i s tl _ _
            simp only [NEL, Bool.and_eq_true, slL_cons] at hf1 hf2
            split at h
            · obtain ⟨m, hm, h⟩ := bind_ok h
              cases pure_ok h
              obtain ⟨hr1, hr2⟩ := ih.mergeS _ _ m h1'.2 h2 hm
              simp only [NEL, Bool.and_eq_true, slL_cons] at hr2 ⊢
              exact ⟨⟨hf1.1, hr1⟩, by omega⟩
            · obtain ⟨m, hm, h⟩ := bind_ok h
              cases pure_ok h
              obtain ⟨hr1, hr2⟩ := ih.mergeS _ _ m h1 h2'.2 hm
              simp only [NEL, Bool.and_eq_true, slL_cons] at hr2 ⊢
              exact ⟨⟨hf1.1, hr1⟩, by omega⟩

end step

theorem clAt_zero (st : Bool) : ClAt T st 0 where
  pow := by intro b e r _ _ h; rw [simplifyPower.eq_1] at h; exact (throw_ok h).elim
  cpow := by intro b e r _ _ h; rw [simplifyConstantPower.eq_1] at h; exact (throw_ok h).elim
  prodM := by intro l r _ _ h; rw [simplifyProduct.eq_1] at h; exact (throw_ok h).elim
  prodRec := by intro l r _ h; rw [simplifyProductRec.eq_1] at h; exact (throw_ok h).elim
  mergeP := by intro a b r _ _ h; rw [mergeProducts.eq_1] at h; exact (throw_ok h).elim
  sum := by intro l r _ h; rw [simplifySum.eq_1] at h; exact (throw_ok h).elim
  sumRec := by intro l r _ h; rw [simplifySumRec.eq_1] at h; exact (throw_ok h).elim
  mergeS := by intro a b r _ _ h; rw [mergeSums.eq_1] at h; exact (throw_ok h).elim

/-- Stage 1: closure of the levels, for every fuel -/
theorem clAt (st : Bool) : ∀ f, ClAt T st f
  | 0 => clAt_zero st
  | f+1 =>
    have ih := clAt st f
    { pow := cl_pow_step ih, cpow := cl_cpow_step ih, prodM := cl_prod_step ih
      prodRec := cl_prodRec_step ih, mergeP := cl_mergeP_step ih, sum := cl_sum_step ih
      sumRec := cl_sumRec_step ih, mergeS := cl_mergeS_step ih }

end Term
end Cas
end Bingo
