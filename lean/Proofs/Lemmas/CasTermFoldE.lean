import Proofs.Lemmas.CasTermFoldD
/-!
# Counting: if every recorded child is a terminal, the folding pass is refused (`sameSets`)
-/
namespace Bingo
namespace Cas
namespace Term
open Gen.OpDefs Expr Auto

/-! ## a pigeonhole principle on lists -/

open Classical in
theorem length_le_filter_succ {α : Type} (p : α → Prop) : ∀ (xs : List α), xs.Nodup →
    (∀ x ∈ xs, ∀ x' ∈ xs, p x → p x' → x = x') →
    xs.length ≤ (xs.filter (fun x => decide (¬ p x))).length + 1
  | [], _, _ => by simp
  | a :: xs, hnd, hinj => by
    have hnd' := List.nodup_cons.1 hnd
    by_cases hpa : p a
    · have hall : ∀ x ∈ xs, ¬ p x := by
        intro x hx hpx
        have := hinj x (List.mem_cons_of_mem _ hx) a List.mem_cons_self hpx hpa
        subst this
        exact hnd'.1 hx
      have hf : xs.filter (fun x => decide (¬ p x)) = xs := by
        rw [List.filter_eq_self]
        intro x hx
        simpa using hall x hx
      rw [List.filter_cons]
      simp only [hpa, not_true_eq_false, decide_false, Bool.false_eq_true, if_false, hf,
        List.length_cons]
      omega
    · have ih := length_le_filter_succ p xs hnd'.2
        (fun x hx x' hx' => hinj x (List.mem_cons_of_mem _ hx) x' (List.mem_cons_of_mem _ hx'))
      rw [List.filter_cons]
      simp only [hpa, not_false_eq_true, decide_true, if_true, List.length_cons]
      omega

open Classical in
theorem pigeon {α β : Type} (P : α → β → Prop) : ∀ (ys : List β) (xs : List α), xs.Nodup →
    (∀ x ∈ xs, ∃ y ∈ ys, P x y) →
    (∀ x ∈ xs, ∀ x' ∈ xs, ∀ y ∈ ys, P x y → P x' y → x = x') → xs.length ≤ ys.length
  | [], xs, _, hex, _ => by
    cases xs with
    | nil => simp
    | cons a xs => obtain ⟨y, hy, _⟩ := hex a List.mem_cons_self; cases hy
  | y :: ys, xs, hnd, hex, hinj => by
    have h1 := length_le_filter_succ (fun x => P x y) xs hnd
      (fun x hx x' hx' h h' => hinj x hx x' hx' y List.mem_cons_self h h')
    have h2 := pigeon P ys (xs.filter (fun x => decide (¬ P x y))) (hnd.filter _)
      (fun x hx => by
        obtain ⟨hx1, hx2⟩ := List.mem_filter.1 hx
        have hx2' : ¬ P x y := by simpa using hx2
        obtain ⟨y', hy', hp⟩ := hex x hx1
        rcases List.mem_cons.1 hy' with rfl | hy'
        · exact absurd hp hx2'
        · exact ⟨y', hy', hp⟩)
      (fun x hx x' hx' y' hy' => hinj x (List.mem_filter.1 hx).1 x' (List.mem_filter.1 hx').1 y'
        (List.mem_cons_of_mem _ hy'))
    simp only [List.length_cons]
    omega

/-! ## zips -/

theorem zip_cover_right {α β : Type} : ∀ (xs : List α) (ys : List β), ys.length ≤ xs.length →
    ∀ y ∈ ys, ∃ x, (x, y) ∈ xs.zip ys
  | _, [], _, y, hy => by cases hy
  | [], _ :: _, h, _, _ => by simp at h
  | x :: xs, y :: ys, h, y', hy' => by
    rw [List.zip_cons_cons]
    rcases List.mem_cons.1 hy' with rfl | hy'
    · exact ⟨x, List.mem_cons_self⟩
    · obtain ⟨x', hx'⟩ := zip_cover_right xs ys (by simpa using h) y' hy'
      exact ⟨x', List.mem_cons_of_mem _ hx'⟩

theorem zip_cover_left {α β : Type} : ∀ (xs : List α) (ys : List β), xs.length ≤ ys.length →
    ∀ x ∈ xs, ∃ y, (x, y) ∈ xs.zip ys
  | [], _, _, x, hx => by cases hx
  | _ :: _, [], h, _, _ => by simp at h
  | x :: xs, y :: ys, h, x', hx' => by
    rw [List.zip_cons_cons]
    rcases List.mem_cons.1 hx' with rfl | hx'
    · exact ⟨y, List.mem_cons_self⟩
    · obtain ⟨y', hy'⟩ := zip_cover_left xs ys (by simpa using h) x' hx'
      exact ⟨y', List.mem_cons_of_mem _ hy'⟩

/-! ## terminals among the recorded children -/

theorem sizeL_eq_zero {l : List Expr} (h : sizeL l = 0) : l = [] := by
  cases l with
  | nil => rfl
  | cons a l => simp only [sizeL] at h; have := size_pos a; omega

theorem small_const {S : List Int} {y : Expr} (hs : size y ≤ 1) (hc : hasConsts S y = true) :
    ∃ v np, y = term CONSTANT v np ∧ S.contains v = true := by
  cases y with
  | term o v np =>
    simp only [hasConsts, Bool.and_eq_true, beq_iff_eq] at hc
    obtain ⟨rfl, h2⟩ := hc
    exact ⟨v, np, rfl, h2⟩
  | node o as =>
    simp only [size] at hs
    have : as = [] := sizeL_eq_zero (by omega)
    subst this
    simp [hasConsts, hasConstsList] at hc

theorem contains_singleton {j v : Int} (h : [j].contains v = true) : v = j := by
  simpa using h

theorem beq_const (j : Int) (np np' : Bool) :
    (term CONSTANT j np).beq (term CONSTANT j np') = true := by
  simp [beq]

theorem beq_const_inv {j j' : Int} {np np' : Bool}
    (h : (term CONSTANT j np).beq (term CONSTANT j' np') = true) : j = j' := by
  simpa [beq] using h

/-! ## every key has an insertion -/

def KNE (ips : InsertionPoints) : Prop := ∀ ks ∈ ips, ks.2 ≠ []

theorem addInsertion_kne {ips : InsertionPoints} (key : Expr) (ins : Insertion) (h : KNE ips) :
    KNE (addInsertion ips key ins) := by
  induction ips with
  | nil =>
    intro ks hks
    simp only [addInsertion, List.mem_singleton] at hks
    subst hks; simp
  | cons ks0 rest ih =>
    obtain ⟨k0, set⟩ := ks0
    rw [addInsertion]
    split
    · intro ks hks
      rcases List.mem_cons.1 hks with rfl | hks
      · dsimp only
        split
        · exact h _ List.mem_cons_self
        · simp
      · exact h ks (List.mem_cons_of_mem _ hks)
    · intro ks hks
      rcases List.mem_cons.1 hks with rfl | hks
      · exact h _ List.mem_cons_self
      · exact ih (fun ks hks => h ks (List.mem_cons_of_mem _ hks)) ks hks

theorem search_kne (S : List Int) : ∀ X parent acc, KNE acc →
    KNE (searchInsertionPoints S X parent acc) := by
  intro X
  induction X using Expr.ind' with
  | ht o v n => intro parent acc h; rw [searchInsertionPoints]; exact h
  | hn o args ih =>
    intro parent acc hacc
    rw [searchInsertionPoints]
    have hl : ∀ (l : List Expr), (∀ a ∈ l, a ∈ args) → ∀ acc, KNE acc →
        KNE (searchInsertionPointsList S l (some (node o args)) acc) := by
      intro l
      induction l with
      | nil => intro _ acc h; rw [searchInsertionPointsList]; exact h
      | cons a l ihl =>
        intro hm acc h
        rw [searchInsertionPointsList]
        exact ihl (fun b hb => hm b (List.mem_cons_of_mem _ hb)) _
          (ih a (hm a List.mem_cons_self) _ acc h)
    have h1 := hl args (fun a ha => ha) acc hacc
    split
    · exact h1
    · split
      · exact addInsertion_kne _ _ h1
      · exact addInsertion_kne _ _ h1

theorem findInsertionPoints_kne (S : List Int) (e : Expr) : KNE (findInsertionPoints e S) := by
  unfold findInsertionPoints
  split
  · intro ks hks
    simp only [List.mem_singleton] at hks
    subst hks; simp
  · exact search_kne S e none [] (fun ks h => by cases h)

/-! ## the pass is refused when every recorded child is a terminal -/

theorem vals_single (c ch : Expr) : vals c true [ch] = [(ch, some c)] := by
  simp [vals]

theorem sameSets_of_small {e : Expr} {S : List Int} {repl : Replacements}
    {insL : List (Option Expr)} {repsL : List Expr}
    (hGG : IPInvK (GG S e) (findInsertionPoints e S)) (hnd : S.Nodup)
    (hocc : ∀ j ∈ S, hasConsts [j] e = true)
    (hlen : (findInsertionPoints e S).length ≤ S.length)
    (hz : genZip (getConstants e) S (findInsertionPoints e S) ([], [], []) = .ok (repl, insL, repsL))
    (hsmall : ∀ ks ∈ findInsertionPoints e S, ∀ ins ∈ ks.2, ∀ ch ∈ ins.2, size ch ≤ 1) :
    sameSets insL repsL = true := by
  have hk := findInsertionPoints_kne S e
  generalize hips : findInsertionPoints e S = ips at hGG hlen hz hsmall hk
  have hcover : ∀ j, S.contains j = true → hasConsts [j] e = true →
      ∃ ks ∈ ips, ∃ ins ∈ ks.2, ∃ y ∈ ins.2, hasConsts [j] y = true := by
    intro j hj hc
    have := cover hj hc
    rwa [hips] at this
  obtain ⟨z0, z1, z2⟩ := genZip_lists S ips _ _ hz
  simp only [List.not_mem_nil, false_or] at z1 z2
  -- every chosen id is the single child of some recorded insertion
  have F1 : ∀ j ∈ S, ∃ ks ∈ ips, ∃ ins ∈ ks.2, ∃ np, ins.2 = [term CONSTANT j np] := by
    intro j hj
    have hjc : S.contains j = true := by simpa using hj
    obtain ⟨ks, hks, ins, hins, y, hy, hcy⟩ := hcover j hjc (hocc j hj)
    obtain ⟨ch, hch, _, _, _, _⟩ := hGG ks hks ins hins
    rw [hch] at hy
    simp only [List.mem_singleton] at hy
    subst hy
    obtain ⟨v, np, rfl, hv⟩ := small_const (hsmall ks hks ins hins y (by rw [hch]; simp)) hcy
    have := contains_singleton hv
    subst this
    exact ⟨ks, hks, ins, hins, np, hch⟩
  -- as many insertion points as ids
  have hcount : S.length ≤ ips.length := by
    refine pigeon (fun j ks => ∃ ins ∈ ks.2, ∃ np, ins.2 = [term CONSTANT j np]) ips S hnd F1 ?_
    intro j _ j' _ ks hks ⟨ins, hins, np, h1⟩ ⟨ins', hins', np', h1'⟩
    obtain ⟨ch, hch, _, _, _, hb⟩ := hGG ks hks ins hins
    obtain ⟨ch', hch', _, _, _, hb'⟩ := hGG ks hks ins' hins'
    rw [h1] at hch; rw [h1'] at hch'
    cases hch; cases hch'
    exact beq_const_inv (beq_trans _ _ _ hb (beq_symm _ _ hb'))
  unfold sameSets
  rw [Bool.and_eq_true, List.all_eq_true, List.all_eq_true]
  constructor
  · intro i hi
    rw [List.any_eq_true]
    obtain ⟨jk, hjk, c, hc, ins, hins, cv, hcv, rfl⟩ := (z1 i).1 hi
    have hksm : jk.2 ∈ ips := (List.of_mem_zip hjk).2
    have hjm : jk.1 ∈ S := (List.of_mem_zip hjk).1
    obtain ⟨ch, hch, _, _, _, _⟩ := hGG jk.2 hksm ins hins
    rw [hch, vals_single] at hcv
    simp only [List.mem_singleton] at hcv
    subst hcv
    obtain ⟨np, rfl⟩ := getConstants_lookup_shape hc
    obtain ⟨ks', hks', ins', hins', np', h1⟩ := F1 jk.1 hjm
    obtain ⟨j'', hz''⟩ := zip_cover_right S ips hlen ks' hks'
    refine ⟨term CONSTANT jk.1 np', (z2 _).2 ⟨(j'', ks'), hz'', ins', hins', by rw [h1]; simp⟩, ?_⟩
    simp [optBeq, beq]
  · intro r hr
    rw [List.any_eq_true]
    obtain ⟨jk, hjk, ins, hins, hrm⟩ := (z2 r).1 hr
    have hksm : jk.2 ∈ ips := (List.of_mem_zip hjk).2
    obtain ⟨ch, hch, hcc, _, _, _⟩ := hGG jk.2 hksm ins hins
    rw [hch] at hrm
    simp only [List.mem_singleton] at hrm
    subst hrm
    obtain ⟨v, np, rfl, hv⟩ := small_const (hsmall jk.2 hksm ins hins _ (by rw [hch]; simp)) hcc
    have hvS : v ∈ S := by simpa using hv
    obtain ⟨ks', hz'⟩ := zip_cover_left S ips hcount v hvS
    have hks' : ks' ∈ ips := (List.of_mem_zip hz').2
    obtain ⟨c', hc'⟩ := z0 (v, ks') hz'
    obtain ⟨np', rfl⟩ := getConstants_lookup_shape hc'
    obtain ⟨ins', hins'⟩ := List.exists_mem_of_ne_nil _ (hk ks' hks')
    obtain ⟨ch', hch', _, _, _, _⟩ := hGG ks' hks' ins' hins'
    refine ⟨some (term CONSTANT v np'), (z1 _).2 ⟨(v, ks'), hz', _, hc', ins', hins',
      (ch', some (term CONSTANT v np')), by rw [hch', vals_single]; simp, rfl⟩, ?_⟩
    simp [optBeq, beq]

end Term
end Cas
end Bingo
