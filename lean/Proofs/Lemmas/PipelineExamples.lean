import Proofs.Lemmas.PipelineHistory
import Model.Generated.Phases
/-!
# A concrete run of `MuPlusLambda.generational_step` (data for the non-vacuity examples of C05)
-/
namespace Bingo
namespace PipelineSem
namespace Ex
open Pipeline EvalPhase

def f : Nat → Key := fun g => some (Int.ofNat (g * g))
def cost : Nat → Nat := fun g => g % 3 + 1

/-- genome 3 is unflagged and carries a stale value, genome 5 is flagged with the right value,
genome 7 has never been evaluated -/
def pop : List Indiv :=
  [⟨3, some (some 99), false, 4⟩, ⟨5, some (some 25), true, 2⟩, ⟨7, none, false, 0⟩]

/-- an unchanged copy of the flagged parent, and a mutated child whose flag was cleared (it still
carries the parent's value) -/
def kids : List Indiv := [⟨5, some (some 25), true, 2⟩, ⟨8, some (some 25), false, 0⟩]

def popEv : List Indiv :=
  [⟨3, some (some 9), true, 4⟩, ⟨5, some (some 25), true, 2⟩, ⟨7, some (some 49), true, 0⟩]
def kidsEv : List Indiv := [⟨5, some (some 25), true, 2⟩, ⟨8, some (some 64), true, 0⟩]

/-- what selection picked from `population + offspring` -/
def sel : List Indiv :=
  [⟨8, some (some 64), true, 0⟩, ⟨3, some (some 9), true, 4⟩, ⟨5, some (some 25), true, 2⟩]

theorem evalPop_eq : (serialEval f cost false pop).1 = popEv := by decide
theorem evalOff_eq : (serialEval f cost false kids).1 = kidsEv := by decide

theorem run : CRun f Gen.Phases.muPlusLambda (entryState pop) ⟨popEv, some kidsEv, some sel⟩ := by
  have h1 : CStep f .variation ⟨pop, none, none⟩ ⟨pop, some kids, none⟩ :=
    CStep.variation ⟨pop, none, none⟩ kids (by decide)
  have h2 : CStep f .evalPop ⟨pop, some kids, none⟩ ⟨popEv, some kids, none⟩ := by
    have := CStep.evalPop (f := f) ⟨pop, some kids, none⟩ cost false
    rwa [evalPop_eq] at this
  have h3 : CStep f .evalOff ⟨popEv, some kids, none⟩ ⟨popEv, some kidsEv, none⟩ := by
    have := CStep.evalOff (f := f) ⟨popEv, some kids, none⟩ cost false
    simp only [Option.map_some, evalOff_eq] at this
    exact this
  have h4 : CStep f .diagnostics ⟨popEv, some kidsEv, none⟩ ⟨popEv, some kidsEv, none⟩ :=
    CStep.diagnostics _
  have h5 : CStep f (.select .popPlusOff) ⟨popEv, some kidsEv, none⟩ ⟨popEv, some kidsEv, some sel⟩ := by
    refine CStep.select _ _ sel ?_
    intro i hi
    simp only [sel, List.mem_cons, List.not_mem_nil, or_false] at hi
    rcases hi with rfl | rfl | rfl
    · exact Or.inr ⟨kidsEv, rfl, by decide⟩
    · exact Or.inl (by decide)
    · exact Or.inl (by decide)
  exact CRun.cons h1 (CRun.cons h2 (CRun.cons h3 (CRun.cons h4 (CRun.cons h5 (CRun.nil _)))))

/-- two generations (the second by an algorithm that needs an evaluated entry population), a
hall-of-fame update, a migration, another generation, a best-individual query -/
def history : History .ev :=
  .read (.step (.migrate (.read (.stepEv (.step .start Gen.Phases.muPlusLambda (by decide))
    Gen.Phases.muCommaLambda (by decide)))) Gen.Phases.evolutionaryAlgorithm (by decide))

end Ex
end PipelineSem
end Bingo
