import Proofs.Lemmas.Elitism
import Proofs.Lemmas.SelCrowding
import Proofs.Lemmas.SelAgeFitness
/-!
# The selections of `AgeFitnessEA` and `GeneralizedCrowdingEA` keep the best key (core Lean only)

* `crowding_keeps_best` -- every slot keeps its parent or takes a child that is strictly better.
* `AFRun.keeps_best` -- in every round a removed non-NaN individual leaves a live individual with
  a key `≤` its own (`RoundOK.justified`), the others stay in the live prefix
  (`swapRemovalsToEnd_spec`); chained over the rounds by induction over the run.
-/
namespace Bingo
namespace Sel

/-! ## deterministic crowding -/

theorem crowding_keeps_best {closer : Nat → Bool} {population : List Indv} {target : Nat}
    {out : List Indv} (h : detCrowding closer population target = some out) :
    NoWorse (out.map (·.key)) ((population.take (population.length / 2)).map (·.key)) := by
  obtain ⟨_, he2, hle, hlen, hout, hin⟩ := crowding_spec h
  apply NoWorse.of_forall
  intro k hk
  obtain ⟨p, hp, rfl⟩ := List.mem_map.1 hk
  obtain ⟨j, hj⟩ := List.mem_iff_getElem?.1 hp
  by_cases hn : p.key.isNan = true
  · exact Or.inl hn
  right
  have hn' : p.key.isNan = false := by simpa using hn
  by_cases hjt : target ≤ j
  · -- untouched slot
    refine ⟨p.key, List.mem_map.2 ⟨p, List.mem_of_getElem? ((hout j hjt).trans hj), rfl⟩, ?_⟩
    exact Key.le_refl_of_not_nan hn'
  · -- slot `j = 2k` or `2k+1` of pair `k < target / 2`
    have hjp : population[j]? = some p := by
      rw [List.getElem?_take] at hj
      split at hj
      · exact hj
      · cases hj
    obtain ⟨p1, p2, c1, c2, hp1, hp2, _, _, ho1, ho2⟩ := hin (j / 2) (by omega)
    rcases Nat.mod_two_eq_zero_or_one j with hm | hm
    · have e : 2 * (j / 2) = j := by omega
      rw [e] at hp1 ho1
      rw [hjp] at hp1; cases hp1
      exact ⟨_, List.mem_map.2 ⟨_, List.mem_of_getElem? ho1, rfl⟩, (detMostFit_key _ p).2 hn'⟩
    · have e : 2 * (j / 2) + 1 = j := by omega
      rw [e] at hp2 ho2
      rw [hjp] at hp2; cases hp2
      exact ⟨_, List.mem_map.2 ⟨_, List.mem_of_getElem? ho2, rfl⟩, (detMostFit_key _ p).2 hn'⟩

/-- generational form: `population = parents ++ offspring` with as many offspring as parents -/
theorem crowding_keeps_best_union {closer : Nat → Bool} {parents offspring : List Indv}
    {target : Nat} {out : List Indv} (hlen : offspring.length = parents.length)
    (h : detCrowding closer (parents ++ offspring) target = some out) :
    NoWorse (out.map (·.key)) (parents.map (·.key)) := by
  have := crowding_keeps_best h
  rwa [List.take_left' (by simp; omega)] at this

/-! ## age-fitness -/

/-- one round: the live prefix after the round is no worse than the live prefix before it -/
theorem round_keeps_best {selSize start tr : Nat} {pop pop' : List Indv} {n : Nat}
    {inds rem : List Nat} (hlen : pop.length = start) (hn : n < tr) (htr : tr ≤ start)
    (hd : DrawsOK selSize (start - n) inds)
    (hf : findRemovals selSize inds pop (tr - n) = some rem)
    (hs : swapRemovalsToEnd pop rem n = some pop') :
    NoWorse ((pop'.take (start - (n + rem.length))).map (·.key))
      ((pop.take (start - n)).map (·.key)) := by
  have rok := roundOK_of_step (pop₀ := pop) hlen (List.Perm.refl _) hn htr hd hf hs
  obtain ⟨hnd, hsub, hle, _, _⟩ := findRemovals_spec hd hf
  have hlt : ∀ x ∈ rem, x < pop.length - n := fun x hx => by
    have := hd.lt_live x (hsub x hx); omega
  obtain ⟨pop'', hs', _, _, _, _, _, _, _, hlow⟩ :=
    swapRemovalsToEnd_spec (pop := pop) (R := rem) (k := n) (by omega) hnd hlt
  rw [hs] at hs'; cases hs'
  have hle' := hle (by omega)
  have e1 : pop.length - n = start - n := by omega
  have e2 : start - n - rem.length = start - (n + rem.length) := by omega
  rw [e1, e2] at hlow
  apply NoWorse.of_forall
  intro k hk
  obtain ⟨px, hpx, rfl⟩ := List.mem_map.1 hk
  obtain ⟨j, hj⟩ := List.mem_iff_getElem?.1 hpx
  rw [List.getElem?_take] at hj
  split at hj
  case isFalse => cases hj
  rename_i hjl
  by_cases hnan : px.key.isNan = true
  · exact Or.inl hnan
  right
  have hnan' : px.key.isNan = false := by simpa using hnan
  by_cases hjr : j ∈ rem
  · obtain ⟨px', hpx', hj'⟩ := rok.justified j hjr
    simp only at hpx' hj'
    rw [hj] at hpx'; cases hpx'
    rcases hj' with h1 | ⟨py, hpy, _, _, h3⟩
    · exact absurd h1 hnan
    · exact ⟨py.key, List.mem_map.2 ⟨py, hpy, rfl⟩, h3⟩
  · refine ⟨px.key, List.mem_map.2 ⟨px, ?_, rfl⟩, Key.le_refl_of_not_nan hnan'⟩
    rw [hlow.mem_iff, List.mem_filterMap]
    refine ⟨j, ?_, hj⟩
    rw [List.mem_filter, List.mem_range]
    exact ⟨hjl, by simpa using hjr⟩

/-- the whole loop: the survivors are no worse than the live prefix the loop started from -/
theorem AFRun.keeps_best {selSize start tr factor : Nat} {pop n a draws log r}
    (h : AFRun selSize start tr factor pop n a draws log r)
    (hok : RunDrawsOK selSize start tr factor pop n a draws)
    (hlen : pop.length = start) (htr : tr ≤ start) :
    NoWorse ((r.pop.take r.kept).map (·.key)) ((pop.take (start - n)).map (·.key)) := by
  induction h with
  | stop _ => exact NoWorse.refl _
  | @step pop n a inds rest log rem pop' r hc hf hs _ ih =>
    rw [RunDrawsOK] at hok
    obtain ⟨hd, hnext⟩ := hok hc
    have hp := swapRemovalsToEnd_perm hs
    exact (ih (hnext rem pop' hf hs) (hp.2.trans hlen)).trans
      (round_keeps_best hlen hc.1 htr hd hf hs)

/-- **C09.af_selection_keeps_best** -/
theorem ageFitness_keeps_best {selSize factor : Nat} {pop : List Indv} {target : Nat}
    {draws : List (List Nat)} {r : AFResult}
    (h : ageFitness selSize factor pop target draws = some r)
    (hok : RunDrawsOK selSize pop.length (pop.length - target) factor pop 0 0 draws) :
    NoWorse ((r.pop.take r.kept).map (·.key)) (pop.map (·.key)) := by
  have := (ageFitness_run h).2.keeps_best hok rfl (Nat.sub_le _ _)
  rwa [Nat.sub_zero, List.take_length] at this

end Sel
end Bingo
