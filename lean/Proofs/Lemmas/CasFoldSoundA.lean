import Proofs.Lemmas.CasFoldLoop
/-!
# Tools for the soundness of constant folding

* `Expr.beq` is an equivalence relation; `hasOthers` respects it;
* the meaning of an expression without `VARIABLE` terminals does not depend on the data row;
* completeness of the construction of the replacement instructions: every child of every insertion
  is a key of the dictionary of its parent.
-/
namespace Bingo
namespace Cas
open Gen.OpDefs
open Expr

/-! ## `Expression.__eq__` is an equivalence -/

theorem beqList_symm_of {as : List Expr}
    (h : ∀ a ∈ as, ∀ b, a.beq b = true → b.beq a = true) :
    ∀ bs, beqList as bs = true → beqList bs as = true := by
  induction as with
  | nil => intro bs hb; cases bs with
    | nil => rfl
    | cons b bs => simp [beqList] at hb
  | cons a as ih =>
    intro bs hb
    cases bs with
    | nil => simp [beqList] at hb
    | cons b bs =>
      simp only [beqList, Bool.and_eq_true] at hb ⊢
      exact ⟨h a List.mem_cons_self b hb.1,
        ih (fun c hc => h c (List.mem_cons_of_mem _ hc)) bs hb.2⟩

theorem beq_symm : ∀ (a b : Expr), a.beq b = true → b.beq a = true := by
  intro a
  induction a using Expr.ind' with
  | ht o v n =>
    intro b h
    obtain ⟨n', rfl⟩ := beq_term_left h
    simp [beq]
  | hn o as ih =>
    intro b h
    obtain ⟨bs, rfl, hb⟩ := beq_node_left h
    simp only [beq, Bool.and_eq_true, beq_self_eq_true, true_and]
    exact beqList_symm_of ih bs hb

theorem beqList_trans_of {as : List Expr}
    (h : ∀ a ∈ as, ∀ b c, a.beq b = true → b.beq c = true → a.beq c = true) :
    ∀ bs cs, beqList as bs = true → beqList bs cs = true → beqList as cs = true := by
  induction as with
  | nil =>
    intro bs cs h1 h2
    cases bs with
    | nil => exact h2
    | cons b bs => simp [beqList] at h1
  | cons a as ih =>
    intro bs cs h1 h2
    cases bs with
    | nil => simp [beqList] at h1
    | cons b bs =>
      cases cs with
      | nil => simp [beqList] at h2
      | cons c cs =>
        simp only [beqList, Bool.and_eq_true] at h1 h2 ⊢
        exact ⟨h a List.mem_cons_self b c h1.1 h2.1,
          ih (fun d hd => h d (List.mem_cons_of_mem _ hd)) bs cs h1.2 h2.2⟩

theorem beq_trans : ∀ (a b c : Expr), a.beq b = true → b.beq c = true → a.beq c = true := by
  intro a
  induction a using Expr.ind' with
  | ht o v n =>
    intro b c h1 h2
    obtain ⟨n', rfl⟩ := beq_term_left h1
    obtain ⟨n'', rfl⟩ := beq_term_left h2
    simp [beq]
  | hn o as ih =>
    intro b c h1 h2
    obtain ⟨bs, rfl, hb⟩ := beq_node_left h1
    obtain ⟨cs, rfl, hc⟩ := beq_node_left h2
    simp only [beq, Bool.and_eq_true, beq_self_eq_true, true_and]
    exact beqList_trans_of ih bs cs hb hc

/-- equal expressions are equal to the same expressions -/
theorem beq_congr_right {a b : Expr} (h : a.beq b = true) (c : Expr) : c.beq a = c.beq b := by
  rw [Bool.eq_iff_iff]
  exact ⟨fun h1 => beq_trans c a b h1 h, fun h1 => beq_trans c b a h1 (beq_symm a b h)⟩

theorem beq_congr_left {a b : Expr} (h : a.beq b = true) (c : Expr) : a.beq c = b.beq c := by
  rw [Bool.eq_iff_iff]
  exact ⟨fun h1 => beq_trans b a c (beq_symm a b h) h1, fun h1 => beq_trans a b c h h1⟩

theorem optBeq_symm {a b : Option Expr} (h : optBeq a b = true) : optBeq b a = true := by
  cases a with
  | none =>
    cases b with
    | none => rfl
    | some b => simp [optBeq] at h
  | some a =>
    cases b with
    | none => simp [optBeq] at h
    | some b => exact beq_symm a b h

theorem optBeq_congr_right {a b : Option Expr} (h : optBeq a b = true) (p : Option Expr) :
    optBeq p a = optBeq p b := by
  cases a with
  | none =>
    cases b with
    | none => rfl
    | some b => simp [optBeq] at h
  | some a =>
    cases b with
    | none => simp [optBeq] at h
    | some b =>
      cases p with
      | none => rfl
      | some p => exact beq_congr_right h p

theorem beqList_length : ∀ {as bs : List Expr}, beqList as bs = true → as.length = bs.length := by
  intro as
  induction as with
  | nil => intro bs h; cases bs with
    | nil => rfl
    | cons b bs => simp [beqList] at h
  | cons a as ih =>
    intro bs h
    cases bs with
    | nil => simp [beqList] at h
    | cons b bs =>
      simp only [beqList, Bool.and_eq_true] at h
      simp only [List.length_cons, ih h.2]

/-! ## `hasOthers` respects equality -/

theorem hasOthersList_congr_of {S : List Int} {as : List Expr}
    (h : ∀ a ∈ as, ∀ b, a.beq b = true → hasOthers S a = hasOthers S b) :
    ∀ bs, beqList as bs = true → hasOthersList S as = hasOthersList S bs := by
  induction as with
  | nil => intro bs hb; cases bs with
    | nil => rfl
    | cons b bs => simp [beqList] at hb
  | cons a as ih =>
    intro bs hb
    cases bs with
    | nil => simp [beqList] at hb
    | cons b bs =>
      simp only [beqList, Bool.and_eq_true] at hb
      simp only [hasOthersList]
      rw [h a List.mem_cons_self b hb.1, ih (fun c hc => h c (List.mem_cons_of_mem _ hc)) bs hb.2]

theorem beq_hasOthers (S : List Int) : ∀ (a b : Expr), a.beq b = true →
    hasOthers S a = hasOthers S b := by
  intro a
  induction a using Expr.ind' with
  | ht o v n =>
    intro b h
    obtain ⟨n', rfl⟩ := beq_term_left h
    rfl
  | hn o as ih =>
    intro b h
    obtain ⟨bs, rfl, hb⟩ := beq_node_left h
    simp only [hasOthers]
    exact hasOthersList_congr_of ih bs hb

/-! ## independence of the data row -/

mutual
/-- no `VARIABLE` terminal occurs -/
def noVar : Expr → Bool
  | term o _ _ => o != VARIABLE
  | node _ as => noVarList as
def noVarList : List Expr → Bool
  | [] => true
  | a :: as => noVar a && noVarList as
end

theorem noVarList_iff {l : List Expr} : noVarList l = true ↔ ∀ a ∈ l, noVar a = true := by
  induction l with
  | nil => simp [noVarList]
  | cons a l ih => simp [noVarList, ih]

/-- the meaning of an expression without `VARIABLE` terminals does not depend on the data row -/
theorem den_indep_of_x : ∀ {κ : Expr}, noVar κ = true → ∀ (x y : List ℝ) (cv : Int → ℝ),
    κ.den x cv = κ.den y cv := by
  intro κ
  induction κ using Expr.ind' with
  | ht o v n =>
    intro h x y cv
    simp only [noVar, bne_iff_ne, ne_eq] at h
    rw [den_term, den_term]
    unfold termDen
    rw [if_neg h, if_neg h]
  | hn o as ih =>
    intro h x y cv
    simp only [noVar] at h
    rw [den_node, den_node]
    congr 1
    exact List.map_congr_left fun a ha => ih a ha (noVarList_iff.1 h a ha) x y cv

theorem noVar_of_isCV : ∀ {κ : Expr}, isCV κ = true → noVar κ = true := by
  intro κ
  induction κ using Expr.ind' with
  | ht o v n =>
    intro h
    simp only [isCV, Bool.or_eq_true, beq_iff_eq] at h
    simp only [noVar, bne_iff_ne, ne_eq]
    rcases h with rfl | rfl <;> decide
  | hn o as ih =>
    intro h
    simp only [isCV] at h
    simp only [noVar]
    exact noVarList_iff.2 fun a ha => ih a ha (isCVList_iff.1 h a ha)

theorem den_indep_of_isCV {κ : Expr} (h : isCV κ = true) (x y : List ℝ) (cv : Int → ℝ) :
    κ.den x cv = κ.den y cv := den_indep_of_x (noVar_of_isCV h) x y cv

/-! ## completeness of the replacement instructions -/

/-- `replacements[π]` (`[]` if `π` is not a key), for `π` an expression or `None` -/
def dictFor (repl : Replacements) (π : Option Expr) : List (Expr × Option Expr) :=
  match repl.find? (fun p => optBeq p.1 π) with
  | some (_, d) => d
  | none => []

theorem replacementsFor_eq (repl : Replacements) (e : Expr) :
    replacementsFor repl e = dictFor repl (some e) := rfl

theorem dictFor_nil (π : Option Expr) : dictFor [] π = [] := rfl

theorem dictFor_cons (p : Option Expr) (d : List (Expr × Option Expr)) (rest : Replacements)
    (π : Option Expr) :
    dictFor ((p, d) :: rest) π = if optBeq p π = true then d else dictFor rest π := by
  by_cases h : optBeq p π = true <;> simp [dictFor, h]

theorem dictFor_congr (repl : Replacements) {π π' : Option Expr}
    (h : ∀ p, optBeq p π = optBeq p π') : dictFor repl π = dictFor repl π' := by
  unfold dictFor
  have : (fun p : Option Expr × List (Expr × Option Expr) => optBeq p.1 π) =
      (fun p => optBeq p.1 π') := funext fun p => h p.1
  rw [this]

theorem dictFor_mem {repl : Replacements} {π : Option Expr} {kv : Expr × Option Expr}
    (h : kv ∈ dictFor repl π) : ∃ p, (p, dictFor repl π) ∈ repl ∧ optBeq p π = true := by
  unfold dictFor at h ⊢
  cases hf : repl.find? (fun p => optBeq p.1 π) with
  | none => rw [hf] at h; cases h
  | some pd =>
    have h1 := List.find?_some hf
    exact ⟨pd.1, List.mem_of_find?_eq_some hf, h1⟩

/-- `π` has a key equal to `y` -/
def HasKey (repl : Replacements) (π : Option Expr) (y : Expr) : Prop :=
  ∃ kv ∈ dictFor repl π, kv.1.beq y = true

/-- no key of any dictionary is lost -/
def KeyMono (s s' : Replacements) : Prop :=
  ∀ π, ∀ kv ∈ dictFor s π, ∃ kv' ∈ dictFor s' π, kv'.1 = kv.1

theorem KeyMono.refl (s : Replacements) : KeyMono s s := fun _ kv h => ⟨kv, h, rfl⟩

theorem KeyMono.trans {a b c : Replacements} (h1 : KeyMono a b) (h2 : KeyMono b c) :
    KeyMono a c := by
  intro π kv hkv
  obtain ⟨kv', h', e'⟩ := h1 π kv hkv
  obtain ⟨kv'', h'', e''⟩ := h2 π kv' h'
  exact ⟨kv'', h'', e''.trans e'⟩

theorem KeyMono.hasKey {s s' : Replacements} (h : KeyMono s s') {π : Option Expr} {y : Expr}
    (hk : HasKey s π y) : HasKey s' π y := by
  obtain ⟨kv, hkv, hb⟩ := hk
  obtain ⟨kv', h', e'⟩ := h π kv hkv
  exact ⟨kv', h', by rw [e']; exact hb⟩

/-- the new dictionary of the parent after `replacements[parent][child] = v` -/
def setDict (d : List (Expr × Option Expr)) (child : Expr) (v : Option Expr) :
    List (Expr × Option Expr) :=
  if d.any (·.1.beq child) then d.map (fun kv => if kv.1.beq child then (kv.1, v) else kv)
  else d ++ [(child, v)]

theorem setReplacement_cons (p : Option Expr) (d : List (Expr × Option Expr)) (rest : Replacements)
    (parent : Option Expr) (child : Expr) (v : Option Expr) :
    setReplacement ((p, d) :: rest) parent child v =
      if optBeq p parent = true then (p, setDict d child v) :: rest
      else (p, d) :: setReplacement rest parent child v := by
  rw [setReplacement]
  rfl

theorem setDict_keys (d : List (Expr × Option Expr)) (child : Expr) (v : Option Expr) :
    ∀ kv ∈ d, ∃ kv' ∈ setDict d child v, kv'.1 = kv.1 := by
  intro kv hkv
  unfold setDict
  split
  · refine ⟨_, List.mem_map_of_mem (f := fun kv => if kv.1.beq child then (kv.1, v) else kv) hkv, ?_⟩
    split <;> rfl
  · exact ⟨kv, List.mem_append_left _ hkv, rfl⟩

theorem setDict_hasKey (d : List (Expr × Option Expr)) (child : Expr) (v : Option Expr) :
    ∃ kv ∈ setDict d child v, kv.1.beq child = true := by
  unfold setDict
  split
  · rename_i h
    obtain ⟨kv, hkv, hb⟩ := List.any_eq_true.1 h
    refine ⟨_, List.mem_map_of_mem (f := fun kv => if kv.1.beq child then (kv.1, v) else kv) hkv, ?_⟩
    rw [if_pos hb]
    exact hb
  · exact ⟨(child, v), List.mem_append_right _ List.mem_cons_self, beq_refl child⟩

theorem setReplacement_keyMono (repl : Replacements) (parent : Option Expr) (child : Expr)
    (v : Option Expr) : KeyMono repl (setReplacement repl parent child v) := by
  induction repl with
  | nil => intro π kv h; rw [dictFor_nil] at h; cases h
  | cons pd rest ih =>
    obtain ⟨p, d⟩ := pd
    intro π kv hkv
    rw [setReplacement_cons]
    rw [dictFor_cons] at hkv
    by_cases hpp : optBeq p parent = true
    · rw [if_pos hpp, dictFor_cons]
      by_cases hpi : optBeq p π = true
      · rw [if_pos hpi] at hkv ⊢
        exact setDict_keys d child v kv hkv
      · rw [if_neg hpi] at hkv ⊢
        exact ⟨kv, hkv, rfl⟩
    · rw [if_neg hpp, dictFor_cons]
      by_cases hpi : optBeq p π = true
      · rw [if_pos hpi] at hkv ⊢
        exact ⟨kv, hkv, rfl⟩
      · rw [if_neg hpi] at hkv ⊢
        exact ih π kv hkv

theorem setReplacement_hasKey (repl : Replacements) {parent π : Option Expr} (child : Expr)
    (v : Option Expr) (h : ∀ p, optBeq p parent = optBeq p π) :
    HasKey (setReplacement repl parent child v) π child := by
  induction repl with
  | nil =>
    have h1 : optBeq parent π = true := by rw [← h]; exact optBeq_refl parent
    refine ⟨(child, v), ?_, beq_refl child⟩
    simp only [setReplacement]
    rw [dictFor_cons, if_pos h1]
    exact List.mem_cons_self
  | cons pd rest ih =>
    obtain ⟨p, d⟩ := pd
    rw [setReplacement_cons]
    by_cases hpp : optBeq p parent = true
    · rw [if_pos hpp]
      obtain ⟨kv, hkv, hb⟩ := setDict_hasKey d child v
      refine ⟨kv, ?_, hb⟩
      rw [dictFor_cons, if_pos (by rw [← h]; exact hpp)]
      exact hkv
    · rw [if_neg hpp]
      obtain ⟨kv, hkv, hb⟩ := ih
      refine ⟨kv, ?_, hb⟩
      rw [dictFor_cons, if_neg (by rw [← h]; exact hpp)]
      exact hkv

theorem genChildren_keyMono (c : Expr) (parent : Option Expr) :
    ∀ (children : List Expr) (first : Bool) (s : GenState),
      KeyMono s.1 (genChildren c parent children first s).1 := by
  intro children
  induction children with
  | nil => intro first s; rw [genChildren]; exact KeyMono.refl _
  | cons ch rest ih =>
    intro first s
    obtain ⟨repl, ins, reps⟩ := s
    rw [genChildren]
    exact KeyMono.trans (setReplacement_keyMono repl parent ch _)
      (ih false (setReplacement repl parent ch (if first then some c else none),
        (if first then some c else none) :: ins, ch :: reps))

theorem genChildren_hasKey (c : Expr) {parent π : Option Expr}
    (h : ∀ p, optBeq p parent = optBeq p π) :
    ∀ (children : List Expr) (first : Bool) (s : GenState), ∀ ch ∈ children,
      HasKey (genChildren c parent children first s).1 π ch := by
  intro children
  induction children with
  | nil => intro first s ch hch; cases hch
  | cons ch0 rest ih =>
    intro first s ch hch
    obtain ⟨repl, ins, reps⟩ := s
    rw [genChildren]
    rcases List.mem_cons.1 hch with rfl | hch
    · exact (genChildren_keyMono c parent rest false _).hasKey
        (setReplacement_hasKey repl ch _ h)
    · exact ih false _ ch hch

theorem genInsertions_keyMono (c : Expr) : ∀ (insertions : List Insertion) (s : GenState),
    KeyMono s.1 (genInsertions c insertions s).1 := by
  intro insertions
  induction insertions with
  | nil => intro s; rw [genInsertions]; exact KeyMono.refl _
  | cons ins rest ih =>
    intro s
    obtain ⟨parent, children⟩ := ins
    rw [genInsertions]
    exact (genChildren_keyMono c parent children true s).trans (ih _)

theorem genInsertions_hasKey (c : Expr) : ∀ (insertions : List Insertion) (s : GenState),
    ∀ ins ∈ insertions, ∀ ch ∈ ins.2, HasKey (genInsertions c insertions s).1 ins.1 ch := by
  intro insertions
  induction insertions with
  | nil => intro s ins hins; cases hins
  | cons ins0 rest ih =>
    intro s ins hins ch hch
    obtain ⟨parent, children⟩ := ins0
    rw [genInsertions]
    rcases List.mem_cons.1 hins with rfl | hins
    · exact (genInsertions_keyMono c rest _).hasKey
        (genChildren_hasKey c (fun _ => rfl) children true s ch hch)
    · exact ih _ ins hins ch hch

/-- when there are at least as many ids as insertion points, every insertion is carried out -/
theorem genZip_complete {constants : List (Int × Expr)} :
    ∀ (cs : List Int) (ips : InsertionPoints) (s r : GenState), ips.length ≤ cs.length →
    genZip constants cs ips s = .ok r →
    KeyMono s.1 r.1 ∧ ∀ ks ∈ ips, ∀ ins ∈ ks.2, ∀ ch ∈ ins.2, HasKey r.1 ins.1 ch := by
  intro cs
  induction cs with
  | nil =>
    intro ips s r hl h
    cases ips with
    | nil =>
      rw [genZip] at h
      · cases h
        exact ⟨KeyMono.refl _, fun ks hks => by cases hks⟩
      · intro _ _ _ _ _ h1
        cases h1
    | cons ks ips => simp at hl
  | cons j cs ih =>
    intro ips s r hl h
    cases ips with
    | nil =>
      rw [genZip] at h
      · cases h
        exact ⟨KeyMono.refl _, fun ks hks => by cases hks⟩
      · intro _ _ _ _ _ _ h2
        cases h2
    | cons ks ips =>
      obtain ⟨key, insertions⟩ := ks
      rw [genZip] at h
      split at h
      · rename_i c hl'
        obtain ⟨hm, hk⟩ := ih ips _ r (by simpa using hl) h
        refine ⟨(genInsertions_keyMono c insertions s).trans hm, fun ks hks ins hins ch hch => ?_⟩
        rcases List.mem_cons.1 hks with rfl | hks
        · exact hm.hasKey (genInsertions_hasKey c insertions s ins hins ch hch)
        · exact hk ks hks ins hins ch hch
      · cases h

/-- a key of the dictionary of `None` means that `None` is a key -/
theorem not_noNoneKey_of_hasKey {repl : Replacements} {y : Expr} (h : HasKey repl none y) :
    ¬ NoNoneKey repl := by
  obtain ⟨kv, hkv, _⟩ := h
  obtain ⟨p, hp, hb⟩ := dictFor_mem hkv
  intro hn
  have := List.find?_eq_none.1 hn _ hp
  cases p with
  | none => simp at this
  | some q => simp [optBeq] at hb

/-! ## completeness of the search for insertion points -/

/-- `Occ e π0 π u`: `u` occurs in `e` as an operand of `π` (`π = π0` for `u = e` itself) -/
inductive Occ : Expr → Option Expr → Option Expr → Expr → Prop
  | here (e : Expr) (π0 : Option Expr) : Occ e π0 π0 e
  | under {o : Int} {as : List Expr} {a : Expr} {π0 π : Option Expr} {u : Expr} :
      a ∈ as → Occ a (some (node o as)) π u → Occ (node o as) π0 π u

/-- the insertion the search records for an insertion point `w` below `π` -/
def canonIns (S : List Int) (π : Option Expr) (w : Expr) : Insertion :=
  if isCV w then (π, [w]) else (some w, dedupExprs (w.args.filter fun o => !hasOthers S o))

/-- an insertion equal (as `(parent, frozenset)`) to `ins0`, or containing it, is recorded -/
def Rec (ips : InsertionPoints) (ins0 : Insertion) : Prop :=
  ∃ ks ∈ ips, ∃ ins ∈ ks.2, optBeq ins0.1 ins.1 = true ∧ ∀ c ∈ ins0.2, ∃ y ∈ ins.2, c.beq y = true

theorem Rec_self_mem {ips : InsertionPoints} {ks : Expr × List Insertion} {ins : Insertion}
    (hks : ks ∈ ips) (hins : ins ∈ ks.2) : Rec ips ins :=
  ⟨ks, hks, ins, hins, optBeq_refl _, fun c hc => ⟨c, hc, beq_refl c⟩⟩

theorem addInsertion_mono (ips : InsertionPoints) (key : Expr) (ins0 : Insertion) {i : Insertion}
    (h : Rec ips i) : Rec (addInsertion ips key ins0) i := by
  induction ips with
  | nil => obtain ⟨ks, hks, _⟩ := h; cases hks
  | cons ks0 rest ih =>
    obtain ⟨k0, set⟩ := ks0
    obtain ⟨ks, hks, ins, hins, h1, h2⟩ := h
    rw [addInsertion]
    split
    · rcases List.mem_cons.1 hks with rfl | hks
      · refine ⟨_, List.mem_cons_self, ins, ?_, h1, h2⟩
        dsimp only
        split
        · exact hins
        · exact List.mem_append_left _ hins
      · exact ⟨ks, List.mem_cons_of_mem _ hks, ins, hins, h1, h2⟩
    · rcases List.mem_cons.1 hks with rfl | hks
      · exact ⟨_, List.mem_cons_self, ins, hins, h1, h2⟩
      · obtain ⟨ks', hks', r⟩ := ih ⟨ks, hks, ins, hins, h1, h2⟩
        exact ⟨ks', List.mem_cons_of_mem _ hks', r⟩

theorem addInsertion_rec (ips : InsertionPoints) (key : Expr) (ins0 : Insertion) :
    Rec (addInsertion ips key ins0) ins0 := by
  induction ips with
  | nil =>
    simp only [addInsertion]
    exact Rec_self_mem List.mem_cons_self List.mem_cons_self
  | cons ks0 rest ih =>
    obtain ⟨k0, set⟩ := ks0
    rw [addInsertion]
    split
    · by_cases hany : set.any (insertionEq ins0) = true
      · obtain ⟨b, hb, he⟩ := List.any_eq_true.1 hany
        simp only [insertionEq, Bool.and_eq_true] at he
        refine ⟨_, List.mem_cons_self, b, ?_, he.1.1, fun c hc => ?_⟩
        · dsimp only; rw [if_pos hany]; exact hb
        · have := he.1.2
          simp only [subsetBy, List.all_eq_true] at this
          exact List.any_eq_true.1 (this c hc)
      · refine Rec_self_mem (ks := (k0, if set.any (insertionEq ins0) = true then set else set ++ [ins0]))
          List.mem_cons_self ?_
        dsimp only
        rw [if_neg hany]
        exact List.mem_append_right _ List.mem_cons_self
    · obtain ⟨ks', hks', r⟩ := ih
      exact ⟨ks', List.mem_cons_of_mem _ hks', r⟩

/-- the search below `e` records every insertion point of `e` and forgets nothing -/
def SC (S : List Int) (e : Expr) : Prop :=
  ∀ π0 acc, (∀ i, Rec acc i → Rec (searchInsertionPoints S e π0 acc) i) ∧
    (∀ π o as, Occ e π0 π (node o as) → isInsertionPoint S as = true →
      Rec (searchInsertionPoints S e π0 acc) (canonIns S π (node o as)))

theorem searchList_complete {S : List Int} : ∀ (l : List Expr), (∀ a ∈ l, SC S a) →
    ∀ parent acc, (∀ i, Rec acc i → Rec (searchInsertionPointsList S l parent acc) i) ∧
      (∀ a ∈ l, ∀ π o as, Occ a parent π (node o as) → isInsertionPoint S as = true →
        Rec (searchInsertionPointsList S l parent acc) (canonIns S π (node o as))) := by
  intro l
  induction l with
  | nil =>
    intro _ parent acc
    rw [searchInsertionPointsList]
    exact ⟨fun i h => h, fun a ha => by cases ha⟩
  | cons b l ih =>
    intro hsc parent acc
    rw [searchInsertionPointsList]
    obtain ⟨m1, c1⟩ := hsc b List.mem_cons_self parent acc
    obtain ⟨m2, c2⟩ := ih (fun a ha => hsc a (List.mem_cons_of_mem _ ha)) parent
      (searchInsertionPoints S b parent acc)
    refine ⟨fun i h => m2 i (m1 i h), fun a ha π o as hocc hip => ?_⟩
    rcases List.mem_cons.1 ha with rfl | ha
    · exact m2 _ (c1 π o as hocc hip)
    · exact c2 a ha π o as hocc hip

theorem search_complete (S : List Int) : ∀ e, SC S e := by
  intro e
  induction e using Expr.ind' with
  | ht o v n =>
    intro π0 acc
    rw [searchInsertionPoints]
    refine ⟨fun i h => h, fun π o' as hocc _ => ?_⟩
    cases hocc
  | hn o args ih =>
    intro π0 acc
    obtain ⟨m1, c1⟩ := searchList_complete args ih (some (node o args)) acc
    rw [searchInsertionPoints]
    have hcanon : ∀ (ips : InsertionPoints), isInsertionPoint S args = true →
        Rec (if (node o args).isCV = true then addInsertion ips (node o args) (π0, [node o args])
          else addInsertion ips (node o args)
            (some (node o args), dedupExprs (args.filter fun o => !hasOthers S o)))
          (canonIns S π0 (node o args)) := by
      intro ips _
      unfold canonIns
      split
      · exact addInsertion_rec _ _ _
      · exact addInsertion_rec _ _ _
    constructor
    · intro i h
      split
      · exact m1 i h
      · split
        · exact addInsertion_mono _ _ _ (m1 i h)
        · exact addInsertion_mono _ _ _ (m1 i h)
    · intro π o' as hocc hip
      cases hocc with
      | here =>
        rw [if_neg (by simp [hip])]
        exact hcanon _ hip
      | under ha h' =>
        have := c1 _ ha π o' as h' hip
        split
        · exact this
        · split
          · exact addInsertion_mono _ _ _ this
          · exact addInsertion_mono _ _ _ this

/-- every no-others operand is represented among the children of the canonical insertion -/
theorem exists_dedup_beq {a : Expr} : ∀ {l : List Expr}, a ∈ l →
    ∃ y ∈ dedupExprs l, y.beq a = true := by
  intro l
  induction l with
  | nil => intro h; cases h
  | cons b l ih =>
    intro h
    rw [dedupExprs]
    rcases List.mem_cons.1 h with rfl | h
    · exact ⟨a, List.mem_cons_self, beq_refl a⟩
    · obtain ⟨y, hy, hb⟩ := ih h
      by_cases hby : b.beq y = true
      · exact ⟨b, List.mem_cons_self, beq_trans b y a hby hb⟩
      · exact ⟨y, List.mem_cons_of_mem _ (List.mem_filter.2 ⟨hy, by simpa using hby⟩), hb⟩

end Cas
end Bingo
