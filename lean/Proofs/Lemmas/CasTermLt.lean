import Proofs.Lemmas.CasTermLevel
import Proofs.Lemmas.CasTermMono
/-!
# Termination of the ordering `Expression.__lt__`

`ltF f a b` does not run out of fuel as soon as `3 * (size a + size b) ≤ f`.
-/
namespace Bingo
namespace Cas
namespace Term
open Gen.OpDefs Expr

theorem pure_ne {α : Type} {a : α} {s : String} : (pure a : R α) ≠ .error s := by
  intro h; cases h
theorem throw_ne {α : Type} {s : String} (hs : s ≠ "fuel") : (throw s : R α) ≠ .error "fuel" := by
  intro h; injection h with h; exact hs h

theorem size_pos (e : Expr) : 1 ≤ size e := by
  cases e <;> simp [size]

theorem sizeL_append (l₁ l₂ : List Expr) : sizeL (l₁ ++ l₂) = sizeL l₁ + sizeL l₂ := by
  induction l₁ with
  | nil => simp [sizeL]
  | cons a l ih => simp [sizeL, ih, Nat.add_assoc]

theorem sizeL_reverse (l : List Expr) : sizeL l.reverse = sizeL l := by
  induction l with
  | nil => rfl
  | cons a l ih => simp [sizeL_append, sizeL, ih, Nat.add_comm]

theorem size_args (e : Expr) : sizeL e.args + 1 ≤ size e := by
  cases e <;> simp [args, size, sizeL]

theorem size_mem {l : List Expr} {x : Expr} (h : x ∈ l) : size x ≤ sizeL l := by
  induction l with
  | nil => cases h
  | cons a l ih =>
    simp only [sizeL]
    rcases List.mem_cons.1 h with rfl | h
    · omega
    · have := ih h; omega

theorem size_getElem? {e x : Expr} {i : Nat} (h : e.args[i]? = some x) : size x + 1 ≤ size e := by
  have := size_mem (List.mem_of_getElem? h)
  have := size_args e
  omega

structure LtAt (f : Nat) : Prop where
  lt : ∀ a b, 3 * (size a + size b) ≤ f → ltF f a b ≠ .error "fuel"
  glt : ∀ a b, 3 * (size a + size b) ≤ f + 1 → generalLtF f a b ≠ .error "fuel"
  alt : ∀ o a b, 3 * (size a + size b) ≤ f + 1 → assocLtF f o a b ≠ .error "fuel"
  olt : ∀ l₁ l₂, 3 * (sizeL l₁ + sizeL l₂) + 1 ≤ f → operandsLtF f l₁ l₂ ≠ .error "fuel"

theorem ltAt_zero : LtAt 0 where
  lt := by intro a b h; have := size_pos a; omega
  glt := by intro a b h; have := size_pos a; omega
  alt := by intro o a b h; have := size_pos a; omega
  olt := by intro a b h; omega

section step
variable {f : Nat}

theorem olt_term (ih : LtAt f) (l₁ l₂ : List Expr) (h : 3 * (sizeL l₁ + sizeL l₂) + 1 ≤ f + 1) :
    operandsLtF (f+1) l₁ l₂ ≠ .error "fuel" := by
  cases l₂ with
  | nil => rw [operandsLtF.eq_4]; exact pure_ne
  | cons b bs =>
    cases l₁ with
    | nil => rw [operandsLtF.eq_3]; exact pure_ne
    | cons a as =>
      rw [operandsLtF.eq_2]
      simp only [sizeL] at h
      have := size_pos a
      have := size_pos b
      split
      · exact ih.lt _ _ (by omega)
      · exact ih.olt _ _ (by omega)

theorem alt_term (ih : LtAt f) (o : Int) (a b : Expr) (h : 3 * (size a + size b) ≤ f + 2) :
    assocLtF (f+1) o a b ≠ .error "fuel" := by
  rw [assocLtF.eq_2]
  have := size_args a
  have := size_args b
  split
  · split
    · exact ih.olt _ _ (by rw [sizeL_reverse, sizeL_reverse]; omega)
    · exact ih.olt _ _ (by rw [sizeL_reverse]; simp only [sizeL]; omega)
  · exact ih.olt _ _ (by rw [sizeL_reverse]; simp only [sizeL]; omega)

theorem glt_term (ih : LtAt f) (a b : Expr) (h : 3 * (size a + size b) ≤ f + 2) :
    generalLtF (f+1) a b ≠ .error "fuel" := by
  cases a <;> cases b <;> simp only [generalLtF] <;> split <;>
    first
    | exact pure_ne
    | exact throw_ne (by decide)
    | (simp only [size] at h
       exact ih.olt _ _ (by rw [sizeL_reverse, sizeL_reverse]; omega))

theorem size_ite_get {c : Bool} {e y x : Expr} {i : Nat}
    (h : (if c = true then e.args[i]? else some y) = some x) :
    (c = true ∧ size x + 1 ≤ size e) ∨ (c = false ∧ x = y) := by
  cases c with
  | true => left; exact ⟨rfl, size_getElem? (by simpa using h)⟩
  | false => right; simp at h; exact ⟨rfl, h.symm⟩

theorem lt_term (ih : LtAt f) (a b : Expr) (h : 3 * (size a + size b) ≤ f + 1) :
    ltF (f+1) a b ≠ .error "fuel" := by
  rw [ltF.eq_2]
  dsimp only
  split
  · split
    · exact pure_ne
    · exact ih.glt _ _ (by omega)
  · split
    · exact ih.alt _ _ _ (by omega)
    · split
      · rename_i hp
        split
        · rename_i sb se ob oe h1 h2 h3 h4
          have h1 := size_ite_get h1
          have h2 := size_ite_get h2
          have h3 := size_ite_get h3
          have h4 := size_ite_get h4
          have hone : size ONE = 1 := rfl
          have := size_pos a
          have := size_pos b
          have hp' : (a.op == POWER) = true ∨ (b.op == POWER) = true := by
            simpa [Bool.or_eq_true] using hp
          split
          · apply ih.lt
            rcases h2 with ⟨c1, h2⟩ | ⟨c1, rfl⟩ <;> rcases h4 with ⟨c2, h4⟩ | ⟨c2, rfl⟩ <;>
              first
              | omega
              | (exfalso; rcases hp' with hp' | hp' <;> simp_all)
          · apply ih.lt
            rcases h1 with ⟨c1, h1⟩ | ⟨c1, rfl⟩ <;> rcases h3 with ⟨c2, h3⟩ | ⟨c2, rfl⟩ <;>
              first
              | omega
              | (exfalso; rcases hp' with hp' | hp' <;> simp_all)
        · exact throw_ne (by decide)
      · split
        · exact ih.alt _ _ _ (by omega)
        · exact ih.glt _ _ (by omega)

end step

theorem ltAt : ∀ f, LtAt f
  | 0 => ltAt_zero
  | f+1 =>
    have ih := ltAt f
    { lt := fun a b h => lt_term ih a b h
      glt := fun a b h => glt_term ih a b (by omega)
      alt := fun o a b h => alt_term ih o a b (by omega)
      olt := fun l₁ l₂ h => olt_term ih l₁ l₂ h }

/-- the ordering terminates: explicit fuel -/
theorem ltF_terminates (a b : Expr) {f : Nat} (h : 3 * (size a + size b) ≤ f) :
    ltF f a b ≠ .error "fuel" := (ltAt f).lt a b h

end Term
end Cas
end Bingo
