import Model.WF
import Model.EvalPy
import Proofs.Lemmas.Tables
/-!
# Well-formed stacks never raise (value level) / only raise ZeroDivisionError (object level)
(core only, no Mathlib)
-/
namespace Bingo
namespace WFFwd
open Gen.OpDefs

/-- slot `d` is available at row `i` of a stack evaluated with `D` data columns, `L` constants -/
def Avail (D L i : Nat) (cmd : Cmd) : Dep → Prop
  | .intParam => True
  | .loadX => 0 ≤ cmd.p1 ∧ cmd.p1 < D
  | .loadC => 0 ≤ cmd.p1 ∧ cmd.p1 < L
  | .fwd .p1 => 0 ≤ cmd.p1 ∧ cmd.p1 < i
  | .fwd .p2 => 0 ≤ cmd.p2 ∧ cmd.p2 < i
  | .fwd .self => False
  | .rev => False

/-- table reasoning only: a row accepted by `rowOK` has a supported rule that reads only
available slots -/
theorem rowOK_reads {D L i : Nat} {cmd : Cmd} (h : WF.rowOK D (some L) none i cmd = true) :
    ∃ rule, Eval.fwdRule cmd.node = some rule ∧ rule.supported = true ∧
      ∀ d, rule.reads d = true → Avail D L i cmd d := by
  unfold WF.rowOK at h
  split at h
  · next ht ha =>
    obtain ⟨rule, hr⟩ := Option.isSome_iff_exists.mp (Tables.fwdRule_isSome_of_isTerminal ht)
    obtain ⟨hs, sh⟩ := Tables.shape_of_fwdRule hr
    obtain ⟨tv, tc, ti⟩ := Tables.terminal_reads hr
    refine ⟨rule, hr, hs, ?_⟩
    cases sh with
    | ar1 ht' _ _ => rw [ht] at ht'; cases ht'
    | ar2 ht' _ _ => rw [ht] at ht'; cases ht'
    | term _ _ hreads =>
      intro d hd
      have hterm := hreads d hd
      split at h
      · next hv =>
        simp only [Bool.and_eq_true, decide_eq_true_eq] at h
        cases d with
        | intParam => trivial
        | loadX => exact h
        | loadC => rw [tv hv] at hd; cases hd
        | _ => simp [Dep.term] at hterm
      · split at h
        · next hc =>
          simp only [Bool.and_eq_true, decide_eq_true_eq] at h
          cases d with
          | intParam => trivial
          | loadC => exact h
          | loadX => rw [tc hc] at hd; cases hd
          | _ => simp [Dep.term] at hterm
        · have hi : cmd.node = INTEGER := by simpa using h
          cases d with
          | intParam => trivial
          | loadC => rw [(ti hi).2] at hd; cases hd
          | loadX => rw [(ti hi).1] at hd; cases hd
          | _ => simp [Dep.term] at hterm
  · next ht ha =>
    obtain ⟨rule, hr⟩ := Option.isSome_iff_exists.mp (Tables.fwdRule_isSome_of_isTerminal ht)
    obtain ⟨hs, sh⟩ := Tables.shape_of_fwdRule hr
    refine ⟨rule, hr, hs, ?_⟩
    simp only [Bool.and_eq_true, decide_eq_true_eq, Bool.and_true] at h
    cases sh with
    | term ht' _ _ => rw [ht] at ht'; cases ht'
    | ar1 _ _ hreads =>
      intro d hd
      have h1 := hreads d hd
      cases d with
      | fwd r =>
        cases r with
        | p1 => exact ⟨h.1.1.1, h.1.1.2⟩
        | _ => simp [Dep.ar1] at h1
      | _ => simp [Dep.ar1] at h1
    | ar2 _ _ hreads =>
      intro d hd
      have h1 := hreads d hd
      cases d with
      | fwd r =>
        cases r with
        | p1 => exact ⟨h.1.1.1, h.1.1.2⟩
        | p2 => exact ⟨h.1.2, h.2⟩
        | self => simp [Dep.ar2] at h1
      | _ => simp [Dep.ar2] at h1
  · cases h

theorem idx_some {β : Type} (N : Nat) (l : List β) (p : Int) (h0 : 0 ≤ p) (h1 : p < l.length)
    (hN : l.length ≤ N) : ∃ v, (pyIdx N p).bind (l[·]?) = some v := by
  have hlt : p.toNat < l.length := by omega
  rw [pyIdx_of_lt h0 (by omega)]
  exact ⟨l[p.toNat], by simp [hlt]⟩

section value
variable {α : Type} [Scalar α]

theorem avail_get_isSome {D L N : Nat} {x c acc : List α} {cmd : Cmd} (hx : x.length = D)
    (hc : c.length = L) (hN : acc.length ≤ N) {d : Dep} (h : Avail D L acc.length cmd d) :
    ((Eval.fwdCtx N x c acc cmd).get d).isSome = true := by
  cases d with
  | intParam => rfl
  | loadX =>
    obtain ⟨v, hv⟩ := idx_some x.length x cmd.p1 h.1 (hx ▸ h.2) (Nat.le_refl _)
    simp [RuleCtx.get, Eval.fwdCtx, hv]
  | loadC =>
    obtain ⟨v, hv⟩ := idx_some c.length c cmd.p1 h.1 (hc ▸ h.2) (Nat.le_refl _)
    simp [RuleCtx.get, Eval.fwdCtx, hv]
  | fwd r =>
    cases r with
    | p1 =>
      obtain ⟨v, hv⟩ := idx_some N acc cmd.p1 h.1 h.2 hN
      simp [RuleCtx.get, Eval.fwdCtx, Eval.lookupFwd, hv]
    | p2 =>
      obtain ⟨v, hv⟩ := idx_some N acc cmd.p2 h.1 h.2 hN
      simp [RuleCtx.get, Eval.fwdCtx, Eval.lookupFwd, hv]
    | self => cases h
  | rev => cases h

theorem fwdRow_isSome {D L N : Nat} {x c acc : List α} {cmd : Cmd} (hx : x.length = D)
    (hc : c.length = L) (hN : acc.length ≤ N)
    (h : WF.rowOK D (some L) none acc.length cmd = true) :
    ∃ v, Eval.fwdRow N x c acc cmd = some v := by
  obtain ⟨rule, hr, hs, hreads⟩ := rowOK_reads h
  have := RExpr.interp_isSome rule (Eval.fwdCtx N x c acc cmd) hs
    (fun d hd => avail_get_isSome hx hc hN (hreads d hd))
  obtain ⟨v, hv⟩ := Option.isSome_iff_exists.mp this
  exact ⟨v, by simp [Eval.fwdRow, hr, hv]⟩

theorem fwdAux_some {D L N : Nat} {x c : List α} (hx : x.length = D) (hc : c.length = L)
    (rest : List Cmd) (acc : List α) (hN : acc.length + rest.length = N)
    (h : WF.rowsOK D (some L) none acc.length rest = true) :
    ∃ vs, Eval.fwdAux N x c rest acc = some vs ∧ vs.length = N := by
  induction rest generalizing acc with
  | nil => exact ⟨acc, rfl, by simpa using hN⟩
  | cons cmd rest ih =>
    simp only [WF.rowsOK, Bool.and_eq_true] at h
    simp only [List.length_cons] at hN
    obtain ⟨v, hv⟩ := fwdRow_isSome (N := N) hx hc (by omega) h.1
    simp only [Eval.fwdAux, hv]
    apply ih
    · simp; omega
    · simpa using h.2

theorem wf_fwd_some (D L : Nat) (s : Stack) (x c : List α) (h : WF.WFEval D L s)
    (hx : x.length = D) (hc : c.length = L) :
    ∃ vs, Eval.fwd s x c = some vs ∧ vs.length = s.length := by
  unfold WF.WFEval WF.wf at h
  simp only [Bool.and_eq_true] at h
  exact fwdAux_some hx hc s [] (by simp) h.2

end value

section object
variable {α : Type} [Scalar α]

theorem avail_getK_ne_other {D L N : Nat} {x : List α} {c acc : List (KVal α)} {cmd : Cmd}
    (hx : x.length = D) (hc : c.length = L) (hN : acc.length ≤ N) {d : Dep}
    (h : Avail D L acc.length cmd d) :
    (EvalPy.fwdCtx N x c acc cmd).get d ≠ .error .other := by
  cases d with
  | intParam => simp [RuleCtxK.get]
  | loadX =>
    obtain ⟨v, hv⟩ := idx_some x.length x cmd.p1 h.1 (hx ▸ h.2) (Nat.le_refl _)
    simp [RuleCtxK.get, EvalPy.fwdCtx, hv, EvalPy.optE, pure, Except.pure]
  | loadC =>
    obtain ⟨v, hv⟩ := idx_some c.length c cmd.p1 h.1 (hc ▸ h.2) (Nat.le_refl _)
    simp [RuleCtxK.get, EvalPy.fwdCtx, hv, EvalPy.optE, pure, Except.pure]
  | fwd r =>
    cases r with
    | p1 =>
      obtain ⟨v, hv⟩ := idx_some N acc cmd.p1 h.1 h.2 hN
      simp [RuleCtxK.get, EvalPy.fwdCtx, EvalPy.lookupFwd, hv, EvalPy.optE, pure, Except.pure]
    | p2 =>
      obtain ⟨v, hv⟩ := idx_some N acc cmd.p2 h.1 h.2 hN
      simp [RuleCtxK.get, EvalPy.fwdCtx, EvalPy.lookupFwd, hv, EvalPy.optE, pure, Except.pure]
    | self => cases h
  | rev => cases h

theorem fwdRowK_ne_other (isZero : α → Bool) {D L N : Nat} {x : List α} {c acc : List (KVal α)}
    {cmd : Cmd} (hx : x.length = D) (hc : c.length = L) (hN : acc.length ≤ N)
    (h : WF.rowOK D (some L) none acc.length cmd = true) :
    EvalPy.fwdRow isZero N x c acc cmd ≠ .error .other := by
  obtain ⟨rule, hr, hs, hreads⟩ := rowOK_reads h
  have := RExpr.interpK_ne_other isZero rule (EvalPy.fwdCtx N x c acc cmd) hs
    (fun d hd => avail_getK_ne_other hx hc hN (hreads d hd))
  simpa [EvalPy.fwdRow, hr] using this

theorem fwdAuxK_ne_other (isZero : α → Bool) {D L N : Nat} {x : List α} {c : List (KVal α)}
    (hx : x.length = D) (hc : c.length = L)
    (rest : List Cmd) (acc : List (KVal α)) (hN : acc.length + rest.length = N)
    (h : WF.rowsOK D (some L) none acc.length rest = true) :
    EvalPy.fwdAux isZero N x c rest acc ≠ .error .other := by
  induction rest generalizing acc with
  | nil => simp [EvalPy.fwdAux, pure, Except.pure]
  | cons cmd rest ih =>
    simp only [WF.rowsOK, Bool.and_eq_true] at h
    simp only [List.length_cons] at hN
    have hrow := fwdRowK_ne_other isZero (N := N) hx hc (by omega) h.1
    simp only [EvalPy.fwdAux, bind, Except.bind]
    cases hv : EvalPy.fwdRow isZero N x c acc cmd with
    | error e =>
      cases e with
      | zerodiv => simp
      | other => exact absurd hv hrow
    | ok v =>
      apply ih
      · simp; omega
      · simpa using h.2

theorem only_exception_is_pydiv (isZero : α → Bool) (D L : Nat) (s : Stack) (x : List α)
    (c : List (KVal α)) (h : WF.WFEval D L s) (hx : x.length = D) (hc : c.length = L) :
    EvalPy.fwd isZero s x c ≠ .error .other := by
  unfold WF.WFEval WF.wf at h
  simp only [Bool.and_eq_true] at h
  exact fwdAuxK_ne_other isZero hx hc s [] (by simp) h.2

end object

end WFFwd
end Bingo
