import Proofs.Lemmas.CasTermTop
import Model.Cas.Simplify
/-!
# Stage 4: the passes around `automaticSimplify`

* the expression read off a stack is `NE T` (`buildExpressionRec_NE`);
* `buildAgraphStack` never runs out of fuel on an `NE T` expression (`buildAgraphStack_nfu`).
-/
namespace Bingo
namespace Cas
namespace Term
open Gen.OpDefs Expr Auto

variable {T : Int → Bool}

/-- the terminal rows of the stack carry operators allowed by `T` -/
def RowsT (T : Int → Bool) (s : Stack) : Prop :=
  ∀ cmd ∈ s, Ops.isTerminal cmd.node = some true → cmd.node = INTEGER ∨ T cmd.node = true

theorem arity2_of_assoc {o : Int} {b : Bool} (h : Ops.isArity2 o = some b)
    (ho : o = ADDITION ∨ o = MULTIPLICATION) : b = true := by
  rcases ho with rfl | rfl
  · have : Ops.isArity2 ADDITION = some true := by decide
    rw [this] at h; cases h; rfl
  · have : Ops.isArity2 MULTIPLICATION = some true := by decide
    rw [this] at h; cases h; rfl

theorem buildExpressionRec_NE {s : Stack} (hT : RowsT T s) : ∀ (fuel : Nat) (loc : Int) (np : Bool)
    (e : Expr), buildExpressionRec s fuel loc np = .ok e → NE T e = true
  | 0, _, _, _, h => by rw [buildExpressionRec] at h; exact (throw_ok h).elim
  | fuel+1, loc, np, e, h => by
    rw [buildExpressionRec] at h
    split at h
    · exact (throw_ok h).elim
    · rename_i cmd hcmd
      have hmem : cmd ∈ s := by
        cases hi : pyIdx s.length loc with
        | none => rw [hi] at hcmd; cases hcmd
        | some i => rw [hi] at hcmd; exact List.mem_of_getElem? hcmd
      split at h
      · rename_i ht _
        have hterm : NE T (term cmd.node loc np) = true := by
          have hnm : cmd.node ≠ MULTIPLICATION := by
            intro hc; rw [hc] at ht; exact absurd ht (by decide)
          rcases hT cmd hmem ht with h1 | h1
          · simp [NE, h1]
          · simp [NE, h1, hnm]
        split at h
        · cases pure_ok h; exact hterm
        · split at h <;> (cases pure_ok h; exact hterm)
      · rename_i arity2 ht ha
        obtain ⟨a, ha', h⟩ := bind_ok h
        have hna := buildExpressionRec_NE hT fuel _ _ a ha'
        have hnt : cmd.node ≠ ADDITION ∧ cmd.node ≠ MULTIPLICATION ∨ arity2 = true := by
          by_cases hc : cmd.node = ADDITION ∨ cmd.node = MULTIPLICATION
          · exact Or.inr (arity2_of_assoc ha hc)
          · exact Or.inl ⟨fun h => hc (Or.inl h), fun h => hc (Or.inr h)⟩
        split at h
        · obtain ⟨b, hb', h⟩ := bind_ok h
          have hnb := buildExpressionRec_NE hT fuel _ _ b hb'
          cases pure_ok h
          simp [NE, NEL, hna, hnb]
        · rename_i hf
          cases pure_ok h
          rcases hnt with ⟨h1, h2⟩ | h1
          · simp [NE, NEL, hna, h1, h2]
          · exact absurd h1 hf
      · exact (throw_ok h).elim

/-! ## `buildAgraphStack` -/

theorem addAssociative_nfu (op : Int) : ∀ (fuel : Nat) (locs : List Int) (d : StackDict),
    1 ≤ locs.length → locs.length ≤ fuel → NFu (addAssociative op fuel locs d)
  | 0, locs, _, h1, h2 => by omega
  | fuel+1, locs, d, h1, h2 => by
    match locs, h1, h2 with
    | [l], _, _ => rw [addAssociative]; exact pure_ne
    | a :: b :: tl, _, h2 =>
      rw [addAssociative]
      · simp only [List.length_cons] at h2
        have hhalf : 1 ≤ (a :: b :: tl).length / 2 ∧ (a :: b :: tl).length / 2 ≤ tl.length + 1 := by
          simp only [List.length_cons]; omega
        refine nfu_bind (addAssociative_nfu op fuel _ d
          (by rw [List.length_take]; omega) (by rw [List.length_take]; omega)) (fun x _ => ?_)
        refine nfu_bind (addAssociative_nfu op fuel _ x.1
          (by rw [List.length_drop]; simp only [List.length_cons]; omega)
          (by rw [List.length_drop]; simp only [List.length_cons]; omega)) (fun y _ => pure_ne)
      · intro l h; cases h

mutual
/-- every node has at least one operand -/
def NEmp : Expr → Bool
  | term _ _ _ => true
  | node _ as => !as.isEmpty && NEmpL as
def NEmpL : List Expr → Bool
  | [] => true
  | a :: as => NEmp a && NEmpL as
end

theorem NEmp_of_NE (e : Expr) : NE T e = true → NEmp e = true := by
  induction e using Expr.rec (motive_2 := fun l => NEL T l = true → NEmpL l = true) with
  | term o v np => intro _; rfl
  | node o as ih =>
    intro h
    simp only [NE, Bool.and_eq_true] at h
    simp only [NEmp, Bool.and_eq_true]
    exact ⟨h.1.1, ih h.2⟩
  | nil => rfl
  | cons a as iha ihas =>
    rename_i h
    simp only [NEL, Bool.and_eq_true] at h
    simp only [NEmpL, Bool.and_eq_true]
    exact ⟨iha h.1, ihas h.2⟩

theorem buildStackRec_nfu (e : Expr) : NEmp e = true → ∀ d, NFu (buildStackRec e d) := by
  induction e using Expr.rec (motive_2 := fun l => NEmpL l = true →
      (∀ d, NFu (buildStackRecList l d)) ∧
      ∀ d d' locs, buildStackRecList l d = .ok (d', locs) → locs.length = l.length) with
  | term o v np => intro _ d; rw [buildStackRec]; exact pure_ne
  | node o args ih =>
    intro h d
    simp only [NEmp, Bool.and_eq_true] at h
    obtain ⟨ih1, ih2⟩ := ih h.2
    cases args with
    | nil => simp at h
    | cons a0 tl0 =>
    rw [buildStackRec.eq_2]
    refine nfu_bind (ih1 d) (fun x hx => ?_)
    obtain ⟨d', locs⟩ := x
    have hlen := ih2 d d' locs hx
    have hpos : 1 ≤ locs.length := by rw [hlen]; simp
    dsimp only
    split
    · exact pure_ne
    · exact pure_ne
    · rename_i hn1 hn2
      split
      · split
        · rename_i l0 rest
          have : 2 ≤ rest.length := by
            match rest, hn1, hn2 with
            | [], hn1, _ => exact (hn1 l0 rfl).elim
            | [l1], _, hn2 => exact (hn2 l0 l1 rfl).elim
            | _ :: _ :: _, _, _ => simp
          exact nfu_bind (addAssociative_nfu o _ rest d' (by omega) (by omega)) (fun _ _ => pure_ne)
        · exact throw_ne (by decide)
      · exact addAssociative_nfu o _ locs d' hpos (by omega)
  | nil =>
    refine ⟨fun d => by rw [buildStackRecList]; exact pure_ne, fun d d' locs h => ?_⟩
    rw [buildStackRecList] at h
    cases pure_ok h; rfl
  | cons a as iha ihas =>
    rename_i h
    simp only [NEmpL, Bool.and_eq_true] at h
    obtain ⟨ih1, ih2⟩ := ihas h.2
    refine ⟨fun d => ?_, fun d d' locs hd => ?_⟩
    · rw [buildStackRecList]
      refine nfu_bind (iha h.1 d) (fun x _ => ?_)
      exact nfu_bind (ih1 x.1) (fun _ _ => pure_ne)
    · rw [buildStackRecList] at hd
      obtain ⟨x, hx, hd⟩ := bind_ok hd
      obtain ⟨y, hy, hd⟩ := bind_ok hd
      cases pure_ok hd
      simp only [List.length_cons]
      rw [ih2 x.1 y.1 y.2 hy]

theorem emitCommand_nfu (c : Cmd) : NFu (emitCommand c) := by
  unfold emitCommand
  repeat' (first | exact pure_ne | exact throw_ne (by decide) | split)

theorem mapM_emit_nfu : ∀ (d : List Cmd), NFu (d.mapM emitCommand) :=
  fun _ => nfu_mapM (fun c _ => emitCommand_nfu c)

/-- **`build_agraph_stack` never runs out of fuel** on a structurally well-formed expression -/
theorem buildAgraphStack_nfu {e : Expr} (h : NEmp e = true) : NFu (buildAgraphStack e) := by
  unfold buildAgraphStack
  exact nfu_bind (buildStackRec_nfu e h []) (fun x _ => mapM_emit_nfu x.1)

/-! ## `groupConstants` -/

theorem NEL_filter {l : List Expr} (p : Expr → Bool) (h : NEL T l = true) :
    NEL T (l.filter p) = true := by
  rw [NEL_iff] at *
  intro a ha
  exact h a (List.mem_filter.1 ha).1

theorem NE_node_of {o : Int} {as : List Expr} (h1 : as ≠ [])
    (h2 : o = ADDITION ∨ o = MULTIPLICATION → 2 ≤ as.length)
    (h2' : ¬ (o = ADDITION ∨ o = MULTIPLICATION) → as.length ≤ 2)
    (h3 : NEL T as = true) : NE T (node o as) = true := by
  simp only [NE, Bool.and_eq_true]
  refine ⟨⟨?_, ?_⟩, h3⟩
  · cases as with
    | nil => exact (h1 rfl).elim
    | cons a as => rfl
  · by_cases ho : o = ADDITION ∨ o = MULTIPLICATION
    · rw [if_pos (by simpa using ho)]
      simpa using h2 ho
    · rw [if_neg (by simpa using ho)]
      simpa using h2' ho

theorem NE_node_inv {o : Int} {as : List Expr} (h : NE T (node o as) = true) :
    as ≠ [] ∧ (o = ADDITION ∨ o = MULTIPLICATION → 2 ≤ as.length) ∧
      (¬ (o = ADDITION ∨ o = MULTIPLICATION) → as.length ≤ 2) ∧ NEL T as = true := by
  simp only [NE, Bool.and_eq_true] at h
  refine ⟨?_, ?_, ?_, h.2⟩
  · intro hc; subst hc; simp at h
  · intro ho
    have h2 := h.1.2
    rw [if_pos (by simpa using ho)] at h2
    simpa using h2
  · intro ho
    have h2 := h.1.2
    rw [if_neg (by simpa using ho)] at h2
    simpa using h2

theorem groupConstants_NE (e : Expr) : NE T e = true → NE T (groupConstants e) = true := by
  induction e using Expr.rec (motive_2 := fun l => NEL T l = true →
      NEL T (groupConstantsList l) = true ∧ (groupConstantsList l).length = l.length) with
  | term o v np => intro h; rw [groupConstants]; exact h
  | node o as ih =>
    intro h
    obtain ⟨h1, h2, h2', h3⟩ := NE_node_inv h
    obtain ⟨ih1, ih2⟩ := ih h3
    have hne : groupConstantsList as ≠ [] := by
      intro hc; rw [hc] at ih2; exact h1 (List.length_eq_zero_iff.1 ih2.symm)
    have keep : NE T (node o (groupConstantsList as)) = true :=
      NE_node_of hne (fun ho => by rw [ih2]; exact h2 ho) (fun ho => by rw [ih2]; exact h2' ho) ih1
    rw [groupConstants]
    dsimp only
    split
    · rename_i hop
      have hop' : o = ADDITION ∨ o = MULTIPLICATION := by
        simp only [Bool.or_eq_true, beq_iff_eq] at hop; exact hop.symm
      split
      · rename_i hc
        simp only [Bool.and_eq_true, decide_eq_true_eq] at hc
        refine NE_node_of (by simp) (fun _ => ?_) (fun hn => absurd hop' hn) ?_
        · simp only [List.length_cons]; omega
        · simp only [NEL, Bool.and_eq_true]
          refine ⟨NE_node_of ?_ (fun _ => by omega) (fun hn => absurd hop' hn) (NEL_filter _ ih1),
            NEL_filter _ ih1⟩
          intro hc'; rw [hc'] at hc; simp at hc
      · exact keep
    · exact keep
  | nil => exact ⟨rfl, rfl⟩
  | cons a as iha ihas =>
    rename_i h
    simp only [NEL, Bool.and_eq_true] at h
    obtain ⟨i1, i2⟩ := ihas h.2
    rw [groupConstantsList]
    simp only [NEL, Bool.and_eq_true, List.length_cons]
    exact ⟨⟨iha h.1, i1⟩, by rw [i2]⟩

/-! ## `insertSubtraction` -/

theorem ONE_ne_NEGATIVE_ONE : optBeq (some ONE) (some NEGATIVE_ONE) = false := by decide

theorem coeff_negone {a : Expr} (h : optBeq a.coefficient (some NEGATIVE_ONE) = true)
    (hne : NE T a = true) :
    ∃ rest, a.termOf = some (node MULTIPLICATION rest) ∧ rest ≠ [] ∧ NEL T rest = true := by
  cases a with
  | term o v n =>
    simp only [coefficient] at h
    split at h
    · simp [optBeq] at h
    · rw [ONE_ne_NEGATIVE_ONE] at h; cases h
  | node o as =>
    simp only [coefficient] at h
    split at h
    · rename_i ho
      subst ho
      obtain ⟨h1, h2, h2', h3⟩ := NE_node_inv hne
      have hlen := h2 (Or.inr rfl)
      match as, h, hlen, h3 with
      | k :: rest, h, hlen, h3 =>
        simp only at h
        split at h
        · rename_i hk
          refine ⟨rest, by simp [termOf, hk], ?_, ?_⟩
          · intro hc; subst hc; simp at hlen
          · simp only [NEL, Bool.and_eq_true] at h3; exact h3.2
        · rw [ONE_ne_NEGATIVE_ONE] at h; cases h
    · rw [ONE_ne_NEGATIVE_ONE] at h; cases h

theorem splitSubtractive_spec : ∀ (l : List Expr), NEL T l = true →
    NEL T (splitSubtractive l).1 = true ∧ NEL T (splitSubtractive l).2 = true ∧
    (splitSubtractive l).1.length + (splitSubtractive l).2.length = l.length
  | [], _ => ⟨rfl, rfl, rfl⟩
  | operand :: rest, h => by
    simp only [NEL, Bool.and_eq_true] at h
    obtain ⟨i1, i2, i3⟩ := splitSubtractive_spec rest h.2
    rw [splitSubtractive]
    dsimp only
    split
    · rename_i hc
      obtain ⟨rs, ht, hrs, hrn⟩ := coeff_negone hc h.1
      rw [ht]
      dsimp only
      split
      · rename_i single hargs
        simp only [args] at hargs
        subst hargs
        simp only [NEL, Bool.and_true] at hrn
        simp only [NEL, Bool.and_eq_true, List.length_cons]
        exact ⟨i1, ⟨hrn, i2⟩, by omega⟩
      · rename_i hns
        simp only [args] at hns
        have hlen : 2 ≤ rs.length := by
          match rs, hrs, hns with
          | [], hrs, _ => exact (hrs rfl).elim
          | [x], _, hns => exact (hns x rfl).elim
          | _ :: _ :: _, _, _ => simp
        simp only [NEL, Bool.and_eq_true, List.length_cons]
        exact ⟨i1, ⟨NE_node_of hrs (fun _ => hlen) (fun hn => absurd (Or.inr rfl) hn) hrn, i2⟩, by omega⟩
    · simp only [NEL, Bool.and_eq_true, List.length_cons]
      exact ⟨⟨h.1, i1⟩, i2, by omega⟩

theorem NE_single_or_add {l : List Expr} (h : NEL T l = true) (hne : l ≠ []) :
    NE T (match (generalizing := false) l with
      | [s] => s
      | _ => node ADDITION l) = true := by
  match l, h, hne with
  | [], _, hne => exact (hne rfl).elim
  | [s], h, _ => simp only [NEL, Bool.and_true] at h; exact h
  | a :: b :: tl, h, _ => exact NE_node_of (by simp) (fun _ => by simp) (fun hn => absurd (Or.inl rfl) hn) h

theorem insertSubtraction_NE (e : Expr) : NE T e = true → NE T (insertSubtraction e) = true := by
  induction e using Expr.rec (motive_2 := fun l => NEL T l = true →
      NEL T (insertSubtractionList l) = true ∧ (insertSubtractionList l).length = l.length) with
  | term o v np => intro h; rw [insertSubtraction]; exact h
  | node o as ih =>
    intro h
    obtain ⟨h1, h2, h2', h3⟩ := NE_node_inv h
    obtain ⟨ih1, ih2⟩ := ih h3
    have hne : insertSubtractionList as ≠ [] := by
      intro hc; rw [hc] at ih2; exact h1 (List.length_eq_zero_iff.1 ih2.symm)
    rw [insertSubtraction]
    dsimp only
    split
    · exact NE_node_of hne (fun ho => by rw [ih2]; exact h2 ho) (fun ho => by rw [ih2]; exact h2' ho) ih1
    · rename_i ho
      have ho' : o = ADDITION := by simpa using ho
      have hlen : 2 ≤ (insertSubtractionList as).length := by rw [ih2]; exact h2 (Or.inl ho')
      obtain ⟨s1, s2, s3⟩ := splitSubtractive_spec (T := T) (insertSubtractionList as) ih1
      generalize splitSubtractive (insertSubtractionList as) = p at s1 s2 s3
      obtain ⟨additive, subtractive⟩ := p
      dsimp only at s1 s2 s3 ⊢
      split
      · rename_i he
        have : subtractive = [] := by simpa using he
        subst this
        refine NE_node_of ?_ (fun _ => by simp at s3; omega) (fun hn => absurd (Or.inl rfl) hn) s1
        intro hc; subst hc; simp at s3; omega
      · rename_i he
        have hsne : subtractive ≠ [] := by simpa using he
        split
        · rename_i he2
          have : additive = [] := by simpa using he2
          subst this
          refine NE_node_of (by simp) (fun _ => by simp) (fun hn => absurd (Or.inr rfl) hn) ?_
          simp only [NEL, Bool.and_eq_true, Bool.and_true]
          exact ⟨NE_NEGATIVE_ONE, NE_node_of hsne (fun _ => by simp at s3; omega)
            (fun hn => absurd (Or.inl rfl) hn) s2⟩
        · rename_i he2
          have hane : additive ≠ [] := by simpa using he2
          refine NE_node_of (by simp) (fun hc => by rcases hc with hc | hc <;> exact absurd hc (by decide))
            (fun _ => by simp) ?_
          simp only [NEL, Bool.and_eq_true, Bool.and_true]
          exact ⟨NE_single_or_add s1 hane, NE_single_or_add s2 hsne⟩
  | nil => exact ⟨rfl, rfl⟩
  | cons a as iha ihas =>
    rename_i h
    simp only [NEL, Bool.and_eq_true] at h
    obtain ⟨i1, i2⟩ := ihas h.2
    rw [insertSubtractionList]
    simp only [NEL, Bool.and_eq_true, List.length_cons]
    exact ⟨⟨iha h.1, i1⟩, by rw [i2]⟩

/-! ## `replaceIntegerPowers` -/

theorem NEmpL_iff {l : List Expr} : NEmpL l = true ↔ ∀ a ∈ l, NEmp a = true := by
  induction l with
  | nil => simp [NEmpL]
  | cons a l ih => simp [NEmpL, ih]

theorem replaceIntegerPowers_NEmp (e : Expr) : NEmp e = true → ∀ e', replaceIntegerPowers e = .ok e' →
    NEmp e' = true := by
  induction e using Expr.rec (motive_2 := fun l => NEmpL l = true →
      ∀ rs, replaceIntegerPowersList l = .ok rs → NEmpL rs = true ∧ rs.length = l.length) with
  | term o v np =>
    intro h e' he
    rw [replaceIntegerPowers] at he
    cases pure_ok he; exact h
  | node o as ih =>
    intro h e' he
    simp only [NEmp, Bool.and_eq_true] at h
    rw [replaceIntegerPowers] at he
    obtain ⟨operands, hops, he⟩ := bind_ok he
    obtain ⟨i1, i2⟩ := ih h.2 operands hops
    have hne : operands ≠ [] := by
      intro hc; subst hc
      have : as = [] := List.length_eq_zero_iff.1 i2.symm
      subst this; simp at h
    have keep : NEmp (node o operands) = true := by
      simp only [NEmp, Bool.and_eq_true]
      refine ⟨?_, i1⟩
      cases operands with
      | nil => exact (hne rfl).elim
      | cons a as => rfl
    split at he
    · cases pure_ok he; exact keep
    · split at he
      · rename_i b o' v np'
        split at he
        · cases pure_ok he; exact keep
        · rename_i hv
          split at he
          · exact (throw_ok he).elim
          · split at he
            · exact (throw_ok he).elim
            · cases pure_ok he
              have hpos : 0 < v := by
                simp only [Bool.or_eq_true, bne_iff_ne, ne_eq, decide_eq_true_eq, not_or, not_le] at hv
                exact hv.2
              have hb : NEmp b = true := by
                simp only [NEmpL, Bool.and_eq_true] at i1; exact i1.1
              simp only [NEmp, Bool.and_eq_true]
              refine ⟨?_, ?_⟩
              · have : 0 < v.toNat := by omega
                cases hn : v.toNat with
                | zero => omega
                | succ k => rfl
              · rw [NEmpL_iff]
                intro a ha
                rw [(List.mem_replicate.1 ha).2]; exact hb
      · cases pure_ok he; exact keep
      · exact (throw_ok he).elim
  | nil =>
    rename_i rs hr
    rw [replaceIntegerPowersList] at hr
    cases pure_ok hr; exact ⟨rfl, rfl⟩
  | cons a as iha ihas =>
    rename_i h rs hr
    simp only [NEmpL, Bool.and_eq_true] at h
    rw [replaceIntegerPowersList] at hr
    obtain ⟨a', ha', hr⟩ := bind_ok hr
    obtain ⟨as', has', hr⟩ := bind_ok hr
    cases pure_ok hr
    obtain ⟨i1, i2⟩ := ihas h.2 as' has'
    simp only [NEmpL, Bool.and_eq_true, List.length_cons]
    exact ⟨⟨iha h.1 a' ha', i1⟩, by rw [i2]⟩

theorem replaceIntegerPowers_nfu (e : Expr) : NFu (replaceIntegerPowers e) := by
  induction e using Expr.rec (motive_2 := fun l => NFu (replaceIntegerPowersList l)) with
  | term o v np => rw [replaceIntegerPowers]; exact pure_ne
  | node o as ih =>
    rw [replaceIntegerPowers]
    refine nfu_bind ih (fun operands _ => ?_)
    repeat' (first | exact pure_ne | exact throw_ne (by decide) | split)
  | nil => rw [replaceIntegerPowersList]; exact pure_ne
  | cons a as iha ihas =>
    rw [replaceIntegerPowersList]
    exact nfu_bind iha (fun _ _ => nfu_bind ihas (fun _ _ => pure_ne))

end Term
end Cas
end Bingo
