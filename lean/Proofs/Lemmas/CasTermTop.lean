import Proofs.Lemmas.CasTermMain
/-!
# Stage 3: `dispatch` and `automaticSimplify` terminate
-/
namespace Bingo
namespace Cas
namespace Term
open Gen.OpDefs Expr Auto

variable {T : Int → Bool}

theorem NE_unary {o : Int} {a : Expr} (h : NE T a = true)
    (ho : o ≠ ADDITION ∧ o ≠ MULTIPLICATION) : NE T (node o [a]) = true := by
  simp [NE, NEL, h, ho.1, ho.2]

theorem NE_NEGATIVE_ONE : NE T NEGATIVE_ONE = true := rfl

theorem NE_simplifyAtZero {z a : Expr} {o : Int} (hz : NE T z = true) (ha : NE T a = true)
    (ho : o ≠ ADDITION ∧ o ≠ MULTIPLICATION) : NE T (simplifyAtZero z o a) = true := by
  unfold simplifyAtZero
  split
  · exact hz
  · exact NE_unary ha ho

theorem NE_simplifyLogarithm {a r : Expr} (ha : NE T a = true) (h : simplifyLogarithm a = .ok r) :
    NE T r = true := by
  unfold simplifyLogarithm at h
  split at h
  · cases pure_ok h; exact NE_ZERO
  · split at h
    · split at h
      · rename_i x tl hargs
        cases pure_ok h
        have := NE_args ha
        rw [hargs] at this
        simp only [NEL, Bool.and_eq_true] at this
        exact this.1
      · exact (throw_ok h).elim
    · cases pure_ok h; exact NE_unary ha (by decide)

theorem nfu_simplifyLogarithm {a : Expr} : NFu (simplifyLogarithm a) := by
  unfold simplifyLogarithm
  repeat' (first | exact pure_ne | exact throw_ne (by decide) | split)

/-! ## closure: the results of `dispatch` are `NE` -/

theorem NE_quotient {st : Bool} {f : Nat} {a b r : Expr} (ha : NE T a = true) (hb : NE T b = true)
    (h : simplifyQuotient st f a b = .ok r) : NE T r = true := by
  unfold simplifyQuotient at h
  obtain ⟨inv, hinv, h⟩ := bind_ok h
  have hi := ((clAt (T := T) st f).pow b NEGATIVE_ONE inv hb NE_NEGATIVE_ONE hinv).1
  exact ((clAt (T := T) st f).prod [a, inv] r (by simp [NEL, ha, hi]) h).1

theorem NE_difference {st : Bool} {f : Nat} {a b r : Expr} (ha : NE T a = true) (hb : NE T b = true)
    (h : simplifyDifference st f a b = .ok r) : NE T r = true := by
  have finish : ∀ neg, NEL T neg = true → simplifySum st f (a :: neg) = .ok r → NE T r = true :=
    fun neg hn h => ((clAt (T := T) st f).sum (a :: neg) r (by simp [NEL, ha, hn]) h).1
  unfold simplifyDifference at h
  dsimp only at h
  split at h
  · obtain ⟨neg, hneg, h⟩ := bind_ok h
    have hf := mapM_ok hneg
    refine finish neg ?_ h
    rw [NEL_iff]
    intro p hp
    obtain ⟨o, ho, hop⟩ := forall₂_right hf p hp
    exact ((clAt (T := T) st f).prod [NEGATIVE_ONE, o] p
      (by simp [NEL, NE_NEGATIVE_ONE, NEL_iff.1 (NE_args hb) o ho]) hop).1
  · obtain ⟨p, hp, h⟩ := bind_ok h
    obtain ⟨neg, hneg, h⟩ := bind_ok h
    cases pure_ok hneg
    refine finish [p] ?_ h
    simp only [NEL, Bool.and_true]
    exact ((clAt (T := T) st f).prod [NEGATIVE_ONE, b] p (by simp [NEL, NE_NEGATIVE_ONE, hb]) hp).1

theorem NE_dispatch {st : Bool} {f : Nat} {o : Int} {args : List Expr} {r : Expr}
    (ha : NEL T args = true) (h : dispatch st f o args = .ok r) : NE T r = true := by
  unfold dispatch at h
  split at h
  · rename_i a b
    simp only [NEL, Bool.and_eq_true] at ha
    split at h
    · exact ((clAt (T := T) st f).pow a b r ha.1 ha.2.1 h).1
    · split at h
      · exact ((clAt (T := T) st f).prod [a, b] r (by simp [NEL, ha.1, ha.2.1]) h).1
      · split at h
        · exact ((clAt (T := T) st f).sum [a, b] r (by simp [NEL, ha.1, ha.2.1]) h).1
        · split at h
          · exact NE_quotient ha.1 ha.2.1 h
          · split at h
            · exact NE_difference ha.1 ha.2.1 h
            · split at h
              · unfold simplifySafePower at h
                exact ((clAt (T := T) st f).pow _ b r (NE_unary ha.1 (by decide)) ha.2.1 h).1
              · exact (throw_ok h).elim
  · rename_i a
    simp only [NEL, Bool.and_eq_true] at ha
    repeat' (first
      | (rename_i hop; subst hop; cases pure_ok h
         first
         | exact NE_simplifyAtZero NE_ZERO ha.1 (by decide)
         | exact NE_simplifyAtZero NE_ONE ha.1 (by decide)
         | exact NE_unary ha.1 (by decide))
      | (rename_i hop; subst hop; exact NE_simplifyLogarithm ha.1 h)
      | exact (throw_ok h).elim
      | split at h)
  · exact (throw_ok h).elim

/-! ## termination of the eight functions on `NE` arguments, and of `dispatch` -/

theorem halts_pow (st : Bool) {a b : Expr} (ha : NE T a = true) (hb : NE T b = true) :
    ∃ N, NFu (simplifyPower st N a b) := (termAt (T := T) st _).pow a b ha hb (Nat.le_refl _)
theorem halts_prod (st : Bool) {l : List Expr} (hl : NEL T l = true) (hne : l ≠ []) :
    ∃ N, NFu (simplifyProduct st N l) :=
  (termAt (T := T) st _).prod l (fun a ha => NEM_of_NE (NEL_iff.1 hl a ha)) hne (Nat.le_refl _)
theorem halts_sum (st : Bool) {l : List Expr} (hl : NEL T l = true) (hne : l ≠ []) :
    ∃ N, NFu (simplifySum st N l) := (termAt (T := T) st _).sum l hl hne (Nat.le_refl _)

/-- sequencing two fuel-indexed computations whose results are stable -/
theorem halts_bind {α β : Type} {A : Nat → R α} {B : Nat → α → R β}
    (sA : ∀ N f, N ≤ f → NFu (A N) → A f = A N)
    (sB : ∀ x N f, N ≤ f → NFu (B N x) → B f x = B N x)
    (hA : ∃ N, NFu (A N)) (hB : ∀ N x, A N = .ok x → ∃ M, NFu (B M x)) :
    ∃ N, NFu (A N >>= B N) := by
  obtain ⟨N1, h1⟩ := hA
  cases hv : A N1 with
  | error s =>
    refine ⟨N1, nfu_bind h1 (fun x hx => ?_)⟩
    rw [hv] at hx; cases hx
  | ok x =>
    obtain ⟨N2, h2⟩ := hB N1 x hv
    refine ⟨max N1 N2, nfu_bind ?_ (fun x' hx' => ?_)⟩
    · rw [sA N1 _ (Nat.le_max_left _ _) h1]; exact h1
    · rw [sA N1 _ (Nat.le_max_left _ _) h1, hv] at hx'
      cases hx'
      rw [sB x N2 _ (Nat.le_max_right _ _) h2]; exact h2

theorem halts_quotient (st : Bool) {a b : Expr} (ha : NE T a = true) (hb : NE T b = true) :
    ∃ N, NFu (simplifyQuotient st N a b) := by
  unfold simplifyQuotient
  refine halts_bind (A := fun N => simplifyPower st N b NEGATIVE_ONE)
    (B := fun N inv => simplifyProduct st N [a, inv])
    (fun N f hle h => pow_le hle h) (fun x N f hle h => prod_le hle h)
    (halts_pow (T := T) st hb NE_NEGATIVE_ONE) (fun N inv hinv => ?_)
  have hi := ((clAt (T := T) st N).pow b NEGATIVE_ONE inv hb NE_NEGATIVE_ONE hinv).1
  exact halts_prod (T := T) st (by simp [NEL, ha, hi]) (by simp)

theorem mapM_stable {st : Bool} {l : List Expr} {N f : Nat} (hle : N ≤ f)
    (h : NFu (l.mapM (fun o => simplifyProduct st N [NEGATIVE_ONE, o]))) :
    l.mapM (fun o => simplifyProduct st f [NEGATIVE_ONE, o]) =
      l.mapM (fun o => simplifyProduct st N [NEGATIVE_ONE, o]) :=
  nf_le (fun f => l.mapM (fun o => simplifyProduct st f [NEGATIVE_ONE, o]))
    (fun f => NF.mapM (fun o => (smonoAt st f).prod [NEGATIVE_ONE, o]) l) hle h

theorem halts_difference (st : Bool) {a b : Expr} (ha : NE T a = true) (hb : NE T b = true) :
    ∃ N, NFu (simplifyDifference st N a b) := by
  have finish : ∀ neg, NEL T neg = true → ∃ M, NFu (simplifySum st M (a :: neg)) :=
    fun neg hn => halts_sum (T := T) st (by simp [NEL, ha, hn]) (by simp)
  by_cases hop : (b.op == ADDITION) = true
  · have heq : ∀ N, simplifyDifference st N a b =
        (b.args.mapM (fun o => simplifyProduct st N [NEGATIVE_ONE, o]) >>=
          fun neg => simplifySum st N (a :: neg)) := by
      intro N; unfold simplifyDifference; dsimp only; rw [if_pos hop]
    obtain ⟨N, hN⟩ := halts_bind
      (A := fun N => b.args.mapM (fun o => simplifyProduct st N [NEGATIVE_ONE, o]))
      (B := fun N neg => simplifySum st N (a :: neg))
      (fun N f hle h => mapM_stable hle h) (fun x N f hle h => sum_le hle h)
      (by
        obtain ⟨N, hN⟩ := exists_uniform (F := fun N o => simplifyProduct st N [NEGATIVE_ONE, o])
          (l := b.args) (fun p N f hle h => prod_le hle h)
          (fun o ho => halts_prod (T := T) st
            (by simp [NEL, NE_NEGATIVE_ONE, NEL_iff.1 (NE_args hb) o ho]) (by simp))
        exact ⟨N, nfu_mapM hN⟩)
      (fun N neg hneg => by
        refine finish neg ?_
        have hf := mapM_ok hneg
        rw [NEL_iff]
        intro p hp
        obtain ⟨o, ho, hop'⟩ := forall₂_right hf p hp
        exact ((clAt (T := T) st N).prod [NEGATIVE_ONE, o] p
          (by simp [NEL, NE_NEGATIVE_ONE, NEL_iff.1 (NE_args hb) o ho]) hop').1)
    exact ⟨N, by rw [heq N]; exact hN⟩
  · have heq : ∀ N, simplifyDifference st N a b =
        (simplifyProduct st N [NEGATIVE_ONE, b] >>= fun p => simplifySum st N (a :: [p])) := by
      intro N; unfold simplifyDifference; dsimp only; rw [if_neg hop]
      cases simplifyProduct st N [NEGATIVE_ONE, b] <;> rfl
    obtain ⟨N, hN⟩ := halts_bind
      (A := fun N => simplifyProduct st N [NEGATIVE_ONE, b])
      (B := fun N p => simplifySum st N (a :: [p]))
      (fun N f hle h => prod_le hle h) (fun x N f hle h => sum_le hle h)
      (halts_prod (T := T) st (by simp [NEL, NE_NEGATIVE_ONE, hb]) (by simp))
      (fun N p hp => by
        refine finish [p] ?_
        simp only [NEL, Bool.and_true]
        exact ((clAt (T := T) st N).prod [NEGATIVE_ONE, b] p (by simp [NEL, NE_NEGATIVE_ONE, hb]) hp).1)
    exact ⟨N, by rw [heq N]; exact hN⟩

theorem halts_dispatch (st : Bool) {o : Int} {args : List Expr} (ha : NEL T args = true) :
    ∃ N, NFu (dispatch st N o args) := by
  match args, ha with
  | [a, b], ha =>
    simp only [NEL, Bool.and_eq_true] at ha
    by_cases h1 : o = POWER
    · obtain ⟨N, hN⟩ := halts_pow (T := T) st ha.1 ha.2.1
      exact ⟨N, by unfold dispatch; dsimp only; rw [if_pos h1]; exact hN⟩
    by_cases h2 : o = MULTIPLICATION
    · obtain ⟨N, hN⟩ := halts_prod (T := T) st (l := [a, b]) (by simp [NEL, ha.1, ha.2.1]) (by simp)
      exact ⟨N, by unfold dispatch; dsimp only; rw [if_neg h1, if_pos h2]; exact hN⟩
    by_cases h3 : o = ADDITION
    · obtain ⟨N, hN⟩ := halts_sum (T := T) st (l := [a, b]) (by simp [NEL, ha.1, ha.2.1]) (by simp)
      exact ⟨N, by unfold dispatch; dsimp only; rw [if_neg h1, if_neg h2, if_pos h3]; exact hN⟩
    by_cases h4 : o = DIVISION
    · obtain ⟨N, hN⟩ := halts_quotient st ha.1 ha.2.1
      exact ⟨N, by
        unfold dispatch; dsimp only; rw [if_neg h1, if_neg h2, if_neg h3, if_pos h4]; exact hN⟩
    by_cases h5 : o = SUBTRACTION
    · obtain ⟨N, hN⟩ := halts_difference st ha.1 ha.2.1
      exact ⟨N, by
        unfold dispatch; dsimp only
        rw [if_neg h1, if_neg h2, if_neg h3, if_neg h4, if_pos h5]; exact hN⟩
    by_cases h6 : o = SAFE_POWER
    · obtain ⟨N, hN⟩ := halts_pow (T := T) st (NE_unary (o := ABS) ha.1 (by decide)) ha.2.1
      exact ⟨N, by
        unfold dispatch simplifySafePower; dsimp only
        rw [if_neg h1, if_neg h2, if_neg h3, if_neg h4, if_neg h5, if_pos h6]; exact hN⟩
    · exact ⟨0, by
        unfold dispatch; dsimp only
        rw [if_neg h1, if_neg h2, if_neg h3, if_neg h4, if_neg h5, if_neg h6]
        exact throw_ne (by decide)⟩
  | [a], _ =>
    refine ⟨0, ?_⟩
    unfold dispatch
    dsimp only
    repeat' (first | exact pure_ne | exact throw_ne (by decide) | exact nfu_simplifyLogarithm | split)
  | [], _ => exact ⟨0, by unfold dispatch; exact throw_ne (by decide)⟩
  | _ :: _ :: _ :: _, _ => exact ⟨0, by unfold dispatch; exact throw_ne (by decide)⟩

/-! ## `automaticSimplify` -/

mutual
/-- every terminal is an `INTEGER` or carries an operator allowed by `T` other than `MULTIPLICATION`
(the terminals of bingo are integers, variables and constants); no condition on the nodes -/
def TOK (T : Int → Bool) : Expr → Bool
  | term o _ _ => o == INTEGER || (o != MULTIPLICATION && T o)
  | node _ as => TOKL T as
def TOKL (T : Int → Bool) : List Expr → Bool
  | [] => true
  | a :: as => TOK T a && TOKL T as
end

theorem automaticSimplifyList_smono (st : Bool) (f : Nat) : ∀ (l : List Expr),
    NF (automaticSimplifyList st f l) (automaticSimplifyList st (f+1) l)
  | [] => NF.rfl
  | a :: as => by
    rw [automaticSimplifyList.eq_2, automaticSimplifyList.eq_2]
    exact NF.bind (automaticSimplify_smono_aux st f a)
      (fun _ => NF.bind (automaticSimplifyList_smono st f as) (fun _ => NF.rfl))

theorem automaticSimplifyList_le {st : Bool} {f f' : Nat} (hle : f ≤ f') {l : List Expr}
    (h : NFu (automaticSimplifyList st f l)) :
    automaticSimplifyList st f' l = automaticSimplifyList st f l :=
  nf_le (fun f => automaticSimplifyList st f l) (fun f => automaticSimplifyList_smono st f l) hle h

/-- the results of `automaticSimplify` are `NE` -/
theorem automaticSimplify_NE (st : Bool) (f : Nat) (e : Expr) :
    TOK T e = true → ∀ r, automaticSimplify st f e = .ok r → NE T r = true := by
  induction e using Expr.rec (motive_2 := fun l =>
      TOKL T l = true → ∀ rs, automaticSimplifyList st f l = .ok rs → NEL T rs = true) with
  | term o v np =>
    intro h r hr
    rw [automaticSimplify.eq_1] at hr
    cases pure_ok hr
    exact h
  | node o args ih =>
    intro h r hr
    rw [automaticSimplify.eq_2] at hr
    obtain ⟨args', ha, hr⟩ := bind_ok hr
    exact NE_dispatch (ih h args' ha) hr
  | nil =>
    rename_i _ rs hr
    rw [automaticSimplifyList.eq_1] at hr
    cases pure_ok hr; rfl
  | cons a as iha ihas =>
    rename_i h rs hr
    simp only [TOKL, Bool.and_eq_true] at h
    rw [automaticSimplifyList.eq_2] at hr
    obtain ⟨a', ha', hr⟩ := bind_ok hr
    obtain ⟨as', has', hr⟩ := bind_ok hr
    cases pure_ok hr
    simp only [NEL, Bool.and_eq_true]
    exact ⟨iha h.1 a' ha', ihas h.2 as' has'⟩

/-- **`automaticSimplify` terminates** -/
theorem automaticSimplify_halts (st : Bool) (e : Expr) :
    TOK T e = true → ∃ N, NFu (automaticSimplify st N e) := by
  induction e using Expr.rec (motive_2 := fun l =>
      TOKL T l = true → (∃ N, NFu (automaticSimplifyList st N l)) ∧
        ∀ f rs, automaticSimplifyList st f l = .ok rs → NEL T rs = true) with
  | term o v np => intro _; exact ⟨0, by rw [automaticSimplify.eq_1]; exact pure_ne⟩
  | node o args ih =>
    intro h
    obtain ⟨hh, hne⟩ := ih h
    obtain ⟨N, hN⟩ := halts_bind (A := fun N => automaticSimplifyList st N args)
      (B := fun N args' => dispatch st N o args')
      (fun N f hle h => automaticSimplifyList_le hle h) (fun x N f hle h => dispatch_le hle h)
      hh (fun N args' ha => halts_dispatch st (hne N args' ha))
    exact ⟨N, by rw [automaticSimplify.eq_2]; exact hN⟩
  | nil =>
    refine ⟨⟨0, by rw [automaticSimplifyList.eq_1]; exact pure_ne⟩, fun f rs hr => ?_⟩
    rw [automaticSimplifyList.eq_1] at hr
    cases pure_ok hr; rfl
  | cons a as iha ihas =>
    rename_i h
    simp only [TOKL, Bool.and_eq_true] at h
    obtain ⟨N1, h1⟩ := iha h.1
    obtain ⟨⟨N2, h2⟩, hne⟩ := ihas h.2
    refine ⟨⟨max N1 N2, ?_⟩, fun f rs hr => ?_⟩
    · rw [automaticSimplifyList.eq_2]
      refine nfu_bind ?_ (fun a' _ => nfu_bind ?_ (fun _ _ => pure_ne))
      · rw [automaticSimplify_le (Nat.le_max_left _ _) h1]; exact h1
      · rw [automaticSimplifyList_le (Nat.le_max_right _ _) h2]; exact h2
    · rw [automaticSimplifyList.eq_2] at hr
      obtain ⟨a', ha', hr⟩ := bind_ok hr
      obtain ⟨as', has', hr⟩ := bind_ok hr
      cases pure_ok hr
      simp only [NEL, Bool.and_eq_true]
      exact ⟨automaticSimplify_NE st f a h.1 a' ha', hne f as' has'⟩

end Term
end Cas
end Bingo
